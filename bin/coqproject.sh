#!/bin/bash
# Regenerates coq/_CoqProject and coq/Makefile.coq from the .v files on disk.
set -e
cd "$(dirname "$0")/../coq"
{ echo "-Q . MV"
  echo "-arg -w -arg -notation-overridden,-deprecated-hint-without-locality,-deprecated-instance-without-locality,-ambiguous-paths,-undeclared-scope"
  find . -name '*.v' | sed 's|^\./||' | LC_ALL=C sort; } > _CoqProject.new
if cmp -s _CoqProject.new _CoqProject; then rm -f _CoqProject.new; else mv _CoqProject.new _CoqProject; fi
if [ ! -f Makefile.coq ] || [ _CoqProject -nt Makefile.coq ]; then coq_makefile -f _CoqProject -o Makefile.coq >/dev/null; fi
