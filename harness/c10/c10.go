//go:build verif

// C10 runners: outcome enum {value, error, panic} of the real decoders
// (ast.Unescape, factstore.SimpleColumn.ReadInto) on arbitrary bytes.
package main

import (
	"bufio"
	"bytes"
	"encoding/base64"
	"encoding/json"
	"errors"
	"fmt"
	"net/url"
	"strconv"
	"strings"

	"codeberg.org/TauCeti/mangle-go/ast"
	"codeberg.org/TauCeti/mangle-go/factstore"
	"codeberg.org/TauCeti/mangle-go/functional"
	"codeberg.org/TauCeti/mangle-go/parse"
	"mvharness/hlib"
)

func b64(b []byte) string { return base64.StdEncoding.EncodeToString(b) }

func firstLine(s string) string {
	if i := strings.IndexByte(s, '\n'); i >= 0 {
		return s[:i]
	}
	return s
}

// ---------------------------------------------------------------- Unescape

type unescOut struct {
	K   string `json:"k"` // val | err | panic
	V   string `json:"v,omitempty"`
	Msg string `json:"msg,omitempty"`
}

func unescapeOutcome(s string, isBytes bool) (o unescOut) {
	defer func() {
		if p := recover(); p != nil {
			o = unescOut{K: "panic", Msg: firstLine(fmt.Sprint(p))}
		}
	}()
	v, err := ast.Unescape(s, isBytes)
	if err != nil {
		return unescOut{K: "err", Msg: err.Error()}
	}
	return unescOut{K: "val", V: b64([]byte(v))}
}

// ------------------------------------------------------- simple-column file

// recStore records every Add in order; nothing else is used by ReadInto.
type recStore struct {
	factstore.FactStore
	added []ast.Atom
}

func (r *recStore) Add(a ast.Atom) bool { r.added = append(r.added, a); return true }

type scFact struct {
	Name  string   `json:"n"` // base64
	Arity int      `json:"a"`
	Args  []string `json:"args"` // base64 of arg.String()
}

// Per-line results of the library / front-end functions the reader calls; the
// Coq model takes them as a table (it models the reader's control flow and
// index arithmetic, not strconv/fmt/url/the parser).
type scLine struct {
	L     string `json:"l"`              // the line (base64)
	Atoi  *int64 `json:"atoi,omitempty"` // strconv.Atoi
	Scan  bool   `json:"scan"`           // fmt.Sscanf("%s %d %d") succeeded
	Name  string `json:"name,omitempty"`
	Ar    int64  `json:"ar"`
	Nf    int64  `json:"nf"`
	NameK string `json:"namek,omitempty"` // ok | err | panic : parse.PredicateName(name)
	TermK string `json:"termk,omitempty"` // ok | read | parse | panic (decoding of a non-empty body line)
	TermV string `json:"termv,omitempty"` // canonical text of the decoded constant (base64)
}

type scOut struct {
	K     string   `json:"k"` // ok | err | panic
	E     int      `json:"e"` // error class
	Msg   string   `json:"msg,omitempty"`
	Facts []scFact `json:"facts"`
	Lines []scLine `json:"lines"` // the scanner's lines in order, with the table entries
	Long  bool     `json:"long"`  // scanner stopped with an error (token too long)
}

func errClass(err error) int {
	switch {
	case err == nil:
		return 0
	case errors.Is(err, factstore.ErrCouldNotRead):
		return 1
	case errors.Is(err, factstore.ErrTooManyPreds):
		return 2
	case errors.Is(err, factstore.ErrWrongArgument):
		return 3
	case errors.Is(err, factstore.ErrUnsupportedArity):
		return 4
	case errors.Is(err, factstore.ErrTooManyFacts):
		return 5
	}
	return 6 // parse error of a body line
}

func decodeBodyLine(text string) (k string, v string) {
	defer func() {
		if p := recover(); p != nil {
			k, v = "panic", firstLine(fmt.Sprint(p))
		}
	}()
	if text[0] == '/' { // callers pass non-empty text
		var err error
		text, err = url.QueryUnescape(text)
		if err != nil {
			return "read", ""
		}
	}
	e, err := parse.BaseTerm(text)
	if err != nil {
		return "parse", ""
	}
	c, err := functional.EvalExpr(e, nil)
	if err != nil {
		return "read", ""
	}
	return "ok", c.String()
}

func predNameK(name string) (k string) {
	defer func() {
		if p := recover(); p != nil {
			k = "panic"
		}
	}()
	if _, err := parse.PredicateName(name); err != nil {
		return "err"
	}
	return "ok"
}

func scTable(data []byte) ([]scLine, bool) {
	sc := bufio.NewScanner(bytes.NewReader(data))
	var out []scLine
	for sc.Scan() {
		t := sc.Text()
		l := scLine{L: b64([]byte(t))}
		if n, err := strconv.Atoi(t); err == nil {
			n64 := int64(n)
			l.Atoi = &n64
		}
		var name string
		var ar, nf int
		if _, err := fmt.Sscanf(t, "%s %d %d", &name, &ar, &nf); err == nil {
			l.Scan, l.Name, l.Ar, l.Nf = true, b64([]byte(name)), int64(ar), int64(nf)
			l.NameK = predNameK(name)
		}
		if t != "" {
			k, v := decodeBodyLine(t)
			l.TermK, l.TermV = k, b64([]byte(v))
		}
		out = append(out, l)
	}
	return out, sc.Err() != nil
}

func scRead(data []byte) (o scOut) {
	st := &recStore{}
	defer func() {
		if p := recover(); p != nil {
			o.K, o.Msg = "panic", firstLine(fmt.Sprint(p))
		}
		o.Facts = []scFact{}
		for _, a := range st.added {
			f := scFact{Name: b64([]byte(a.Predicate.Symbol)), Arity: a.Predicate.Arity, Args: []string{}}
			for _, x := range a.Args {
				if x == nil {
					f.Args = append(f.Args, b64([]byte("<nil>")))
				} else {
					f.Args = append(f.Args, b64([]byte(x.String())))
				}
			}
			o.Facts = append(o.Facts, f)
		}
	}()
	err := factstore.SimpleColumn{}.ReadInto(bytes.NewReader(data), st)
	if err != nil {
		o.K, o.E, o.Msg = "err", errClass(err), firstLine(err.Error())
		return
	}
	o.K = "ok"
	return
}

func init() {
	hlib.Register("c10_unescape", func(in json.RawMessage) (any, error) {
		var c struct {
			B     string `json:"b"`
			Bytes bool   `json:"bytes"`
		}
		if err := json.Unmarshal(in, &c); err != nil {
			return nil, err
		}
		raw, err := base64.StdEncoding.DecodeString(c.B)
		if err != nil {
			return nil, err
		}
		return unescapeOutcome(string(raw), c.Bytes), nil
	})
	hlib.Register("c10_sc", func(in json.RawMessage) (any, error) {
		var c struct {
			B string `json:"b"`
		}
		if err := json.Unmarshal(in, &c); err != nil {
			return nil, err
		}
		raw, err := base64.StdEncoding.DecodeString(c.B)
		if err != nil {
			return nil, err
		}
		o := scRead(raw)
		o.Lines, o.Long = scTable(raw)
		return o, nil
	})
}
