//go:build verif

// C10 fuzz loop (runtime search, not a proof): grammar-based generator of
// Mangle source and fact files, token/byte level mutations, and the staged
// pipeline parse -> analysis -> evaluation, each stage under its own recover
// and the whole case under a wall-clock deadline.
package main

import (
	"bufio"
	"bytes"
	"encoding/base64"
	"encoding/json"
	"flag"
	"fmt"
	"hash/fnv"
	"math/rand"
	"os"
	"runtime"
	"strings"
	"time"

	"codeberg.org/TauCeti/mangle-go/analysis"
	"codeberg.org/TauCeti/mangle-go/ast"
	"codeberg.org/TauCeti/mangle-go/engine"
	"codeberg.org/TauCeti/mangle-go/factstore"
	"codeberg.org/TauCeti/mangle-go/parse"
)

// ------------------------------------------------------------------ staging

type stageResult struct {
	Stage string `json:"stage"`         // last stage entered
	What  string `json:"what"`          // ok | err | panic | timeout
	Msg   string `json:"msg,omitempty"` // first line of the panic value / error
	Where string `json:"where,omitempty"`
}

// guard runs f; a panic is turned into (panicked=true, message, top frames).
func guard(f func() error) (err error, panicked bool, msg string, where string) {
	defer func() {
		if p := recover(); p != nil {
			panicked = true
			msg = firstLine(fmt.Sprint(p))
			where = panicSite()
		}
	}()
	return f(), false, "", ""
}

func panicSite() string {
	buf := make([]byte, 1<<14)
	n := runtime.Stack(buf, false)
	lines := strings.Split(string(buf[:n]), "\n")
	// first frame inside the mangle module after the panic frames
	for i, l := range lines {
		if strings.Contains(l, "mangle-go/") && !strings.HasPrefix(l, "\t") && i+1 < len(lines) {
			fn := l
			if j := strings.LastIndexByte(fn, '('); j > 0 {
				fn = fn[:j]
			}
			if j := strings.Index(fn, "mangle-go/"); j >= 0 {
				fn = fn[j+len("mangle-go/"):]
			}
			loc := strings.TrimSpace(lines[i+1])
			if j := strings.Index(loc, " +0x"); j >= 0 {
				loc = loc[:j]
			}
			if j := strings.LastIndexByte(loc, '/'); j >= 0 {
				loc = loc[j+1:]
			}
			return fn + " " + loc
		}
	}
	return ""
}

var evalTime = time.Date(2024, 6, 1, 12, 0, 0, 0, time.UTC)

const factLimit = 400

// runStages executes one input of one kind and reports the last stage and how it ended.
// allowGrowth: run the evaluation stage also for programs of the known classes N23
// and N111 (set only by the probes of those findings).
var allowGrowth = false

// countVars counts variable occurrences in a term.
func countVars(t ast.BaseTerm) int {
	switch x := t.(type) {
	case ast.Variable:
		if x.Symbol == "_" {
			return 0
		}
		return 1
	case ast.ApplyFn:
		n := 0
		for _, a := range x.Args {
			n += countVars(a)
		}
		return n
	}
	return 0
}

// growsTerms reports the trigger of known finding N23: some clause contains a
// function application (list/map/struct literals included) with two or more
// variable occurrences - such a rule can double the size of a derived term in
// every round, which the fact limit (a count of facts) does not bound.
func growsTerms(unit parse.SourceUnit) bool {
	var inTerm func(t ast.BaseTerm) bool
	inTerm = func(t ast.BaseTerm) bool {
		if a, ok := t.(ast.ApplyFn); ok {
			return countVars(a) >= 2
		}
		return false
	}
	inAtom := func(a ast.Atom) bool {
		for _, x := range a.Args {
			if x != nil && inTerm(x) {
				return true
			}
		}
		return false
	}
	for _, c := range unit.Clauses {
		if inAtom(c.Head) {
			return true
		}
		for _, p := range c.Premises {
			switch x := p.(type) {
			case ast.Atom:
				if inAtom(x) {
					return true
				}
			case ast.NegAtom:
				if inAtom(x.Atom) {
					return true
				}
			case ast.TemporalLiteral:
				if a, ok := x.Literal.(ast.Atom); ok && inAtom(a) {
					return true
				}
			case ast.Eq:
				if x.Left != nil && inTerm(x.Left) || x.Right != nil && inTerm(x.Right) {
					return true
				}
			case ast.Ineq:
				if x.Left != nil && inTerm(x.Left) || x.Right != nil && inTerm(x.Right) {
					return true
				}
			}
		}
		for t := c.Transform; t != nil; t = t.Next {
			for _, st := range t.Statements {
				if st.Var != nil && countVars(st.Fn) >= 2 {
					return true
				}
			}
		}
	}
	return false
}

// deferredRecursion reports the trigger of known finding N111: a predicate declared
// deferred() is evaluated top-down (engine/topdown.go, SLD resolution without
// tabling); when it depends on itself through positive body atoms of deferred
// predicates the resolution does not terminate and no fact limit applies.
func deferredRecursion(unit parse.SourceUnit) bool {
	def := map[ast.PredicateSym]bool{}
	for _, d := range unit.Decls {
		if d.DeferredPredicate() {
			def[d.DeclaredAtom.Predicate] = true
		}
	}
	if len(def) == 0 {
		return false
	}
	edges := map[ast.PredicateSym][]ast.PredicateSym{}
	for _, c := range unit.Clauses {
		if !def[c.Head.Predicate] {
			continue
		}
		for _, p := range c.Premises {
			if a, ok := p.(ast.Atom); ok && def[a.Predicate] {
				edges[c.Head.Predicate] = append(edges[c.Head.Predicate], a.Predicate)
			}
		}
	}
	for start := range def {
		seen := map[ast.PredicateSym]bool{}
		work := append([]ast.PredicateSym{}, edges[start]...)
		for len(work) > 0 {
			x := work[len(work)-1]
			work = work[:len(work)-1]
			if x == start {
				return true
			}
			if !seen[x] {
				seen[x] = true
				work = append(work, edges[x]...)
			}
		}
	}
	return false
}

func runStages(kind string, data []byte) stageResult {
	s := string(data)
	one := func(stage string, f func() error) stageResult {
		err, pan, msg, where := guard(f)
		if pan {
			return stageResult{stage, "panic", msg, where}
		}
		if err != nil {
			m := firstLine(err.Error())
			if len(m) > 200 {
				m = m[:200]
			}
			return stageResult{stage, "err", m, ""}
		}
		return stageResult{stage, "ok", "", ""}
	}
	switch kind {
	case "term":
		return one("parse.Term", func() error { _, e := parse.Term(s); return e })
	case "baseterm":
		return one("parse.BaseTerm", func() error { _, e := parse.BaseTerm(s); return e })
	case "atom":
		return one("parse.Atom", func() error { _, e := parse.Atom(s); return e })
	case "literal":
		return one("parse.LiteralOrFormula", func() error { _, e := parse.LiteralOrFormula(s); return e })
	case "predname":
		return one("parse.PredicateName", func() error { _, e := parse.PredicateName(s); return e })
	case "clause":
		var cl ast.Clause
		r := one("parse.Clause", func() error { var e error; cl, e = parse.Clause(s); return e })
		if r.What != "ok" {
			return r
		}
		// a parsed clause must be printable and analysable as a one-clause unit
		r = one("Clause.String", func() error { _ = cl.String(); return nil })
		if r.What != "ok" {
			return r
		}
		return one("analysis(clause)", func() error {
			_, e := analysis.AnalyzeOneUnit(parse.SourceUnit{Clauses: []ast.Clause{cl}}, nil)
			return e
		})
	case "unescape":
		r := one("ast.Unescape(str)", func() error { _, e := ast.Unescape(s, false); return e })
		if r.What == "panic" {
			return r
		}
		return one("ast.Unescape(bytes)", func() error { _, e := ast.Unescape(s, true); return e })
	case "sc":
		return one("SimpleColumn.ReadInto", func() error {
			st := factstore.NewSimpleInMemoryStore()
			return factstore.SimpleColumn{}.ReadInto(bytes.NewReader(data), &st)
		})
	case "scstore":
		// the read-only store over the same bytes: header, then a query per predicate
		return one("SimpleColumnStore.GetFacts", func() error {
			st, e := factstore.NewSimpleColumnStoreFromBytes(data)
			if e != nil {
				return e
			}
			for _, p := range st.ListPredicates() {
				if e := st.GetFacts(ast.NewQuery(p), func(ast.Atom) error { return nil }); e != nil {
					return e
				}
			}
			return nil
		})
	}
	// kind "unit": the full pipeline
	var unit parse.SourceUnit
	r := one("parse.Unit", func() error { var e error; unit, e = parse.Unit(bytes.NewReader(data)); return e })
	if r.What != "ok" {
		return r
	}
	var info *analysis.ProgramInfo
	r = one("analysis.AnalyzeAndCheckBounds", func() error {
		var e error
		info, e = analysis.AnalyzeAndCheckBounds([]parse.SourceUnit{unit}, nil, analysis.ErrorForBoundsMismatch)
		return e
	})
	if r.What == "err" {
		// the tree may still be acceptable without bounds checking: evaluate that program
		r2 := one("analysis.Analyze", func() error {
			var e error
			info, e = analysis.AnalyzeOneUnit(unit, nil)
			return e
		})
		if r2.What != "ok" {
			return r2
		}
	} else if r.What != "ok" {
		return r
	}
	if !allowGrowth && growsTerms(unit) {
		return stageResult{"engine.EvalProgram", "skipped-N23", "", ""}
	}
	if !allowGrowth && deferredRecursion(unit) {
		return stageResult{"engine.EvalProgram", "skipped-N111", "", ""}
	}
	return one("engine.EvalProgram", func() error {
		st := factstore.NewSimpleInMemoryStore()
		return engine.EvalProgram(info, &st,
			engine.WithCreatedFactLimit(factLimit),
			engine.WithTemporalStore(factstore.NewTemporalStore()),
			engine.WithEvaluationTime(evalTime))
	})
}

// runWithDeadline: the case runs in its own goroutine; if it does not return in
// time the caller reports a timeout and must exit (the goroutine cannot be killed).
func runWithDeadline(kind string, data []byte, d time.Duration) (stageResult, bool) {
	ch := make(chan stageResult, 1)
	go func() { ch <- runStages(kind, data) }()
	t := time.NewTimer(d)
	defer t.Stop()
	select {
	case r := <-ch:
		return r, true
	case <-t.C:
		return stageResult{Stage: kind, What: "timeout"}, false
	}
}

// ------------------------------------------------------------------- main

type failure struct {
	Idx   int64  `json:"idx"`
	Kind  string `json:"kind"`
	Shape string `json:"shape"`
	B     string `json:"b"`
	stageResult
}

func fuzzMain() {
	fs := flag.NewFlagSet("c10_fuzz", flag.ExitOnError)
	seed := fs.Int64("seed", 1, "stream seed")
	start := fs.Int64("start", 0, "first case index")
	n := fs.Int64("n", 1000, "number of cases (upper bound)")
	secs := fs.Float64("secs", 0, "stop after this many seconds (0 = no limit)")
	deadline := fs.Int("deadline", 10000, "per-case deadline in ms")
	replay := fs.Bool("replay", false, "read {kind,b} cases from stdin instead of generating")
	fs.BoolVar(&allowGrowth, "allow-growth", false, "evaluate programs of the known class N23 too (probe only)")
	dump := fs.Int("dump", 0, "print the first k generated inputs and exit")
	maxFail := fs.Int("maxfail", 40, "stop reporting after this many failures")
	emitOnly := fs.Bool("emit", false, "print the generated cases [start, start+n) as JSON and exit (no execution)")
	fs.Parse(os.Args[2:])
	out := bufio.NewWriter(os.Stdout)
	emit := func(v any) {
		b, _ := json.Marshal(v)
		out.Write(b)
		out.WriteByte('\n')
		out.Flush()
	}
	dl := time.Duration(*deadline) * time.Millisecond
	if *replay {
		sc := bufio.NewScanner(os.Stdin)
		sc.Buffer(make([]byte, 1<<20), 1<<28)
		for sc.Scan() {
			var c struct {
				Kind string `json:"kind"`
				B    string `json:"b"`
			}
			if err := json.Unmarshal(sc.Bytes(), &c); err != nil {
				emit(map[string]string{"bad": err.Error()})
				continue
			}
			raw, _ := base64.StdEncoding.DecodeString(c.B)
			r, ok := runWithDeadline(c.Kind, raw, dl)
			emit(r)
			if !ok {
				os.Exit(0) // the stuck goroutine cannot be stopped; caller restarts past this case
			}
		}
		return
	}
	t0 := time.Now()
	stats := map[string]int64{}
	kinds := map[string]int64{}
	shapes := map[string]int64{}
	seen := map[uint64]struct{}{}
	var samples []map[string]string
	var done, fails, nbytes int64
	for i := *start; i < *start+*n; i++ {
		if *secs > 0 && time.Since(t0).Seconds() > *secs {
			break
		}
		kind, shape, data := genCase(*seed, i)
		if *emitOnly {
			emit(map[string]any{"idx": i, "kind": kind, "shape": shape, "b": b64(data)})
			continue
		}
		if *dump > 0 {
			fmt.Fprintf(out, "--- %d %s %s\n%s\n", i, kind, shape, data)
			if int(i-*start)+1 >= *dump {
				out.Flush()
				return
			}
			continue
		}
		fmt.Fprintf(out, "i %d\n", i)
		out.Flush()
		r, ok := runWithDeadline(kind, data, dl)
		done++
		nbytes += int64(len(data))
		kinds[kind]++
		shapes[shape]++
		stats[r.Stage+":"+r.What]++
		h := fnv.New64a()
		h.Write([]byte(kind))
		h.Write(data)
		seen[h.Sum64()] = struct{}{}
		if len(samples) < 4 && i%7 == 3 {
			s := string(data)
			if len(s) > 160 {
				s = s[:160]
			}
			samples = append(samples, map[string]string{"kind": kind, "shape": shape, "text": s})
		}
		if r.What == "panic" || r.What == "timeout" {
			fails++
			if fails <= int64(*maxFail) {
				emit(map[string]any{"fail": failure{i, kind, shape, b64(data), r}})
			}
			if !ok {
				emit(map[string]any{"timeout_exit": i, "partial": map[string]any{"done": done, "stats": stats, "kinds": kinds, "shapes": shapes, "distinct": len(seen), "bytes": nbytes}})
				os.Exit(0)
			}
		}
	}
	if *emitOnly {
		return
	}
	emit(map[string]any{"done": map[string]any{"done": done, "next": *start + done, "stats": stats, "kinds": kinds, "shapes": shapes,
		"distinct": len(seen), "bytes": nbytes, "fails": fails, "samples": samples, "secs": time.Since(t0).Seconds()}})
}

// ---------------------------------------------------------------- generator

// genCase derives case number idx of stream seed deterministically.
func genCase(seed, idx int64) (kind, shape string, data []byte) {
	r := rand.New(rand.NewSource(seed*1000003 + idx*7919 + 17))
	g := &gen{r: r, clean: r.Intn(100) < 65}
	k := r.Intn(100)
	switch {
	case k < 52:
		kind = "unit"
	case k < 60:
		kind = "clause"
	case k < 67:
		kind = "term"
	case k < 70:
		kind = "baseterm"
	case k < 72:
		kind = "atom"
	case k < 76:
		kind = "literal"
	case k < 78:
		kind = "predname"
	case k < 88:
		kind = "sc"
	case k < 91:
		kind = "scstore"
	default:
		kind = "unescape"
	}
	var base string
	switch kind {
	case "unit":
		if r.Intn(100) < 24 {
			base = g.zooProgram()
		} else {
			base = g.program()
		}
	case "clause":
		if r.Intn(2) == 0 {
			base = g.rule()
		} else {
			base = g.fact()
		}
	case "term", "baseterm":
		base = g.term(3)
	case "atom":
		base = g.atom(g.pickPred(), false)
	case "literal":
		base = g.premise([]string{"X", "Y"})
	case "predname":
		base = g.r0([]string{"foo", "foo.bar", ":lt", "fn:plus", "Foo", "p0", "a:b", "", " x", "foo bar", "/x", "_", "x_1", "é", "1a"})
	case "sc", "scstore":
		base = g.scFile()
	case "unescape":
		base = g.stringBody()
	}
	m := r.Intn(100)
	switch {
	case m < 30:
		return kind, "valid", []byte(base)
	case m < 60:
		return kind, "token-mutation", []byte(g.mutateTokens(base, 1+r.Intn(3)))
	case m < 72:
		b := []byte(base)
		if len(b) > 0 {
			b = b[:r.Intn(len(b)+1)]
		}
		return kind, "truncation", b
	case m < 84:
		return kind, "byte-mutation", g.mutateBytes([]byte(base), 1+r.Intn(4))
	case m < 92:
		if kind == "sc" || kind == "scstore" {
			return kind, "line-mutation", []byte(g.mutateLines(base, 1+r.Intn(3)))
		}
		o := g.term(2)
		if kind == "unit" {
			o = g.program()
		}
		a, b := []byte(base), []byte(o)
		i, j := r.Intn(len(a)+1), r.Intn(len(b)+1)
		return kind, "splice", append(append([]byte{}, a[:i]...), b[j:]...)
	default:
		n := r.Intn(40)
		b := make([]byte, n)
		for i := range b {
			if r.Intn(3) == 0 {
				b[i] = byte(r.Intn(256))
			} else {
				b[i] = interesting[r.Intn(len(interesting))]
			}
		}
		return kind, "random-bytes", b
	}
}

var interesting = []byte("\\u{}x09afAF\"'`\n\r\t /.:-_()[]<>@!=,|#%+~bX1")

type predInfo struct {
	name     string
	arity    int
	temporal bool
	cols     []int // sort of each column in clean mode: 0 number, 1 name, 2 string, 3 anything
}

type gen struct {
	r     *rand.Rand
	preds []predInfo
	clean bool // only constructs that are meant to be accepted (well-formed escapes, bound variables, matching arities)
}

func (g *gen) r0(xs []string) string { return xs[g.r.Intn(len(xs))] }
func (g *gen) p(pct int) bool        { return g.r.Intn(100) < pct }

func (g *gen) initPreds() {
	if g.preds != nil {
		return
	}
	n := 2 + g.r.Intn(4)
	for i := 0; i < n; i++ {
		name := fmt.Sprintf("p%d", i)
		if g.p(10) {
			name = g.r0([]string{"foo.bar", "edge", "node", "a_b", "q:r"})
		}
		pi := predInfo{name: name, arity: g.r.Intn(4), temporal: g.p(15)}
		if g.clean && pi.arity == 0 && g.p(70) {
			pi.arity = 1 + g.r.Intn(2)
		}
		for j := 0; j < pi.arity; j++ {
			pi.cols = append(pi.cols, g.r.Intn(4))
		}
		g.preds = append(g.preds, pi)
	}
}

func (g *gen) pickPred() predInfo {
	g.initPreds()
	return g.preds[g.r.Intn(len(g.preds))]
}

var varNames = []string{"X", "Y", "Z", "W", "Xs", "N", "T0", "S", "E"}

func (g *gen) variable() string { return g.r0(varNames) }

func (g *gen) stringBody() string {
	var sb strings.Builder
	n := g.r.Intn(6)
	for i := 0; i < n; i++ {
		if g.clean {
			sb.WriteString(g.r0([]string{"a", "b c", "\\n", "\\t", "\\\\", "\\\"", "\\'", "\\x41", "\\x7f", "\\u{1f600}", "\\u{0041}", "\\u{00e9}", "é", "%41", "0", "{", "}", "€"}))
			continue
		}
		sb.WriteString(g.r0([]string{"a", "b c", "\\n", "\\t", "\\\\", "\\\"", "\\'", "\\x41", "\\x7f", "\\xff", "\\x0", "\\u{1f600}", "\\u{0041}", "\\u{d800}", "\\u{110000}",
			"\\u{12", "\\u{", "\\u", "\\", "\\u{1234567}", "\\u{1234567", "\\u{12345678}", "\\u{}", "\\u{zz}", "\\u1234", "é", "\xff", "\xc3", "\xe2\x82", "\r\n", "\r", "\n", "\\\n", "%41", "0", "{", "}", "\\`", "\\q"}))
	}
	return sb.String()
}

func (g *gen) str() string {
	q := g.r0([]string{"\"", "'", "`"})
	b := g.stringBody()
	if q != "`" {
		b = strings.NewReplacer("\n", " ", "\r", " ").Replace(b)
	}
	if g.clean {
		b = strings.ReplaceAll(b, "\\"+q, "\x00")
		b = strings.ReplaceAll(b, q, "")
		b = strings.ReplaceAll(b, "\x00", "\\"+q)
		if q == "`" {
			b = strings.ReplaceAll(b, "\\`", "")
		}
	} else {
		b = strings.ReplaceAll(b, q, "")
	}
	s := q + b + q
	if g.p(15) {
		s = "b" + s
	}
	return s
}

// Round 3 (seed C10-4): integers around powers of two and the int64 limits, and n-ary arithmetic over them
// (products / sums of the arguments wrap around int64: 4294967296*4294967296 = 0, 65536^4 = 0, ...).
var bigNums = []string{"65535", "65536", "65537", "2147483647", "2147483648", "2147483649", "4294967295", "4294967296", "4294967297",
	"4611686018427387903", "4611686018427387904", "4611686018427387905", "9223372036854775806", "9223372036854775807",
	"-9223372036854775808", "-9223372036854775807", "-65536", "-2147483648", "-4294967296", "-4611686018427387904"}

// outside int64: only for the wild generator and the mutation dictionary
var bigNumsWild = []string{"9223372036854775808", "-9223372036854775809", "18446744073709551616", "18446744073709551615"}

func (g *gen) arithNum() string {
	if g.p(75) {
		return g.r0(bigNums)
	}
	return g.r0([]string{"0", "1", "2", "3", "7", "-1", "42"})
}

// naryArith: fn:div / fn:mult / fn:plus / fn:minus with 2-4 arguments; arg yields the non-literal arguments
// (a bound variable, or a literal again).
func (g *gen) naryArith(arg func() string) string {
	f := g.r0([]string{"fn:div", "fn:div", "fn:div", "fn:mult", "fn:plus", "fn:minus"})
	n := 2 + g.r.Intn(3)
	xs := []string{arg()}
	same := g.arithNum()
	for i := 1; i < n; i++ {
		switch {
		case g.p(45):
			xs = append(xs, same) // the same divisor several times: 65536 four times, 4294967296 twice
		case g.p(80):
			xs = append(xs, g.arithNum())
		default:
			xs = append(xs, arg())
		}
	}
	return f + "(" + strings.Join(xs, ", ") + ")"
}

func (g *gen) number() string {
	if g.p(20) {
		if !g.clean && g.p(15) {
			return g.r0(bigNumsWild)
		}
		return g.r0(bigNums)
	}
	if g.clean {
		return g.r0([]string{"0", "1", "2", "3", "7", "-1", "42", "9223372036854775807", "-9223372036854775808", "1000000"})
	}
	return g.r0([]string{"0", "1", "2", "3", "7", "-1", "42", "-0", "9223372036854775807", "-9223372036854775808", "9223372036854775808", "007", "1000000"})
}

func (g *gen) name() string {
	return g.r0([]string{"/a", "/b", "/c", "/foo/bar", "/a%41b", "/x-y.z", "/true", "/false", "/name", "/number", "/string", "/any", "/~t"})
}

func (g *gen) constant(depth int) string {
	k := g.r.Intn(13)
	if depth <= 0 && k >= 6 {
		k = g.r.Intn(6)
	}
	switch k {
	case 0, 1:
		return g.number()
	case 2:
		return g.name()
	case 3:
		return g.str()
	case 4:
		return g.r0([]string{"1.5", "-0.0", ".5", "2.5e10", "1.0e-3", "3.14", "1.7976931348623157e308", "1.0e999", "-.5e+2"})
	case 5:
		return g.name()
	case 6, 7:
		return "[" + g.list(depth, func() string { return g.constant(depth - 1) }) + "]"
	case 8:
		return "[" + g.list(depth, func() string { return g.constant(depth-1) + ": " + g.constant(depth-1) }) + "]"
	case 9:
		return "{" + g.list(depth, func() string { return g.name() + ": " + g.constant(depth-1) }) + "}"
	case 10:
		return "fn:pair(" + g.constant(depth-1) + ", " + g.constant(depth-1) + ")"
	case 11:
		return g.r0([]string{"fn:list()", "fn:map()", "fn:struct()", "fn:some(1)", "fn:tuple(1,2,3)", "fn:list:cons(1, [])"})
	}
	return g.number()
}

func (g *gen) list(depth int, f func() string) string {
	n := g.r.Intn(4)
	var xs []string
	for i := 0; i < n; i++ {
		xs = append(xs, f())
	}
	s := strings.Join(xs, ", ")
	if n > 0 && g.p(10) {
		s += ","
	}
	if g.clean && strings.HasPrefix(s, "-") {
		s = " " + s // "[-" is the box-minus token (finding N18)
	}
	return s
}

var fns = []string{"fn:plus", "fn:minus", "fn:mult", "fn:div", "fn:float:div", "fn:mod", "fn:sqrt", "fn:list:get", "fn:list:len", "fn:list:append", "fn:list:cons",
	"fn:list:contains", "fn:map:get", "fn:struct:get", "fn:pair", "fn:tuple", "fn:some", "fn:string:concat", "fn:string:replace", "fn:number:to_string", "fn:name:to_string",
	"fn:name:root", "fn:name:tip", "fn:name:list", "fn:time:add", "fn:time:sub", "fn:time:format", "fn:time:year", "fn:time:trunc", "fn:time:from_unix_nanos", "fn:time:now",
	"fn:duration:parse", "fn:duration:add", "fn:duration:mult", "fn:duration:from_hours", "fn:duration:hours", "fn:interval:start", "fn:interval:duration",
	"fn:float:plus", "fn:float:mult", "fn:list", "fn:map", "fn:struct", "fn:time:parse_rfc3339", "fn:time:parse_civil", "fn:time:format_civil", "fn:nosuch"}

var reducers = []string{"fn:count()", "fn:sum(%s)", "fn:max(%s)", "fn:min(%s)", "fn:collect(%s)", "fn:collect_distinct(%s)", "fn:avg(%s)", "fn:float:sum(%s)",
	"fn:float:max(%s)", "fn:pick_any(%s)", "fn:count_distinct()", "fn:collect_to_map(%s, %s)", "fn:time:max(%s)", "fn:duration:sum(%s)", "fn:plus(%s, 1)"}

func (g *gen) term(depth int) string {
	if g.p(9) {
		return g.naryArith(func() string {
			if g.p(35) {
				return g.variable()
			}
			return g.arithNum()
		})
	}
	k := g.r.Intn(10)
	switch {
	case k < 3:
		return g.variable()
	case k < 6 || depth <= 0:
		return g.constant(depth)
	case k < 8:
		n := g.r.Intn(4)
		var xs []string
		for i := 0; i < n; i++ {
			xs = append(xs, g.term(depth-1))
		}
		return g.r0(fns) + "(" + strings.Join(xs, ", ") + ")"
	case k < 9:
		return "[" + g.list(depth, func() string { return g.term(depth - 1) }) + "]"
	default:
		return g.typeExpr(depth)
	}
}

func (g *gen) typeExpr(depth int) string {
	k := g.r.Intn(16)
	if depth <= 0 && k >= 8 {
		k = g.r.Intn(8)
	}
	switch k {
	case 0:
		return "/any"
	case 1:
		return "/number"
	case 2:
		return "/string"
	case 3:
		return "/name"
	case 4:
		return g.r0([]string{"/float64", "/bytes", "/time", "/duration", "/bot"})
	case 5:
		return g.name()
	case 6:
		return g.r0([]string{"/number", "/string"})
	case 7:
		return "\"" + g.pickPred().name + "\"" // reference to a unary predicate
	case 8:
		return ".List<" + g.typeExpr(depth-1) + ">"
	case 9:
		return ".Pair<" + g.typeExpr(depth-1) + ", " + g.typeExpr(depth-1) + ">"
	case 10:
		return ".Map<" + g.typeExpr(depth-1) + ", " + g.typeExpr(depth-1) + ">"
	case 11:
		return ".Struct<" + g.list(depth, func() string {
			o := ""
			if g.p(25) {
				o = "opt "
			}
			return o + g.name() + ": " + g.typeExpr(depth-1)
		}) + ">"
	case 12:
		return ".Union<" + g.list(depth, func() string { return g.typeExpr(depth - 1) }) + ">"
	case 13:
		return ".Singleton<" + g.constant(0) + ">"
	case 14:
		return g.r0([]string{"fn:List", "fn:Pair", "fn:Map", "fn:Option", "fn:Tuple", "fn:Union", "fn:Struct", "fn:Singleton", "fn:Fun"}) + "(" + g.list(depth, func() string { return g.typeExpr(depth - 1) }) + ")"
	default:
		return ".TaggedUnion</kind, " + g.list(depth, func() string { return g.name() + " : .Struct<" + g.name() + ": " + g.typeExpr(depth-1) + ">" }) + ">"
	}
}

func (g *gen) atom(p predInfo, ground bool) string {
	ar := p.arity
	if !g.clean && g.p(8) {
		ar = g.r.Intn(5) // arity mismatch
	}
	var xs []string
	for i := 0; i < ar; i++ {
		switch {
		case ground:
			xs = append(xs, g.constant(2))
		case g.p(70):
			xs = append(xs, g.variable())
		case g.p(20):
			xs = append(xs, "_")
		default:
			xs = append(xs, g.constant(1))
		}
	}
	return p.name + "(" + strings.Join(xs, ", ") + ")"
}

func (g *gen) tbound() string {
	if g.clean {
		return g.r0([]string{"2024-01-01", "2024-01-15T10:30:00", "2024-06-01T12:00:00Z", "2024-03-01T00:00:00.123Z", "2024-05-30", "2024-06-02", "1970-01-01", "2262-04-11", "1677-09-22"})
	}
	return g.r0([]string{"2024-01-01", "2024-01-15T10:30:00", "2024-06-01T12:00:00Z", "2024-03-01T00:00:00.123Z", "0000-00-00", "9999-99-99", "2024-13-45T25:61:61",
		"now", "_", "T0", "S", "E", "7d", "0d", "24h", "30m", "1s", "500ms", "99999999999999999999d", "1970-01-01", "2262-04-12", "1677-09-21"})
}

func (g *gen) annotation() string {
	if g.p(35) {
		return "@[" + g.tbound() + "]"
	}
	return "@[" + g.tbound() + ", " + g.tbound() + "]"
}

func (g *gen) fact() string {
	if g.clean {
		return g.cleanFact()
	}
	p := g.pickPred()
	s := g.atom(p, true)
	if p.temporal && g.p(85) || g.p(3) {
		s += g.annotation()
	}
	return s + "."
}

func (g *gen) premise(bound []string) string {
	k := g.r.Intn(20)
	v := func() string {
		if len(bound) > 0 && g.p(85) {
			return bound[g.r.Intn(len(bound))]
		}
		return g.variable()
	}
	switch {
	case k < 8:
		p := g.pickPred()
		s := g.atom(p, false)
		if p.temporal && g.p(60) || g.p(3) {
			s += g.annotation()
		}
		if p.temporal && g.p(30) || g.p(2) {
			s = g.r0([]string{"<-", "[-", "<+", "[+"}) + "[" + g.tbound() + ", " + g.tbound() + "] " + s
		}
		return s
	case k < 11:
		return "!" + g.atom(g.pickPred(), false)
	case k < 13:
		return g.variable() + " = " + g.term(2)
	case k < 14:
		return v() + " != " + g.term(1)
	case k < 16:
		return v() + " " + g.r0([]string{"<", "<=", ">", ">="}) + " " + g.term(1)
	case k < 18:
		return g.r0f([]string{":match_cons(%s, H, Tl)", ":match_nil(%s)", ":match_pair(%s, A, B)", ":match_field(%s, /a, V)", ":match_entry(%s, /a, V)", ":match_entry(%s, K, V)", ":list:member(M, %s)",
			":string:starts_with(%s, \"a\")", ":match_prefix(%s, /a)", ":filter(%s)", ":time:lt(%s, T0)", ":duration:le(%s, D)", ":interval:before(fn:pair(S, E), fn:pair(%s, E))",
			":within_distance(%s, 1, 2)", ":lt(%s, 3)"}, v())
	default:
		return g.term(2)
	}
}

func (g *gen) r0f(xs []string, arg string) string {
	return strings.ReplaceAll(g.r0(xs), "%s", arg)
}

func (g *gen) rule() string {
	if g.clean {
		return g.cleanRule()
	}
	head := g.pickPred()
	var hv []string
	for i := 0; i < head.arity; i++ {
		hv = append(hv, g.variable())
	}
	n := 1 + g.r.Intn(4)
	var body []string
	bound := append([]string{}, hv...)
	// first premises bind the head variables most of the time
	for i := 0; i < n; i++ {
		body = append(body, g.premise(bound))
	}
	if len(hv) > 0 && g.p(80) {
		p := g.pickPred()
		if p.arity > 0 {
			var xs []string
			for i := 0; i < p.arity; i++ {
				xs = append(xs, hv[i%len(hv)])
			}
			body = append([]string{p.name + "(" + strings.Join(xs, ", ") + ")"}, body...)
		}
	}
	s := head.name + "(" + strings.Join(hv, ", ") + ")"
	if head.temporal && g.p(50) {
		s += g.annotation()
	}
	s += g.r0([]string{" :- ", " :- ", " :- ", " ⟸ "}) + strings.Join(body, ", ")
	if g.p(25) {
		var stmts []string
		if g.p(70) {
			stmts = append(stmts, "do fn:group_by("+g.list(1, g.variable)+")")
		}
		k := g.r.Intn(3)
		for i := 0; i < k; i++ {
			stmts = append(stmts, "let "+g.variable()+" = "+g.r0f(reducers, g.variable()))
		}
		if len(stmts) > 0 {
			s += " |> " + strings.Join(stmts, ", ")
		}
		if g.p(10) {
			s += " |> let " + g.variable() + " = " + g.term(1)
		}
	}
	return s + "."
}

func (g *gen) decl() string {
	p := g.pickPred()
	var vs []string
	for i := 0; i < p.arity; i++ {
		vs = append(vs, varNames[i%len(varNames)])
	}
	s := "Decl " + p.name + "(" + strings.Join(vs, ", ") + ")"
	if p.temporal || g.p(3) {
		s += " temporal"
	}
	if g.p(35) {
		s += " descr [" + g.list(1, func() string {
			if g.p(50) {
				return g.zooDescr(vs, g.p(50))
			}
			return g.r0([]string{"doc(\"x\")", "arg(X, \"first\")", "mode(\"+\")", "mode(\"-\", \"+\")", "extensional()", "external()", "private()", "fundep([X], [Y])", "merge([X], \"m\")", "deferred()", "temporal()", "desugared()", "foo", "reflects(/x)", "synthetic()", "name(\"x\")"})
		}) + "]"
	}
	if g.p(20) {
		return s + g.zooRows(p, g.p(60)) + "."
	}
	nb := g.r.Intn(3)
	for b := 0; b < nb; b++ {
		ar := p.arity
		if g.p(12) {
			ar = g.r.Intn(5)
		}
		var ts []string
		for i := 0; i < ar; i++ {
			ts = append(ts, g.typeExpr(2))
		}
		s += " bound [" + strings.Join(ts, ", ") + "]"
	}
	if g.p(12) {
		s += " inclusion [" + g.list(1, func() string { return g.atom(g.pickPred(), false) }) + "]"
	}
	return s + "."
}

func (g *gen) program() string {
	if g.clean {
		return g.cleanProgram()
	}
	g.initPreds()
	var sb strings.Builder
	if g.p(8) {
		sb.WriteString("Package " + g.r0([]string{"foo", "foo.bar", "Foo", "x"}) + g.r0([]string{"", " [doc(\"p\")]"}) + "!\n")
	}
	if g.p(5) {
		sb.WriteString("Use " + g.r0([]string{"bar", "foo.bar", "x"}) + "!\n")
	}
	nd := g.r.Intn(len(g.preds) + 1)
	for i := 0; i < nd; i++ {
		if g.p(60) {
			sb.WriteString(g.decl() + "\n")
		}
	}
	nf := 1 + g.r.Intn(7)
	for i := 0; i < nf; i++ {
		sb.WriteString(g.fact() + "\n")
	}
	nr := g.r.Intn(5)
	for i := 0; i < nr; i++ {
		sb.WriteString(g.rule() + "\n")
		if g.p(8) {
			sb.WriteString("# comment " + g.stringBody() + "\n")
		}
	}
	return sb.String()
}

// scFile writes a well-formed simple-column file by hand (layout of SimpleColumn.WriteTo).
func (g *gen) scFile() string {
	np := g.r.Intn(4)
	type pr struct {
		name   string
		ar, nf int
	}
	var ps []pr
	for i := 0; i < np; i++ {
		ps = append(ps, pr{g.r0([]string{"foo", "bar", "p0", "a.b", "edge"}), g.r.Intn(4), g.r.Intn(4)})
	}
	var sb strings.Builder
	fmt.Fprintf(&sb, "%d\n", np)
	for _, p := range ps {
		fmt.Fprintf(&sb, "%s %d %d\n", p.name, p.ar, p.nf)
	}
	for _, p := range ps {
		for j := 0; j < p.ar; j++ {
			for i := 0; i < p.nf; i++ {
				c := g.constant(1)
				if strings.ContainsAny(c, "\n\r") {
					c = "0"
				}
				sb.WriteString(c + "\n")
			}
		}
	}
	return sb.String()
}

var scLines = []string{"", " ", "0", "-1", "1", "2", "3", "65536", "65537", "4294967296", "4294967297", "9223372036854775807", "-9223372036854775808", "99999999999999999999",
	"foo 1 1", "foo 1 -1", "foo -1 1", "foo 1025 1", "foo 1024 0", "foo 0 5", "foo 2 2", "foo 1 4294967296", "foo 1 4294967297", "foo 1 9223372036854775807", "Foo 1 1", "/x 1 1", "foo 1", "foo 1 1 1", "foo  1  1", "1 1 1", "foo x y",
	"/a", "/a%41", "/a%4", "/%zz", "/", "\"s\"", "\"\\u{\"", "[1, 2]", "[", "X", "foo(1)", "fn:plus(1,2)", "fn:div(1,0)", "1 2", "\r", "# c", "b\"\\xff\"", "1.5", "{/a: 1}"}

func (g *gen) mutateLines(s string, k int) string {
	lines := strings.Split(s, "\n")
	for ; k > 0; k-- {
		i := g.r.Intn(len(lines))
		switch g.r.Intn(6) {
		case 0:
			lines = append(lines[:i], lines[i+1:]...)
			if len(lines) == 0 {
				lines = []string{""}
			}
		case 1:
			lines = append(lines[:i], append([]string{lines[i]}, lines[i:]...)...)
		case 2:
			lines[i] = ""
		case 3, 4:
			lines[i] = g.r0(scLines)
		case 5:
			lines = append(lines[:i], append([]string{g.r0(scLines)}, lines[i:]...)...)
		}
	}
	return strings.Join(lines, "\n")
}

var dict = []string{"Decl", "Package", "Use", "bound", "descr", "inclusion", "temporal", "let", "do", "opt", "now", ":-", "⟸", "|>", "!", "!=", "=", "<", "<=", ">", ">=",
	"(", ")", "[", "]", "{", "}", ",", ".", ":", "@", "@[", "<-", "<+", "[-", "[+", "_", "X", "/a", "/", "fn:plus", "fn:", ":lt", "foo", ".List<", ".Struct<", ".T", ">", "\"", "'", "`", "b\"",
	"\\", "\\u{", "\\x", "#", "\n", " ", "0", "-", "-1", "1.", ".5", "1e", "7d", "2024-01-01", "2024-01-01T00:00:00", "99999999999999999999", "é", "\x00", "\xff", "fn:group_by()", "fn:count()",
	"p0", "p1", "p0()", "p1(X)", "[-1]", "[+1]", "<-[", "@[_]", "@[now]", "@[_, _]",
	// descriptor atoms analysis and the engine treat specially (ast/decl.go), bound rows and type expressions
	"synthetic()", "synthetic(), ", ", synthetic()", "desugared()", ", desugared()", "extensional()", ", extensional()", "external()", ", external()",
	"private()", "deferred()", ", deferred()", "temporal()", "internal:maybe_temporal()", "mode(\"+\")", ", mode(\"+\", \"-\")", "mode(\"?\", ", "mode(",
	"reflects(/a)", ", reflects(/a)", "reflects(", "doc(\"d\")", "doc(", "doc(), ", "arg(X, \"x\")", ", arg(Y, \"y\")", "arg(", "fundep([X], [Y])", ", fundep([X], [Y])",
	"merge([Y], \"m\")", ", merge([Y], \"p0\")", "name(\"x\")", "name()", " descr [", " descr []", " bound [", " bound []", " bound [/number, /string]", " bound [/any]",
	", /any", "/any, ", ", /number", "/string, ", "\"p0\"", ", \"p1\"", " inclusion [", " inclusion [p0(X)]", ".Map<", ".Pair<", ".Union<", ".Singleton<", ".Option<", ".Struct<>",
	".Union<>", ".List</any>", ", .List</number>", "fn:List(", "fn:Fun(", "opt ", " temporal"}

func init() {
	dict = append(dict, bigNums...)
	dict = append(dict, bigNumsWild...)
	dict = append(dict, "fn:div", "fn:mult", "fn:minus", "fn:div(7, 4294967296, 4294967296)", "fn:div(7, 65536, 65536, 65536, 65536)",
		"fn:mult(4294967296, 4294967296)", "fn:plus(9223372036854775807, 1)", "fn:minus(-9223372036854775808, 1)", ", 4294967296")
	scLines = append(scLines, bigNums...)
	scLines = append(scLines, "fn:div(7, 4294967296, 4294967296)", "fn:div(7, 65536, 65536, 65536, 65536)", "fn:mult(4294967296, 4294967296)",
		"fn:div(-9223372036854775808, -1)", "fn:plus(9223372036854775807, 1)", "fn:minus(-9223372036854775808, 1, 1)")
}

func tokenize(s string) []string {
	var toks []string
	cur := strings.Builder{}
	class := func(c byte) int {
		switch {
		case c >= 'a' && c <= 'z' || c >= 'A' && c <= 'Z' || c >= '0' && c <= '9' || c == '_' || c >= 0x80:
			return 1
		case c == ' ' || c == '\n' || c == '\t' || c == '\r':
			return 2
		}
		return 3
	}
	last := 0
	for i := 0; i < len(s); i++ {
		c := class(s[i])
		if cur.Len() > 0 && (c != last || c == 3) {
			toks = append(toks, cur.String())
			cur.Reset()
		}
		cur.WriteByte(s[i])
		last = c
	}
	if cur.Len() > 0 {
		toks = append(toks, cur.String())
	}
	return toks
}

func (g *gen) mutateTokens(s string, k int) string {
	toks := tokenize(s)
	if len(toks) == 0 {
		return g.r0(dict)
	}
	for ; k > 0; k-- {
		i := g.r.Intn(len(toks))
		switch g.r.Intn(7) {
		case 0:
			toks = append(toks[:i], toks[i+1:]...)
			if len(toks) == 0 {
				toks = []string{""}
			}
		case 1:
			toks = append(toks[:i], append([]string{toks[i]}, toks[i:]...)...)
		case 2:
			j := g.r.Intn(len(toks))
			toks[i], toks[j] = toks[j], toks[i]
		case 3, 4:
			toks[i] = g.r0(dict)
		case 5:
			toks = append(toks[:i], append([]string{g.r0(dict)}, toks[i:]...)...)
		case 6:
			// delete a run
			j := i + g.r.Intn(6)
			if j > len(toks) {
				j = len(toks)
			}
			toks = append(toks[:i], toks[j:]...)
			if len(toks) == 0 {
				toks = []string{""}
			}
		}
	}
	return strings.Join(toks, "")
}

func (g *gen) mutateBytes(b []byte, k int) []byte {
	b = append([]byte{}, b...)
	for ; k > 0; k-- {
		if len(b) == 0 {
			b = append(b, interesting[g.r.Intn(len(interesting))])
			continue
		}
		i := g.r.Intn(len(b))
		switch g.r.Intn(5) {
		case 0:
			b[i] ^= 1 << uint(g.r.Intn(8))
		case 1:
			b[i] = byte(g.r.Intn(256))
		case 2:
			b[i] = interesting[g.r.Intn(len(interesting))]
		case 3:
			b = append(b[:i], b[i+1:]...)
		case 4:
			b = append(b[:i], append([]byte{interesting[g.r.Intn(len(interesting))]}, b[i:]...)...)
		}
	}
	return b
}

// ------------------------------------------------ clean (meant-to-be-accepted) programs

func (g *gen) colConst(sort int) string {
	switch sort {
	case 0:
		return g.r0([]string{"0", "1", "2", "3", "7", "-1", "42"})
	case 1:
		return g.r0([]string{"/a", "/b", "/c", "/foo/bar"})
	case 2:
		return g.str2()
	}
	return g.constant(2)
}

func (g *gen) str2() string {
	for {
		s := g.str()
		if !strings.HasPrefix(s, "b") {
			return s
		}
	}
}

func colType(sort int) string {
	return []string{"/number", "/name", "/string", "/any"}[sort]
}

var cleanTimes = []string{"2024-01-01", "2024-01-15T10:30:00", "2024-03-01T00:00:00.123Z", "2024-05-30", "2024-06-01T12:00:00Z", "2024-06-02", "2025-01-01"}

func (g *gen) cleanAnnotation() string {
	i := g.r.Intn(len(cleanTimes))
	if g.p(35) {
		return "@[" + cleanTimes[i] + "]"
	}
	j := i + g.r.Intn(len(cleanTimes)-i)
	switch g.r.Intn(8) {
	case 0:
		return "@[_, " + cleanTimes[j] + "]"
	case 1:
		return "@[" + cleanTimes[i] + ", _]"
	case 2:
		return "@[" + cleanTimes[i] + ", now]"
	}
	return "@[" + cleanTimes[i] + ", " + cleanTimes[j] + "]"
}

func (g *gen) cleanFact() string {
	p := g.pickPred()
	var xs []string
	for _, c := range p.cols {
		if (c == 0 || c == 3) && g.p(12) {
			xs = append(xs, g.naryArith(g.arithNum)) // evaluated when the initial facts are checked
		} else if c == 0 && g.p(10) {
			xs = append(xs, g.r0(bigNums))
		} else {
			xs = append(xs, g.colConst(c))
		}
	}
	s := p.name + "(" + strings.Join(xs, ", ") + ")"
	if p.temporal {
		s += g.cleanAnnotation()
	}
	return s + "."
}

func (g *gen) cleanDecl(p predInfo) string {
	var vs []string
	for i := 0; i < p.arity; i++ {
		vs = append(vs, varNames[i%len(varNames)])
	}
	s := "Decl " + p.name + "(" + strings.Join(vs, ", ") + ")"
	if p.temporal {
		s += " temporal"
	}
	if g.p(25) {
		s += " descr [doc(\"d\")" + g.r0([]string{"", ", extensional()", ", arg(X, \"x\")", ", private()"}) + "]"
	} else if g.p(12) {
		s += " descr [" + g.zooDescr(vs, false) + "]"
	}
	if g.p(8) {
		return s + g.zooRows(p, false) + "."
	}
	nb := g.r.Intn(3)
	if p.arity == 0 {
		nb = 0
	}
	for b := 0; b < nb; b++ {
		var ts []string
		for _, c := range p.cols {
			switch {
			case g.p(60):
				ts = append(ts, colType(c))
			case g.p(50):
				ts = append(ts, "/any")
			default:
				ts = append(ts, g.cleanType(2))
			}
		}
		s += " bound [" + strings.Join(ts, ", ") + "]"
	}
	return s + "."
}

func (g *gen) cleanType(depth int) string {
	k := g.r.Intn(12)
	if depth <= 0 && k >= 5 {
		k = g.r.Intn(5)
	}
	switch k {
	case 0, 1, 2, 3:
		return colType(k)
	case 4:
		return g.r0([]string{"/float64", "/bytes", "/time", "/duration", "/a", "/foo"})
	case 5:
		return ".List<" + g.cleanType(depth-1) + ">"
	case 6:
		return ".Pair<" + g.cleanType(depth-1) + ", " + g.cleanType(depth-1) + ">"
	case 7:
		return ".Map<" + g.cleanType(depth-1) + ", " + g.cleanType(depth-1) + ">"
	case 8:
		return ".Struct</a: " + g.cleanType(depth-1) + g.r0([]string{"", ", opt /b: /string", ", /c: /number"}) + ">"
	case 9:
		return ".Union<" + g.cleanType(depth-1) + ", " + g.cleanType(depth-1) + ">"
	case 10:
		return ".Singleton<" + g.r0([]string{"/a", "1", "\"s\""}) + ">"
	default:
		return "fn:List(" + g.cleanType(depth-1) + ")"
	}
}

func (g *gen) cleanRule() string {
	head := g.pickPred()
	var body, bound []string
	fresh := func() string {
		v := g.variable()
		for _, b := range bound {
			if b == v {
				return v
			}
		}
		bound = append(bound, v)
		return v
	}
	pickBound := func() string {
		if len(bound) == 0 {
			return g.colConst(0)
		}
		return bound[g.r.Intn(len(bound))]
	}
	np := 1 + g.r.Intn(3)
	for i := 0; i < np; i++ {
		p := g.pickPred()
		var xs []string
		for _, c := range p.cols {
			switch {
			case g.p(75):
				xs = append(xs, fresh())
			case g.p(40):
				xs = append(xs, "_")
			default:
				xs = append(xs, g.colConst(c))
			}
		}
		a := p.name + "(" + strings.Join(xs, ", ") + ")"
		if p.temporal {
			switch g.r.Intn(6) {
			case 0, 4:
				a += "@[" + fresh() + ", " + fresh() + "]"
			case 1:
				a += "@[" + fresh() + "]"
			case 2:
				a += g.cleanAnnotation()
			case 3, 5:
				a = g.r0([]string{"<-", "[-", "<+", "[+"}) + "[" + g.r0([]string{"0d", "1d", "12h"}) + ", " + g.r0([]string{"7d", "30d", "365d"}) + "] " + a
			}
		}
		body = append(body, a)
	}
	extra := g.r.Intn(3)
	for i := 0; i < extra; i++ {
		switch g.r.Intn(8) {
		case 0, 1:
			p := g.pickPred()
			var xs []string
			for _, c := range p.cols {
				if g.p(70) {
					xs = append(xs, pickBound())
				} else {
					xs = append(xs, g.colConst(c))
				}
			}
			body = append(body, "!"+p.name+"("+strings.Join(xs, ", ")+")")
		case 2, 3:
			f := g.r0([]string{"fn:plus(%s, 1)", "fn:mult(%s, 2)", "fn:minus(%s, 1)", "fn:pair(%s, %s)", "[%s, %s]", "fn:list:len(%s)", "fn:div(%s, %s)", "fn:string:concat(%s, \"x\")", "fn:number:to_string(%s)", "{/a: %s}", "fn:list:get(%s, 0)", "fn:name:root(%s)", "fn:time:add(%s, fn:duration:parse(\"1h\"))", "fn:float:div(%s, %s)", "fn:sqrt(%s)"})
			for strings.Contains(f, "%s") {
				f = strings.Replace(f, "%s", pickBound(), 1)
			}
			if g.p(30) {
				f = g.naryArith(func() string {
					if g.p(60) {
						return pickBound()
					}
					return g.arithNum()
				})
			}
			v := g.variable()
			body = append(body, v+" = "+f)
			bound = append(bound, v)
		case 4:
			body = append(body, pickBound()+" != "+g.colConst(g.r.Intn(3)))
		case 5:
			body = append(body, pickBound()+" "+g.r0([]string{"<", "<=", ">", ">="})+" "+g.r0([]string{"3", "0", pickBound()}))
		case 6:
			b := pickBound()
			body = append(body, g.r0f([]string{":match_cons(%s, Hd, Tl)", ":match_pair(%s, Pa, Pb)", ":match_field(%s, /a, Fv)", ":match_entry(%s, /a, Ev)", ":list:member(Mm, %s)", ":string:starts_with(%s, \"a\")", ":match_prefix(%s, /foo)", ":time:lt(%s, %s)"}, b))
		case 7:
			body = append(body, pickBound()+" = "+pickBound())
		}
	}
	// variables introduced by the match predicates
	for _, b := range body {
		for _, v := range []string{"Hd", "Tl", "Pa", "Pb", "Fv", "Mm"} {
			if strings.Contains(b, v) {
				bound = append(bound, v)
			}
		}
	}
	tr := ""
	hv := bound
	if g.p(22) && len(bound) > 0 {
		var gb []string
		for _, b := range bound {
			if g.p(40) {
				gb = append(gb, b)
			}
		}
		tr = " |> do fn:group_by(" + strings.Join(gb, ", ") + ")"
		hv = append([]string{}, gb...)
		k := 1 + g.r.Intn(2)
		for i := 0; i < k; i++ {
			v := []string{"Agg", "Cnt"}[i]
			tr += ", let " + v + " = " + g.r0f([]string{"fn:count()", "fn:sum(%s)", "fn:max(%s)", "fn:min(%s)", "fn:collect(%s)", "fn:collect_distinct(%s)", "fn:avg(%s)", "fn:pick_any(%s)", "fn:float:sum(%s)"}, pickBound())
			hv = append(hv, v)
		}
	} else if g.p(8) && len(bound) > 0 {
		tr = " |> let Lt = fn:pair(" + pickBound() + ", 1)"
		hv = append(append([]string{}, bound...), "Lt")
	} else if g.p(12) && len(bound) > 0 {
		tr = " |> let Lt = " + g.naryArith(func() string {
			if g.p(60) {
				return pickBound()
			}
			return g.arithNum()
		})
		hv = append(append([]string{}, bound...), "Lt")
	}
	var hs []string
	for _, c := range head.cols {
		if len(hv) > 0 && g.p(90) {
			hs = append(hs, hv[g.r.Intn(len(hv))])
		} else {
			hs = append(hs, g.colConst(c))
		}
	}
	s := head.name + "(" + strings.Join(hs, ", ") + ")"
	if head.temporal {
		if len(bound) >= 2 && g.p(50) {
			s += "@[" + pickBound() + ", " + pickBound() + "]"
		} else {
			s += g.cleanAnnotation()
		}
	}
	return s + " :- " + strings.Join(body, ", ") + tr + "."
}

func (g *gen) cleanProgram() string {
	g.initPreds()
	var sb strings.Builder
	for _, p := range g.preds {
		if p.temporal || g.p(40) {
			sb.WriteString(g.cleanDecl(p) + "\n")
		}
	}
	all := g.preds
	for i := range all { // every predicate gets a fact, so rules never mention an unknown one
		g.preds = all[i : i+1]
		sb.WriteString(g.cleanFact() + "\n")
	}
	g.preds = all
	nf := g.r.Intn(6)
	for i := 0; i < nf; i++ {
		sb.WriteString(g.cleanFact() + "\n")
	}
	nr := g.r.Intn(5)
	for i := 0; i < nr; i++ {
		sb.WriteString(g.cleanRule() + "\n")
	}
	return sb.String()
}

// ------------------------------------------------ declaration zoo
//
// Declarations whose descriptor block carries the atoms that analysis and the
// engine treat specially (ast/decl.go: doc arg mode extensional external private
// synthetic desugared deferred temporal reflects fundep merge name), in their
// accepted shapes and in odd ones, combined with bound rows of every length
// relative to the arity, several rows, nested type expressions, references to
// unary predicates (declared, undeclared, the predicate itself) and inclusion
// constraints. The rest of the program is well formed so that the declaration
// is what decides how far the pipeline gets.

func (g *gen) modeAtom(n int) string {
	var ms []string
	for i := 0; i < n; i++ {
		ms = append(ms, "\""+g.r0([]string{"+", "-", "?", "+", "-"})+"\"")
	}
	return "mode(" + strings.Join(ms, ", ") + ")"
}

// zooDescr returns one or more comma separated descriptor atoms for a declaration over the variables vs.
func (g *gen) zooDescr(vs []string, odd bool) string {
	v := func(i int) string {
		if len(vs) == 0 {
			return "X"
		}
		return vs[i%len(vs)]
	}
	n := len(vs)
	if !odd {
		switch g.r.Intn(20) {
		case 0:
			return "doc(\"d\", \"more\")"
		case 1:
			var as []string
			for i := range vs {
				as = append(as, "arg("+vs[i]+", \"a\", \"b\")")
			}
			if len(as) == 0 {
				return "doc(\"d\")"
			}
			return strings.Join(as, ", ")
		case 2:
			return g.modeAtom(n)
		case 3:
			return g.modeAtom(n) + ", " + g.modeAtom(n)
		case 4:
			return "extensional()"
		case 5:
			return "private()"
		case 6, 7:
			return "synthetic()"
		case 8, 9:
			return "desugared()"
		case 10:
			return "deferred(), " + g.modeAtom(n)
		case 11:
			return "external(), " + g.modeAtom(n)
		case 12:
			return "internal:maybe_temporal()"
		case 13:
			return "reflects(" + g.r0([]string{"/x", "/a", "/foo/bar"}) + ")"
		case 14:
			return "fundep([" + v(0) + "], [" + v(1) + "])"
		case 15:
			return "fundep([" + v(0) + "], [" + v(n-1+n) + "]), merge([" + v(n-1+n) + "], \"" + g.pickPred().name + "\")"
		case 16:
			return "name(\"x\")"
		case 17:
			return g.r0([]string{"foo(1)", "bar()", "x(/a, \"s\")"})
		case 18:
			return "doc(\"d\"), synthetic(), " + g.modeAtom(n)
		default:
			return "doc(\"d\"), private(), extensional()"
		}
	}
	return g.r0([]string{
		"doc()", "doc(X)", "doc(1)", "doc(\"a\"), doc(\"b\")", "doc(/a)", "doc(\"a\", X)",
		"arg(" + v(0) + ")", "arg(\"x\", \"y\")", "arg(Q, \"x\")", "arg(" + v(0) + ", \"x\")", "arg(" + v(0) + ", 1)", "arg()", "arg(" + v(0) + ", \"x\"), arg(" + v(0) + ", \"y\")",
		g.modeAtom(n + 1), g.modeAtom(n + 2), "mode()", "mode(X)", "mode(\"x\")", "mode(1)", "mode(\"+\", X)", g.modeAtom(0) + ", " + g.modeAtom(n), "mode(\"\")", "mode(/a)",
		"external()", "external(), " + g.modeAtom(n) + ", " + g.modeAtom(n), "external(), mode()", "external(), mode(X)", "external(1)",
		"deferred()", "deferred(), mode()", "deferred(), mode(\"x\")", "deferred(), external()", "deferred(X)",
		"reflects()", "reflects(X)", "reflects(/x, /y)", "reflects(\"s\")", "reflects(1)", "reflects([/x])", "reflects(/x), reflects(/y)",
		"fundep([" + v(0) + "])", "fundep(" + v(0) + ", " + v(1) + ")", "fundep([Q], [" + v(0) + "])", "fundep([], [])", "fundep()", "fundep([" + v(0) + "], [" + v(1) + "]), fundep([" + v(1) + "], [" + v(0) + "])",
		"fundep([1], [\"s\"])", "fundep([" + v(0) + "], [" + v(0) + "], [" + v(0) + "])",
		"merge(\"m\")", "merge([" + v(0) + "])", "merge([" + v(0) + "], /m)", "merge([" + v(0) + "], X)", "merge()", "merge([" + v(0) + "], 1)", "merge(" + v(0) + ", \"m\")",
		"fundep([" + v(0) + "], [" + v(1) + "]), merge([" + v(1) + "], \"nosuch\")", "fundep([" + v(0) + "], [" + v(1) + "]), merge([Q], \"" + g.pickPred().name + "\")",
		"fundep([" + v(0) + "], [" + v(1) + "]), merge(\"m\")", "fundep([" + v(0) + "], [" + v(1) + "]), merge([" + v(1) + "], b\"m\")",
		"synthetic(1)", "synthetic(X)", "synthetic(), synthetic()", "desugared(X)", "desugared(), synthetic()",
		"name()", "name(X)", "name(1)", "name(/a)", "internal:maybe_temporal()", "extensional(X)", "private(1)",
	})
}

// zooCell: one entry of a bound row.
func (g *gen) zooCell(p predInfo, odd bool) string {
	k := g.r.Intn(20)
	switch {
	case k < 6:
		return g.cleanType(2)
	case k < 9:
		return g.typeExpr(2)
	case k < 12:
		return g.r0([]string{"/any", "/number", "/string", "/name"})
	case k < 15:
		// reference to a unary predicate: declared, not declared, the predicate itself
		return "\"" + g.r0([]string{g.pickPred().name, g.pickPred().name, p.name, "nosuch", "u"}) + "\""
	case k < 17 || !odd:
		return ".List<" + g.cleanType(1) + ">"
	default:
		return g.r0([]string{"1", "X", "fn:plus(1, 2)", "\"a b\"", "[/number]", "\"\"", "/", "_", "fn:List()", "fn:Pair(/any)", "fn:Map(/any, /any, /any)", ".Struct</a>", ".Union<>", "fn:Fun()", "1.5", "b\"x\"", "{/a: /number}", ".Option<>", "fn:Option(/any, /any)", ".Singleton<X>"})
	}
}

// zooRows: the bound blocks (and sometimes an inclusion block) of a declaration of p.
func (g *gen) zooRows(p predInfo, odd bool) string {
	nb := g.r0i([]int{0, 1, 1, 2, 2, 3, 4})
	if odd && nb == 0 {
		nb = 1
	}
	s := ""
	for b := 0; b < nb; b++ {
		ar := p.arity
		if odd && (g.p(55) || b == nb-1 && !strings.Contains(s, "bound") && g.p(40)) {
			ar = g.r0i([]int{0, p.arity - 1, p.arity + 1, p.arity + 1, p.arity + 2, 2*p.arity + 1, p.arity + 5})
			if ar < 0 {
				ar = 0
			}
		}
		var ts []string
		for i := 0; i < ar; i++ {
			ts = append(ts, g.zooCell(p, odd && g.p(30)))
		}
		s += " bound [" + strings.Join(ts, ", ")
		if ar > 0 && g.p(6) {
			s += ","
		}
		s += "]"
	}
	if g.p(15) {
		q := g.pickPred()
		var xs []string
		for i := 0; i < q.arity; i++ {
			if p.arity > 0 {
				xs = append(xs, varNames[g.r.Intn(p.arity)%len(varNames)])
			} else {
				xs = append(xs, "X")
			}
		}
		s += " inclusion [" + q.name + "(" + strings.Join(xs, ", ") + ")]"
	}
	return s
}

func (g *gen) r0i(xs []int) int { return xs[g.r.Intn(len(xs))] }

func (g *gen) zooDecl(p predInfo, oddDescr, oddRows bool) string {
	var vs []string
	for i := 0; i < p.arity; i++ {
		vs = append(vs, varNames[i%len(varNames)])
	}
	s := "Decl " + p.name + "(" + strings.Join(vs, ", ") + ")"
	if p.temporal {
		s += " temporal"
	}
	switch {
	case oddDescr:
		d := g.zooDescr(vs, true)
		if g.p(30) {
			d = g.zooDescr(vs, false) + ", " + d
		}
		s += " descr [" + d + "]"
	case g.p(75):
		d := g.zooDescr(vs, false)
		if g.p(25) {
			d += ", " + g.zooDescr(vs, false)
		}
		s += " descr [" + d + "]"
	}
	return s + g.zooRows(p, oddRows) + "."
}

// zooProgram: every predicate is declared; one declaration (two in wild mode) is the odd one.
func (g *gen) zooProgram() string {
	g.initPreds()
	wild := !g.clean
	g.clean = true // facts and rules below are meant to be accepted
	defer func() { g.clean = !wild }()
	if g.p(50) {
		// a unary predicate other declarations may refer to
		g.preds = append(g.preds, predInfo{name: "u", arity: 1, cols: []int{g.r.Intn(4)}})
	}
	oddAt := map[int]bool{g.r.Intn(len(g.preds)): true}
	if wild {
		oddAt[g.r.Intn(len(g.preds))] = true
	}
	var sb strings.Builder
	for i, p := range g.preds {
		switch {
		case oddAt[i]:
			// at least one of the two sides is odd in 85 % of the cases
			od, or := g.p(45), g.p(60)
			if !od && !or && g.p(85) {
				or = true
			}
			sb.WriteString(g.zooDecl(p, od, or) + "\n")
		case g.p(70):
			sb.WriteString(g.zooDecl(p, false, false) + "\n")
		case g.p(50):
			sb.WriteString(g.cleanDecl(p) + "\n")
		}
		if wild && g.p(6) {
			sb.WriteString(g.zooDecl(p, g.p(50), g.p(50)) + "\n") // declared twice
		}
	}
	all := g.preds
	for i := range all {
		g.preds = all[i : i+1]
		sb.WriteString(g.cleanFact() + "\n")
	}
	g.preds = all
	nf := g.r.Intn(4)
	for i := 0; i < nf; i++ {
		sb.WriteString(g.cleanFact() + "\n")
	}
	nr := g.r.Intn(4)
	for i := 0; i < nr; i++ {
		sb.WriteString(g.cleanRule() + "\n")
	}
	return sb.String()
}
