//go:build verif

// C10 runner for the bound rows of a declaration: what the parser produced for the
// declaration under test (arity, the class of every entry of every bound row, the
// descriptor flags), what analysis.CheckDecl says about the rows, the outcome of
// symbols.CheckAndDesugar called directly on the unit's declarations, and the outcome
// of the analysis pipeline. Compared in Coq with the model coq/Front/DeclRows.v.
package main

import (
	"encoding/json"
	"fmt"
	"strings"

	"codeberg.org/TauCeti/mangle-go/analysis"
	"codeberg.org/TauCeti/mangle-go/ast"
	"codeberg.org/TauCeti/mangle-go/parse"
	"codeberg.org/TauCeti/mangle-go/symbols"
	"mvharness/hlib"
)

type declOut struct {
	ParseErr  string     `json:"parse_err,omitempty"`
	Found     bool       `json:"found"`
	Arity     int        `json:"arity"`
	Rows      [][]string `json:"rows"` // W well-formed bound | S other string constant | N anything else
	Descr     []string   `json:"descr"`
	Desugared bool       `json:"desugared"`
	Synthetic bool       `json:"synthetic"`
	ELen      bool       `json:"e_len"` // CheckDecl: "expected n bounds, got m"
	EWf       bool       `json:"e_wf"`  // CheckDecl: a bound is not well formed
	CheckErrs []string   `json:"check_errs"`
	CheckK    string     `json:"check_k"`  // ok | err | panic
	Direct    string     `json:"direct"`   // symbols.CheckAndDesugar: ok | err | panic
	DirectMsg string     `json:"direct_msg,omitempty"`
	Pipe      string     `json:"pipe"` // analysis pipeline: ok | err | panic
	PipeMsg   string     `json:"pipe_msg,omitempty"`
	PipeWhere string     `json:"pipe_where,omitempty"`
}

func cellClass(b ast.BaseTerm) string {
	if symbols.WellformedBound(b) == nil {
		return "W"
	}
	if c, ok := b.(ast.Constant); ok && c.Type == ast.StringType {
		return "S"
	}
	return "N"
}

func outcome(f func() error) (k, msg, where string) {
	err, pan, m, w := guard(f)
	switch {
	case pan:
		return "panic", m, w
	case err != nil:
		m := firstLine(err.Error())
		if len(m) > 200 {
			m = m[:200]
		}
		return "err", m, ""
	}
	return "ok", "", ""
}

func runDecl(in json.RawMessage) (any, error) {
	var c struct {
		Src  string `json:"src"`
		Pred string `json:"pred"`
	}
	if err := json.Unmarshal(in, &c); err != nil {
		return nil, err
	}
	o := declOut{Rows: [][]string{}, Descr: []string{}, CheckErrs: []string{}}
	unit, err := parse.Unit(strings.NewReader(c.Src))
	if err != nil {
		o.ParseErr = firstLine(err.Error())
		return o, nil
	}
	decls := map[ast.PredicateSym]ast.Decl{}
	for _, d := range unit.Decls {
		if d.DeclaredAtom.Predicate.Symbol == "Package" || d.DeclaredAtom.Predicate.Symbol == "Use" {
			continue
		}
		decls[d.DeclaredAtom.Predicate] = d
		if d.DeclaredAtom.Predicate.Symbol != c.Pred || o.Found {
			continue
		}
		o.Found = true
		o.Arity = d.DeclaredAtom.Predicate.Arity
		if len(d.DeclaredAtom.Args) != o.Arity {
			return nil, fmt.Errorf("declared atom %v: arity %d", d.DeclaredAtom, o.Arity)
		}
		for _, r := range d.Bounds {
			row := []string{}
			for _, b := range r.Bounds {
				row = append(row, cellClass(b))
			}
			o.Rows = append(o.Rows, row)
		}
		for _, a := range d.Descr {
			o.Descr = append(o.Descr, a.Predicate.Symbol)
		}
		o.Desugared, o.Synthetic = d.IsDesugared(), d.IsSynthetic()
		dd := d
		o.CheckK, _, _ = outcome(func() error {
			for _, e := range analysis.CheckDecl(dd) {
				m := e.Error()
				o.CheckErrs = append(o.CheckErrs, firstLine(m))
				if strings.Contains(m, "expected ") && strings.Contains(m, " bounds, got ") {
					o.ELen = true
				}
				if strings.Contains(m, "must be parseable as predicate name") {
					o.EWf = true
				}
			}
			if len(o.CheckErrs) > 0 {
				return fmt.Errorf("%d errors", len(o.CheckErrs))
			}
			return nil
		})
	}
	o.Direct, o.DirectMsg, _ = outcome(func() error {
		_, e := symbols.CheckAndDesugar(decls)
		return e
	})
	o.Pipe, o.PipeMsg, o.PipeWhere = outcome(func() error {
		_, e := analysis.AnalyzeOneUnit(unit, nil)
		return e
	})
	if o.Pipe != "panic" {
		k, m, w := outcome(func() error {
			_, e := analysis.AnalyzeAndCheckBounds([]parse.SourceUnit{unit}, nil, analysis.ErrorForBoundsMismatch)
			return e
		})
		if k == "panic" || o.Pipe == "ok" {
			o.Pipe, o.PipeMsg, o.PipeWhere = k, m, w
		}
	}
	return o, nil
}

func init() {
	hlib.Register("c10_decl", runDecl)
}
