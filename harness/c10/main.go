//go:build verif

package main

import (
	"os"
	"syscall"

	"mvharness/hlib"
)

func main() {
	// an allocation bomb must kill this process, not the machine
	lim := syscall.Rlimit{Cur: 8 << 30, Max: 8 << 30}
	syscall.Setrlimit(syscall.RLIMIT_AS, &lim)
	if len(os.Args) >= 2 && os.Args[1] == "c10_fuzz" {
		fuzzMain()
		return
	}
	hlib.Main()
}
