//go:build verif

// Runner "c15": parse -> analysis.AnalyzeOneUnit -> engine.EvalProgram twice (without
// and with a provenance.MemoryRecorder attached) -> for every fact of the evaluated
// store as goal: provenance.Explain (post-hoc) and provenance.BuildFromRecording
// (recorded). Every returned proof is converted into a JSON tree; nothing is judged
// here (the verified observer check_proof in coq/Prov/ProofTree.v does that).
//
// Case:  {"src": program text, "pre": facts put into the caller's store,
//         "max_proofs": n, "max_depth": n (0 = package default),
//         "modes": ["posthoc","recorded"], "timeout_ms": guard for the whole case,
//         "max_nodes": cap on the size of one unfolded proof tree}
// Out:   {"stage": "ok"|"parse"|"analysis"|"eval"|"timeout", "msg",
//         "rules": [printed ProgramInfo.Rules], "facts": [store facts (recorder run)],
//         "store_equal": bool, "plain_only": [...], "rec_only": [...],
//         "goals": [{"fact": .., "posthoc": res, "recorded": res}]}
//   res  = {"err": ""|"noproof"|"notground"|"other:..", "proofs": [node]}
//   node = {"k": "edb"|"absence"|"derived"|"let"|"do"|"cut"|"big", "fact": fact, "ri": rule index or -1,
//           "rule": printed rule, "b": [[var, const]], "prem": [node], "partial": bool, "id", "rid"}
package main

import (
	"encoding/json"
	"fmt"
	"sort"
	"strings"
	"time"

	"codeberg.org/TauCeti/mangle-go/analysis"
	"codeberg.org/TauCeti/mangle-go/ast"
	"codeberg.org/TauCeti/mangle-go/engine"
	"codeberg.org/TauCeti/mangle-go/factstore"
	"codeberg.org/TauCeti/mangle-go/functional"
	"codeberg.org/TauCeti/mangle-go/parse"
	"codeberg.org/TauCeti/mangle-go/provenance"
	"mvharness/hlib"
)

type c15Case struct {
	Src       string   `json:"src"`
	Pre       string   `json:"pre"`
	MaxProofs int      `json:"max_proofs"`
	MaxDepth  int      `json:"max_depth"`
	Modes     []string `json:"modes"`
	TimeoutMs int      `json:"timeout_ms"`
	MaxNodes  int      `json:"max_nodes"`
}

type c15Node struct {
	K       string     `json:"k"`
	Fact    any        `json:"fact"`
	Ri      int        `json:"ri"`
	Rule    string     `json:"rule,omitempty"`
	B       [][]any    `json:"b,omitempty"`
	Prem    []*c15Node `json:"prem,omitempty"`
	Partial bool       `json:"partial,omitempty"`
	ID      string     `json:"id"`
	Rid     string     `json:"rid,omitempty"`
}

type c15Res struct {
	Err    string     `json:"err"`
	Proofs []*c15Node `json:"proofs"`
}

type c15Goal struct {
	Fact     any     `json:"fact"`
	Posthoc  *c15Res `json:"posthoc,omitempty"`
	Recorded *c15Res `json:"recorded,omitempty"`
}

type c15Out struct {
	Stage      string    `json:"stage"`
	Msg        string    `json:"msg,omitempty"`
	Rules      []string  `json:"rules"`
	Facts      []any     `json:"facts"`
	StoreEqual bool      `json:"store_equal"`
	PlainOnly  []string  `json:"plain_only,omitempty"`
	RecOnly    []string  `json:"rec_only,omitempty"`
	Events     int       `json:"events"`
	Goals      []c15Goal `json:"goals"`
}

func constJSON(c ast.Constant) any {
	switch c.Type {
	case ast.NumberType:
		return []any{"n", c.NumValue}
	case ast.NameType:
		return []any{"name", c.Symbol}
	case ast.StringType:
		return []any{"s", c.Symbol}
	case ast.PairShape:
		a, b, err := c.PairValue()
		if err != nil {
			return []any{"other", c.String()}
		}
		return []any{"pair", constJSON(a), constJSON(b)}
	case ast.ListShape:
		elems := []any{}
		c.ListValues(func(e ast.Constant) error {
			elems = append(elems, constJSON(e))
			return nil
		}, func() error { return nil })
		return []any{"list", elems}
	}
	return []any{"other", c.String()}
}

func factJSON(a ast.Atom) any {
	args := []any{}
	for _, t := range a.Args {
		if c, ok := t.(ast.Constant); ok {
			args = append(args, constJSON(c))
		} else {
			args = append(args, []any{"other", t.String()})
		}
	}
	return map[string]any{"p": a.Predicate.Symbol, "args": args}
}

type conv struct {
	ruleIdx map[string]int
	budget  int
}

func (cv *conv) node(n *provenance.ProofNode) *c15Node {
	if n == nil {
		return &c15Node{K: "nil", Ri: -1}
	}
	cv.budget--
	if cv.budget < 0 {
		return &c15Node{K: "big", Fact: factJSON(n.Fact), Ri: -1, ID: n.ID}
	}
	out := &c15Node{Fact: factJSON(n.Fact), Ri: -1, ID: n.ID, Rid: n.RuleID, Partial: n.Partial}
	switch n.Kind {
	case provenance.KindEDB:
		out.K = "edb"
		if n.Partial {
			// the placeholder of explain/build beyond MaxDepth (zero Kind, Partial set)
			out.K = "cut"
		}
	case provenance.KindAbsence:
		out.K = "absence"
	case provenance.KindDerived:
		out.K = "derived"
	case provenance.KindLetRow:
		out.K = "let"
	case provenance.KindDoAggregate:
		out.K = "do"
	default:
		out.K = fmt.Sprintf("kind%d", int(n.Kind))
	}
	if n.Rule != nil {
		out.Rule = n.Rule.String()
		if i, ok := cv.ruleIdx[out.Rule]; ok {
			out.Ri = i
		}
	}
	for _, b := range n.Bindings {
		out.B = append(out.B, []any{b.Var.Symbol, constJSON(b.Value)})
	}
	for _, s := range n.Premises {
		out.Prem = append(out.Prem, cv.node(s))
	}
	return out
}

func (cv *conv) res(proofs []*provenance.ProofNode, err error, maxNodes int) *c15Res {
	r := &c15Res{Proofs: []*c15Node{}}
	switch {
	case err == nil:
	case err == provenance.ErrNoProof:
		r.Err = "noproof"
	case err == provenance.ErrGoalNotGround:
		r.Err = "notground"
	default:
		r.Err = "other:" + err.Error()
	}
	for _, p := range proofs {
		cv.budget = maxNodes
		r.Proofs = append(r.Proofs, cv.node(p))
	}
	return r
}

func storeFacts(store factstore.FactStore) ([]ast.Atom, []string) {
	seen := map[string]ast.Atom{}
	factstore.GetAllFacts(store, func(a ast.Atom) error {
		if a.Predicate.IsInternalPredicate() {
			return nil
		}
		seen[a.String()] = a
		return nil
	})
	keys := make([]string, 0, len(seen))
	for k := range seen {
		keys = append(keys, k)
	}
	sort.Strings(keys)
	atoms := make([]ast.Atom, len(keys))
	for i, k := range keys {
		atoms[i] = seen[k]
	}
	return atoms, keys
}

func diff(a, b []string) []string {
	in := map[string]bool{}
	for _, x := range b {
		in[x] = true
	}
	out := []string{}
	for _, x := range a {
		if !in[x] {
			out = append(out, x)
		}
	}
	return out
}

func runC15Inner(c c15Case) (any, error) {
	unit, err := parse.Unit(strings.NewReader(c.Src))
	if err != nil {
		return c15Out{Stage: "parse", Msg: err.Error()}, nil
	}
	var pre []ast.Atom
	if strings.TrimSpace(c.Pre) != "" {
		pu, err := parse.Unit(strings.NewReader(c.Pre))
		if err != nil {
			return c15Out{Stage: "parse", Msg: "pre: " + err.Error()}, nil
		}
		for _, cl := range pu.Clauses {
			if len(cl.Premises) != 0 {
				return nil, fmt.Errorf("pre must contain facts only: %v", cl)
			}
			f, err := functional.EvalAtom(cl.Head, nil)
			if err != nil {
				return nil, fmt.Errorf("pre fact %v: %v", cl.Head, err)
			}
			pre = append(pre, f)
		}
	}
	extra := map[ast.PredicateSym]ast.Decl{}
	inSrc := map[ast.PredicateSym]bool{}
	for _, cl := range unit.Clauses {
		inSrc[cl.Head.Predicate] = true
	}
	declare := func(p ast.PredicateSym) {
		if !inSrc[p] && !p.IsBuiltin() {
			if _, ok := extra[p]; !ok {
				extra[p] = ast.NewSyntheticDeclFromSym(p)
			}
		}
	}
	for _, f := range pre {
		declare(f.Predicate)
	}
	for _, cl := range unit.Clauses {
		for _, pr := range cl.Premises {
			switch a := pr.(type) {
			case ast.Atom:
				declare(a.Predicate)
			case ast.NegAtom:
				declare(a.Atom.Predicate)
			}
		}
	}
	info, err := analysis.AnalyzeOneUnit(unit, extra)
	if err != nil {
		return c15Out{Stage: "analysis", Msg: err.Error()}, nil
	}
	out := c15Out{Stage: "ok", Rules: []string{}, Facts: []any{}, Goals: []c15Goal{}}
	cv := &conv{ruleIdx: map[string]int{}}
	for i, r := range info.Rules {
		s := r.String()
		out.Rules = append(out.Rules, s)
		if _, ok := cv.ruleIdx[s]; !ok {
			cv.ruleIdx[s] = i
		}
	}
	// run 1: no recorder
	plain := factstore.NewSimpleInMemoryStore()
	for _, f := range pre {
		plain.Add(f)
	}
	if err := engine.EvalProgram(info, &plain, engine.WithCreatedFactLimit(20000)); err != nil {
		return c15Out{Stage: "eval", Msg: err.Error(), Rules: out.Rules}, nil
	}
	// run 2: recorder attached
	store := factstore.NewSimpleInMemoryStore()
	for _, f := range pre {
		store.Add(f)
	}
	rec := provenance.NewMemoryRecorder()
	if err := engine.EvalProgram(info, &store, engine.WithCreatedFactLimit(20000), engine.WithDerivationRecorder(rec)); err != nil {
		return c15Out{Stage: "eval", Msg: "with recorder: " + err.Error(), Rules: out.Rules}, nil
	}
	out.Events = len(rec.Events())
	_, plainKeys := storeFacts(&plain)
	goals, recKeys := storeFacts(&store)
	out.PlainOnly = diff(plainKeys, recKeys)
	out.RecOnly = diff(recKeys, plainKeys)
	out.StoreEqual = len(out.PlainOnly) == 0 && len(out.RecOnly) == 0
	for _, g := range goals {
		out.Facts = append(out.Facts, factJSON(g))
	}
	opts := provenance.Options{MaxProofs: c.MaxProofs, MaxDepth: c.MaxDepth}
	modes := map[string]bool{}
	for _, m := range c.Modes {
		modes[m] = true
	}
	for _, g := range goals {
		gj := c15Goal{Fact: factJSON(g)}
		if modes["posthoc"] {
			proofs, err := provenance.Explain(info, &store, g, opts)
			gj.Posthoc = cv.res(proofs, err, c.MaxNodes)
		}
		if modes["recorded"] {
			proofs, err := provenance.BuildFromRecording(rec, &store, g, opts)
			gj.Recorded = cv.res(proofs, err, c.MaxNodes)
		}
		out.Goals = append(out.Goals, gj)
	}
	return out, nil
}

func runC15(in json.RawMessage) (any, error) {
	var c c15Case
	if err := json.Unmarshal(in, &c); err != nil {
		return nil, err
	}
	if len(c.Modes) == 0 {
		c.Modes = []string{"posthoc", "recorded"}
	}
	if c.TimeoutMs == 0 {
		c.TimeoutMs = 20000
	}
	if c.MaxNodes == 0 {
		c.MaxNodes = 4000
	}
	type res struct {
		v   any
		err error
		pan string
	}
	ch := make(chan res, 1)
	go func() {
		defer func() {
			if p := recover(); p != nil {
				ch <- res{pan: fmt.Sprint(p)}
			}
		}()
		v, err := runC15Inner(c)
		ch <- res{v: v, err: err}
	}()
	select {
	case r := <-ch:
		if r.pan != "" {
			panic(r.pan)
		}
		return r.v, r.err
	case <-time.After(time.Duration(c.TimeoutMs) * time.Millisecond):
		return c15Out{Stage: "timeout"}, nil
	}
}

func init() { hlib.Register("c15", runC15) }
