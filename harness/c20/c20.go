//go:build verif

// Runner "c20": one program, evaluated by engine.EvalProgramNaive and by
// engine.EvalProgram on two copies of one store (factstore.SimpleInMemoryStore, the
// only kind the naive entry point takes). Both sides go through the same analysis
// call that EvalProgramNaive makes itself (analysis.AnalyzeOneUnit on the clauses,
// known predicates = the predicates of the store), so "accepted by the analysis" is
// one decision for both. The semi-naive engine runs first with a created-fact limit;
// the naive engine (which has no limit) is started only if the semi-naive one
// finished or returned an evaluation error, under a wall-clock guard.
//
// Case: {"src": program text (rules and facts), "pre": text of ground facts put into
//        the store before evaluation, "limit": created-fact limit for semi-naive,
//        "timeout_ms": guard per evaluation}
// Out:  {"stage": "ok"|"parse"|"analysis", "msg": ..,
//        "semi":  {"err": ""|eval|limit|timeout|panic|stratification, "msg", "facts": [...]},
//        "naive": {"err": ""|analysis|stratification|timeout|panic|skipped, "msg", "facts": [...]}}
// facts: [{"p": "p3", "args": [const...]}] sorted by printed form.
package main

import (
	"encoding/json"
	"fmt"
	"sort"
	"strings"
	"time"

	"codeberg.org/TauCeti/mangle-go/analysis"
	"codeberg.org/TauCeti/mangle-go/ast"
	"codeberg.org/TauCeti/mangle-go/engine"
	"codeberg.org/TauCeti/mangle-go/factstore"
	"codeberg.org/TauCeti/mangle-go/functional"
	"codeberg.org/TauCeti/mangle-go/parse"
	"mvharness/hlib"
)

type c20Case struct {
	Src       string `json:"src"`
	Pre       string `json:"pre"`
	Limit     int    `json:"limit"`
	TimeoutMs int    `json:"timeout_ms"`
}

type c20Side struct {
	Err   string `json:"err"`
	Msg   string `json:"msg,omitempty"`
	Facts []any  `json:"facts"`
}

type c20Out struct {
	Stage string   `json:"stage"`
	Msg   string   `json:"msg,omitempty"`
	Semi  *c20Side `json:"semi,omitempty"`
	Naive *c20Side `json:"naive,omitempty"`
}

// naive evaluations abandoned after the guard keep running in their goroutine; after a
// few of them the runner stops starting new ones
var leaked int

func constJSON(c ast.Constant) any {
	switch c.Type {
	case ast.NumberType:
		return []any{"n", c.NumValue}
	case ast.NameType:
		return []any{"name", c.Symbol}
	case ast.StringType:
		return []any{"s", c.Symbol}
	case ast.PairShape:
		a, b, err := c.PairValue()
		if err != nil {
			return []any{"other", c.String()}
		}
		return []any{"pair", constJSON(a), constJSON(b)}
	case ast.ListShape:
		elems := []any{}
		c.ListValues(func(e ast.Constant) error {
			elems = append(elems, constJSON(e))
			return nil
		}, func() error { return nil })
		return []any{"list", elems}
	}
	return []any{"other", c.String()}
}

func factJSON(a ast.Atom) any {
	args := []any{}
	for _, t := range a.Args {
		if c, ok := t.(ast.Constant); ok {
			args = append(args, constJSON(c))
		} else {
			args = append(args, []any{"other", t.String()})
		}
	}
	return map[string]any{"p": a.Predicate.Symbol, "args": args}
}

func readStore(store factstore.FactStore) []any {
	seen := map[string]any{}
	factstore.GetAllFacts(store, func(a ast.Atom) error {
		if a.Predicate.IsInternalPredicate() {
			return nil
		}
		seen[a.String()] = factJSON(a)
		return nil
	})
	keys := make([]string, 0, len(seen))
	for k := range seen {
		keys = append(keys, k)
	}
	sort.Strings(keys)
	facts := make([]any, len(keys))
	for i, k := range keys {
		facts[i] = seen[k]
	}
	return facts
}

type res struct {
	err error
	pan string
}

func guarded(timeout time.Duration, f func() error) (r res, timedOut bool) {
	ch := make(chan res, 1)
	go func() {
		defer func() {
			if p := recover(); p != nil {
				ch <- res{pan: fmt.Sprint(p)}
			}
		}()
		ch <- res{err: f()}
	}()
	select {
	case r := <-ch:
		return r, false
	case <-time.After(timeout):
		return res{}, true
	}
}

func knownFromStore(store factstore.SimpleInMemoryStore) map[ast.PredicateSym]ast.Decl {
	// exactly what EvalProgramNaive does (naivebottomup.go:38-42)
	preds := store.ListPredicates()
	known := make(map[ast.PredicateSym]ast.Decl, len(preds))
	for _, sym := range preds {
		known[sym] = ast.NewSyntheticDeclFromSym(sym)
	}
	return known
}

func runC20(in json.RawMessage) (any, error) {
	var c c20Case
	if err := json.Unmarshal(in, &c); err != nil {
		return nil, err
	}
	if c.TimeoutMs == 0 {
		c.TimeoutMs = 10000
	}
	timeout := time.Duration(c.TimeoutMs) * time.Millisecond
	unit, err := parse.Unit(strings.NewReader(c.Src))
	if err != nil {
		return c20Out{Stage: "parse", Msg: err.Error()}, nil
	}
	var pre []ast.Atom
	if strings.TrimSpace(c.Pre) != "" {
		pu, err := parse.Unit(strings.NewReader(c.Pre))
		if err != nil {
			return c20Out{Stage: "parse", Msg: "pre: " + err.Error()}, nil
		}
		for _, cl := range pu.Clauses {
			if len(cl.Premises) != 0 {
				return nil, fmt.Errorf("pre must contain facts only: %v", cl)
			}
			f, err := functional.EvalAtom(cl.Head, nil)
			if err != nil {
				return nil, fmt.Errorf("pre fact %v: %v", cl.Head, err)
			}
			pre = append(pre, f)
		}
	}
	// two copies of one store
	sNaive := factstore.NewSimpleInMemoryStore()
	sSemi := factstore.NewSimpleInMemoryStore()
	for _, f := range pre {
		sNaive.Add(f)
		sSemi.Add(f)
	}
	info, err := analysis.AnalyzeOneUnit(parse.SourceUnit{Clauses: unit.Clauses}, knownFromStore(sSemi))
	if err != nil {
		return c20Out{Stage: "analysis", Msg: err.Error()}, nil
	}
	out := c20Out{Stage: "ok", Semi: &c20Side{Facts: []any{}}, Naive: &c20Side{Facts: []any{}}}

	// semi-naive first (it has a fact limit)
	opts := []engine.EvalOption{}
	if c.Limit > 0 {
		opts = append(opts, engine.WithCreatedFactLimit(c.Limit))
	}
	r, to := guarded(timeout, func() error { return engine.EvalProgram(info, &sSemi, opts...) })
	switch {
	case to:
		out.Semi.Err = "timeout"
	case r.pan != "":
		out.Semi.Err, out.Semi.Msg = "panic", r.pan
	case r.err != nil:
		m := r.err.Error()
		out.Semi.Msg = m
		switch {
		case strings.Contains(m, "fact size limit"):
			out.Semi.Err = "limit"
		case strings.Contains(m, "stratification"):
			out.Semi.Err = "stratification"
		default:
			out.Semi.Err = "eval"
		}
	default:
		out.Semi.Facts = readStore(&sSemi)
	}
	if out.Semi.Err != "" && out.Semi.Err != "eval" {
		out.Naive.Err = "skipped"
		return out, nil
	}
	if leaked >= 3 {
		out.Naive.Err, out.Naive.Msg = "skipped", "too many abandoned naive evaluations"
		return out, nil
	}
	r, to = guarded(timeout, func() error { return engine.EvalProgramNaive(unit.Clauses, sNaive) })
	switch {
	case to:
		leaked++
		out.Naive.Err = "timeout"
	case r.pan != "":
		out.Naive.Err, out.Naive.Msg = "panic", r.pan
	case r.err != nil:
		m := r.err.Error()
		out.Naive.Msg = m
		switch {
		case strings.HasPrefix(m, "analysis"):
			out.Naive.Err = "analysis"
		case strings.HasPrefix(m, "stratification"):
			out.Naive.Err = "stratification"
		default:
			out.Naive.Err = "eval"
		}
	default:
		out.Naive.Facts = readStore(&sNaive)
	}
	return out, nil
}

func init() { hlib.Register("c20", runC20) }
