//go:build verif

// Runner "c01an": which of the given clauses does the real analysis accept?
// Every text of "clauses" is parsed and analysed as a unit of its own
// (parse.Unit -> analysis.AnalyzeOneUnit, body predicates that the text does not
// define are declared synthetically, exactly as runner "c01" does). Used by the
// alias stream of checks/c01.py to keep only variable-aliasing variants of a clause
// that CheckRule admits.
//
// Case: {"clauses": ["p1(V1) :- V2 = V1, p0(V2).", ...]}
// Out:  {"ok": [true, ...], "msg": ["", ...]}
package main

import (
	"encoding/json"
	"strings"

	"codeberg.org/TauCeti/mangle-go/analysis"
	"codeberg.org/TauCeti/mangle-go/ast"
	"codeberg.org/TauCeti/mangle-go/parse"
	"mvharness/hlib"
)

type c01anCase struct {
	Clauses []string `json:"clauses"`
}

type c01anOut struct {
	Ok  []bool   `json:"ok"`
	Msg []string `json:"msg"`
}

func analyzeAlone(src string) (bool, string) {
	unit, err := parse.Unit(strings.NewReader(src))
	if err != nil {
		return false, "parse: " + err.Error()
	}
	extra := map[ast.PredicateSym]ast.Decl{}
	inSrc := map[ast.PredicateSym]bool{}
	for _, cl := range unit.Clauses {
		inSrc[cl.Head.Predicate] = true
	}
	declare := func(p ast.PredicateSym) {
		if !inSrc[p] && !p.IsBuiltin() {
			if _, ok := extra[p]; !ok {
				extra[p] = ast.NewSyntheticDeclFromSym(p)
			}
		}
	}
	for _, cl := range unit.Clauses {
		for _, pr := range cl.Premises {
			switch a := pr.(type) {
			case ast.Atom:
				declare(a.Predicate)
			case ast.NegAtom:
				declare(a.Atom.Predicate)
			}
		}
	}
	if _, err := analysis.AnalyzeOneUnit(unit, extra); err != nil {
		return false, err.Error()
	}
	return true, ""
}

func runC01an(in json.RawMessage) (any, error) {
	var c c01anCase
	if err := json.Unmarshal(in, &c); err != nil {
		return nil, err
	}
	out := c01anOut{Ok: make([]bool, len(c.Clauses)), Msg: make([]string, len(c.Clauses))}
	for i, src := range c.Clauses {
		out.Ok[i], out.Msg[i] = analyzeAlone(src)
	}
	return out, nil
}

func init() { hlib.Register("c01an", runC01an) }
