//go:build verif

package main

// c19_size: the SIZE stream of C19. A store is described by parameters (predicates, row
// counts, one generator per column), built here, written by the real SimpleColumn.WriteTo
// through every requested writer (plain, gzip levels, zstd encoder levels; streaming
// through the compressor, or the plain bytes compressed afterwards), and read back by
// ReadInto (recording store and SimpleInMemoryStore) and by the lazy SimpleColumnStore of
// the matching constructor with the queries of the case. Only counts and a few examples
// are reported: the comparison "set read back == set written" is made here with
// Constant.Equals on the atoms Go returned (Go-side oracle; no model).

import (
	"bytes"
	"compress/gzip"
	"encoding/json"
	"fmt"
	"io"
	"runtime/debug"
	"strings"
	"sync"

	"codeberg.org/TauCeti/mangle-go/ast"
	"codeberg.org/TauCeti/mangle-go/factstore"
	"github.com/klauspost/compress/zstd"
	"mvharness/hlib"
)

type szCol struct {
	Kind string `json:"kind"` // num | numneg | name | str | bytes | list | slist
	Mul  int64  `json:"mul"`
	Add  int64  `json:"add"`
	Mod  int64  `json:"mod"` // 0 = none
	Len  int    `json:"len"` // aimed length of the printed form (str / bytes / list / slist / name)
	Pfx  string `json:"pfx"`
}

type szPred struct {
	Sym   string  `json:"sym"`
	Arity int     `json:"arity"`
	N     int     `json:"n"`
	Cols  []szCol `json:"cols"`
}

type szVariant struct {
	Comp  string `json:"comp"`  // plain | gzip | zstd
	Level string `json:"level"` // gzip: speed | default | best; zstd: fastest | default | better | best | lib (no option)
	Mode  string `json:"mode"`  // stream (WriteTo into the compressor) | recompress (plain bytes, one Write) | chunks (plain bytes, 4000-byte Writes) | encodeall
	// how much is read back through this writer's output (parsing 10^4 lines costs about a second):
	Eager    bool `json:"eager"`    // ReadInto a recording store
	Real     bool `json:"real"`     // ReadInto a SimpleInMemoryStore
	QSel     []int `json:"qsel"`    // lazy store: indices of the queries to run (null = all of them)
	Contains bool  `json:"contains"` // lazy store: Contains on written facts (first, middle, last; of a big predicate the last)
}

type szQuery struct {
	Pred int         `json:"pred"`
	Bind map[int]int `json:"bind"` // column -> row index whose key gives the constant (may be >= n: a value of no row)
}

type szCase struct {
	Seed     uint64      `json:"seed"`
	Preds    []szPred    `json:"preds"`
	Det      bool        `json:"det"`
	Variants []szVariant `json:"variants"`
	Queries  []szQuery   `json:"queries"`
}

type szCmp struct {
	Err     string   `json:"err,omitempty"`
	N       int      `json:"n"`
	Missing int      `json:"missing"`
	Extra   int      `json:"extra"`
	Dup     int      `json:"dup"`
	Ex      []string `json:"examples,omitempty"`
}

type szVarOut struct {
	Variant   szVariant `json:"variant"`
	WriteErr  string    `json:"write_err,omitempty"`
	Size      int       `json:"size"`
	DecompOK  bool      `json:"decomp_ok"`
	DecompErr string    `json:"decomp_err,omitempty"`
	Window    uint64    `json:"zstd_window,omitempty"`
	SingleSeg bool      `json:"zstd_single_segment,omitempty"`
	Eager     *szCmp    `json:"eager"`
	Real      *szCmp    `json:"real"`
	LazyErr   string    `json:"lazy_err,omitempty"`
	Header    [][]any   `json:"header"`
	Est       int       `json:"est"`
	Queries   []szCmp   `json:"queries"`
	Contains  int       `json:"contains_false"` // written facts (a sample) the lazy store says it does not contain
	ContainsN int       `json:"contains_asked"`
}

type szOut struct {
	PlainLen   int        `json:"plain_len"`
	Facts      int        `json:"facts"`
	DupWritten int        `json:"dup_written"`
	MaxPrint   []int      `json:"max_print"` // per predicate: longest printed argument
	Lines      int        `json:"lines"`
	Vars       []szVarOut `json:"variants"`
}

func splitmix(x *uint64) uint64 {
	*x += 0x9E3779B97F4A7C15
	z := *x
	z = (z ^ (z >> 30)) * 0xBF58476D1CE4E5B9
	z = (z ^ (z >> 27)) * 0x94D049BB133111EB
	return z ^ (z >> 31)
}

var szWords = []string{"lorem", "ipsum", "dolor", "sit", "amet", "p(1,", "2)", "/name", "[1,", "]", "fn:list(", ")", "\"", "\\", "'", "`",
	"é", "\U0001F624", "%41", "a+b", "#", "x:y", "{", "}", "0", "-7", "3.5", ",", ";", "\n", "\t", "   ", "<>", "=", "!", "?", "*", "&", "|", "~", "^", "$", "@"}

func szKey(c szCol, i int64) int64 {
	k := i*c.Mul + c.Add
	if c.Mod > 0 {
		k %= c.Mod
	}
	return k
}

// szConst: the constant of column c for key k; injective in k for a fixed column. The printed form
// of a long constant is at most c.Len bytes (escapes make it longer than the payload: shrink and retry).
func szConst(c szCol, seed uint64, ci int, k int64) (ast.Constant, error) {
	want := c.Len
	for try := 0; ; try++ {
		x, err := szConst1(c, seed, ci, k)
		if err != nil || want < 64 || try == 6 {
			return x, err
		}
		l := len(x.String())
		if l <= want {
			if c.Kind == "str" { // exact printed length: the lengths around a buffer size (4096, 8192, ...) are aimed at
				x = ast.String(x.Symbol + strings.Repeat("x", want-l))
			}
			return x, nil
		}
		c.Len = c.Len*want/l - 8
	}
}

func szConst1(c szCol, seed uint64, ci int, k int64) (ast.Constant, error) {
	st := seed ^ uint64(ci+1)*0xD6E8FEB86659FD93 ^ uint64(k)*0xA0761D6478BD642F
	switch c.Kind {
	case "num":
		return ast.Number(k), nil
	case "numneg":
		return ast.Number(-k - 1), nil
	case "name":
		s := fmt.Sprintf("/%s_%06d", c.Pfx, k)
		for len(s) < c.Len {
			s += "/" + []string{"a", "bc", "d_e", "f-g", "h.i", "x%41", "~"}[splitmix(&st)%7]
		}
		return ast.Name(s)
	case "str":
		var b strings.Builder
		fmt.Fprintf(&b, "%d:", k)
		for b.Len() < c.Len-12 {
			b.WriteString(szWords[splitmix(&st)%uint64(len(szWords))])
			if splitmix(&st)%3 != 0 {
				b.WriteByte(' ')
			}
		}
		fmt.Fprintf(&b, ":%d", k)
		return ast.String(b.String()), nil
	case "bytes":
		b := []byte(fmt.Sprintf("%d:", k))
		for n := 0; len(b)+3*n < c.Len-8; { // a non-printable byte prints as \xNN
			r := splitmix(&st)
			if r%4 == 0 {
				b = append(b, byte(r>>8))
				if x := byte(r >> 8); x < 0x20 || x >= 0x7f {
					n++
				}
			} else {
				b = append(b, byte('a'+(r>>8)%26))
			}
		}
		return ast.Bytes(b), nil
	case "list": // [k, n1, n2, ...] non-negative numbers (a leading minus inside a list is N18)
		xs := []ast.Constant{ast.Number(k)}
		for l := 10; l < c.Len-10; {
			v := int64(splitmix(&st) % 1000000)
			xs = append(xs, ast.Number(v))
			l += len(fmt.Sprint(v)) + 2
		}
		return ast.List(xs), nil
	case "slist": // [k, "w", /n, ...]
		xs := []ast.Constant{ast.Number(k)}
		for l := 10; l < c.Len-24; {
			r := splitmix(&st)
			var x ast.Constant
			if r%2 == 0 {
				x = ast.String(szWords[(r>>8)%5] + fmt.Sprint((r>>20)%1000))
			} else {
				var err error
				if x, err = ast.Name(fmt.Sprintf("/n/%d", (r>>20)%100000)); err != nil {
					return ast.Constant{}, err
				}
			}
			xs = append(xs, x)
			l += len(x.String()) + 2
		}
		return ast.List(xs), nil
	}
	return ast.Constant{}, fmt.Errorf("bad column kind %q", c.Kind)
}

// atomSet: written atoms bucketed by hash, compared with Equals.
type atomSet struct {
	m map[uint64][]int
	a []ast.Atom
}

func newAtomSet(as []ast.Atom) (*atomSet, int) {
	s := &atomSet{m: map[uint64][]int{}, a: as}
	dup := 0
	for i, a := range as {
		if s.find(a) >= 0 {
			dup++
		}
		h := a.Hash()
		s.m[h] = append(s.m[h], i)
	}
	return s, dup
}

func (s *atomSet) find(a ast.Atom) int {
	for _, i := range s.m[a.Hash()] {
		if s.a[i].Equals(a) {
			return i
		}
	}
	return -1
}

func short(a ast.Atom) string {
	s := a.String()
	if len(s) > 160 {
		s = s[:100] + "..." + s[len(s)-40:] + fmt.Sprintf(" (%d bytes)", len(s))
	}
	return s
}

// compare: got against the written atoms selected by want (nil = all).
func (s *atomSet) compare(got []ast.Atom, want func(ast.Atom) bool) szCmp {
	c := szCmp{N: len(got)}
	seen := make([]bool, len(s.a))
	for _, g := range got {
		i := s.find(g)
		switch {
		case i < 0 || (want != nil && !want(s.a[i])):
			c.Extra++
			if len(c.Ex) < 3 {
				c.Ex = append(c.Ex, "not written / not matching: "+short(g))
			}
		case seen[i]:
			c.Dup++
		default:
			seen[i] = true
		}
	}
	for i, a := range s.a {
		if !seen[i] && (want == nil || want(a)) {
			c.Missing++
			if len(c.Ex) < 3 {
				c.Ex = append(c.Ex, "missing: "+short(a))
			}
		}
	}
	return c
}

var zstdLevels = map[string]zstd.EncoderLevel{"fastest": zstd.SpeedFastest, "default": zstd.SpeedDefault,
	"better": zstd.SpeedBetterCompression, "best": zstd.SpeedBestCompression}
var gzipLevels = map[string]int{"speed": gzip.BestSpeed, "default": gzip.DefaultCompression, "best": gzip.BestCompression, "huffman": gzip.HuffmanOnly}

type wc interface {
	io.Writer
	Close() error
}

func szCompressor(v szVariant, b *bytes.Buffer) (wc, error) {
	switch v.Comp {
	case "gzip":
		l, ok := gzipLevels[v.Level]
		if !ok {
			return nil, fmt.Errorf("bad gzip level %q", v.Level)
		}
		return gzip.NewWriterLevel(b, l)
	case "zstd":
		if v.Level == "lib" || v.Level == "" { // as factstore/simplecolumn_test.go does
			return zstd.NewWriter(b)
		}
		l, ok := zstdLevels[v.Level]
		if !ok {
			return nil, fmt.Errorf("bad zstd level %q", v.Level)
		}
		return zstd.NewWriter(b, zstd.WithEncoderLevel(l))
	}
	return nil, fmt.Errorf("bad compression %q", v.Comp)
}

func szWrite(sc factstore.SimpleColumn, src factstore.ReadOnlyFactStore, plain []byte, v szVariant) ([]byte, error) {
	if v.Comp == "plain" {
		var b bytes.Buffer
		err := sc.WriteTo(src, &b)
		return b.Bytes(), err
	}
	var b bytes.Buffer
	if v.Mode == "encodeall" {
		if v.Comp != "zstd" {
			return nil, fmt.Errorf("encodeall is a zstd mode")
		}
		e, err := zstd.NewWriter(nil, zstd.WithEncoderLevel(zstdLevels[v.Level]))
		if err != nil {
			return nil, err
		}
		defer e.Close()
		return e.EncodeAll(plain, nil), nil
	}
	w, err := szCompressor(v, &b)
	if err != nil {
		return nil, err
	}
	switch v.Mode {
	case "stream", "":
		if err := sc.WriteTo(src, w); err != nil {
			return nil, err
		}
	case "recompress":
		if _, err := w.Write(plain); err != nil {
			return nil, err
		}
	case "chunks":
		for i := 0; i < len(plain); i += 4000 {
			j := i + 4000
			if j > len(plain) {
				j = len(plain)
			}
			if _, err := w.Write(plain[i:j]); err != nil {
				return nil, err
			}
		}
	default:
		return nil, fmt.Errorf("bad mode %q", v.Mode)
	}
	if err := w.Close(); err != nil {
		return nil, err
	}
	return b.Bytes(), nil
}

func runC19Size(in json.RawMessage) (any, error) {
	var c szCase
	if err := json.Unmarshal(in, &c); err != nil {
		return nil, err
	}
	defer debug.SetGCPercent(debug.SetGCPercent(400)) // the parser allocates a lot per line; collect less often
	ls := &listStore{facts: map[ast.PredicateSym][]ast.Atom{}}
	out := szOut{}
	var all []ast.Atom
	perPred := [][]ast.Atom{}
	for _, p := range c.Preds {
		if len(p.Cols) != p.Arity {
			return nil, fmt.Errorf("pred %s: %d columns for arity %d", p.Sym, len(p.Cols), p.Arity)
		}
		ps := ast.PredicateSym{Symbol: p.Sym, Arity: p.Arity}
		ls.preds = append(ls.preds, ps)
		mx := 0
		var fs []ast.Atom
		for i := 0; i < p.N; i++ {
			args := make([]ast.BaseTerm, p.Arity)
			for j, col := range p.Cols {
				k, err := szConst(col, c.Seed, j, szKey(col, int64(i)))
				if err != nil {
					return nil, err
				}
				if l := len(k.String()); l > mx {
					mx = l
				}
				args[j] = k
			}
			fs = append(fs, ast.Atom{Predicate: ps, Args: args})
		}
		ls.facts[ps] = fs
		perPred = append(perPred, fs)
		all = append(all, fs...)
		out.MaxPrint = append(out.MaxPrint, mx)
	}
	out.Facts = len(all)
	set, dup := newAtomSet(all)
	out.DupWritten = dup
	sc := factstore.SimpleColumn{Deterministic: c.Det}
	var pb bytes.Buffer
	if err := sc.WriteTo(ls, &pb); err != nil {
		return nil, fmt.Errorf("plain write: %v", err)
	}
	plain := pb.Bytes()
	out.PlainLen = len(plain)
	out.Lines = bytes.Count(plain, []byte("\n"))

	// queries as atoms + the predicate "is a written fact matching it"
	type q struct {
		atom ast.Atom
	}
	var qs []q
	for _, sq := range c.Queries {
		if sq.Pred < 0 || sq.Pred >= len(c.Preds) {
			return nil, fmt.Errorf("bad query predicate %d", sq.Pred)
		}
		p := c.Preds[sq.Pred]
		args := make([]ast.BaseTerm, p.Arity)
		for j := range args {
			args[j] = ast.Variable{Symbol: fmt.Sprintf("X%d", j)}
		}
		for j, row := range sq.Bind {
			if j < 0 || j >= p.Arity {
				return nil, fmt.Errorf("bad query column %d", j)
			}
			k, err := szConst(p.Cols[j], c.Seed, j, szKey(p.Cols[j], int64(row)))
			if err != nil {
				return nil, err
			}
			args[j] = k
		}
		qs = append(qs, q{ast.Atom{Predicate: ast.PredicateSym{Symbol: p.Sym, Arity: p.Arity}, Args: args}})
	}
	matches := func(qa ast.Atom) func(ast.Atom) bool {
		return func(a ast.Atom) bool {
			if a.Predicate != qa.Predicate {
				return false
			}
			for j, t := range qa.Args {
				if k, ok := t.(ast.Constant); ok && !k.Equals(a.Args[j]) {
					return false
				}
			}
			return true
		}
	}

	out.Vars = make([]szVarOut, len(c.Variants))
	var wg sync.WaitGroup
	sem := make(chan struct{}, 8)
	for vi, v := range c.Variants {
		wg.Add(1)
		go func(vi int, v szVariant) {
			defer wg.Done()
			sem <- struct{}{}
			defer func() { <-sem }()
			o := szVarOut{Variant: v, Header: [][]any{}, Queries: []szCmp{}}
			defer func() {
				if p := recover(); p != nil {
					o.WriteErr = fmt.Sprintf("panic: %v", p)
				}
				out.Vars[vi] = o
			}()
			data, err := szWrite(sc, ls, plain, v)
			if err != nil {
				o.WriteErr = err.Error()
				return
			}
			o.Size = len(data)
			if v.Comp == "zstd" {
				var h zstd.Header
				if err := h.Decode(data); err == nil {
					o.Window, o.SingleSeg = h.WindowSize, h.SingleSegment
				}
			}
			// decompress(compress(file)) == file (decoder made by the caller, as for ReadInto)
			if r, done, err := openComp(data, v.Comp); err != nil {
				o.DecompErr = err.Error()
			} else {
				file, err := io.ReadAll(r)
				done()
				if err != nil {
					o.DecompErr = err.Error()
				}
				o.DecompOK = err == nil && bytes.Equal(file, plain)
			}
			// eager: Add sequence
			if !v.Eager {
			} else if r, done, err := openComp(data, v.Comp); err != nil {
				o.Eager = &szCmp{Err: err.Error()}
			} else {
				rec := &recStore{}
				err := (factstore.SimpleColumn{}).ReadInto(r, rec)
				done()
				cmp := set.compare(rec.added, nil)
				if err != nil {
					cmp.Err = err.Error()
				}
				o.Eager = &cmp
			}
			// eager: a real store
			if !v.Real {
			} else if r, done, err := openComp(data, v.Comp); err != nil {
				o.Real = &szCmp{Err: err.Error()}
			} else {
				st := factstore.NewSimpleInMemoryStore()
				err := sc.ReadInto(r, &st)
				done()
				var got []ast.Atom
				for _, p := range st.ListPredicates() {
					st.GetFacts(ast.NewQuery(p), func(a ast.Atom) error { got = append(got, a); return nil })
				}
				cmp := set.compare(got, nil)
				if err != nil {
					cmp.Err = err.Error()
				}
				o.Real = &cmp
			}
			// lazy
			lz, err := lazyOf(data, v.Comp)
			if err != nil {
				o.LazyErr = err.Error()
				return
			}
			for _, p := range lz.ListPredicates() {
				o.Header = append(o.Header, []any{p.Symbol, p.Arity, lz.FactCount(p)})
			}
			o.Est = lz.EstimateFactCount()
			sel := v.QSel
			if sel == nil {
				for qi := range qs {
					sel = append(sel, qi)
				}
			}
			for _, qi := range sel {
				if qi < 0 || qi >= len(qs) {
					o.LazyErr = fmt.Sprintf("harness: bad query index %d", qi)
					return
				}
				qq := qs[qi]
				var got []ast.Atom
				err := lz.GetFacts(qq.atom, func(a ast.Atom) error { got = append(got, a); return nil })
				cmp := set.compare(got, matches(qq.atom))
				if err != nil {
					cmp.Err = err.Error()
				}
				o.Queries = append(o.Queries, cmp)
			}
			for _, fs := range perPred {
				if len(fs) == 0 || !v.Contains {
					continue
				}
				idx := []int{0, len(fs) / 2, len(fs) - 1}
				if len(fs) > 1000 {
					idx = idx[2:]
				}
				for _, i := range idx {
					o.ContainsN++
					if !lz.Contains(fs[i]) {
						o.Contains++
					}
				}
			}
		}(vi, v)
	}
	wg.Wait()
	return out, nil
}

func init() {
	hlib.Register("c19_size", runC19Size)
}
