//go:build verif

package main

import (
	"bytes"
	"compress/gzip"
	"encoding/hex"
	"encoding/json"
	"fmt"
	"io"
	"strconv"

	"codeberg.org/TauCeti/mangle-go/ast"
	"codeberg.org/TauCeti/mangle-go/factstore"
	"github.com/klauspost/compress/zstd"
	"mvharness/hlib"
)

// ---------------------------------------------------------------- case
type c19Pred struct {
	Sym   string  `json:"sym"` // hex
	Arity int     `json:"arity"`
	Rows  [][]int `json:"rows"` // indices into consts
}

type c19Query struct {
	Sym   string `json:"sym"`
	Arity int    `json:"arity"`
	Args  []int  `json:"args"` // const index, or -1 = variable
}

type c19Case struct {
	Consts  []json.RawMessage `json:"consts"`
	Preds   []c19Pred         `json:"preds"`   // order A
	PredsB  []c19Pred         `json:"preds_b"` // the same store listed in another order
	Comp    string            `json:"comp"`    // plain | gzip | zstd
	Det     bool              `json:"det"`
	Queries []c19Query        `json:"queries"`
	// source for the written bytes: "list" (order A exactly) or "lazy"
	// (a SimpleColumnStore over a non-deterministic write of A is re-saved)
	Source string `json:"source"`
	// store ReadInto fills for real_set: "" / "simple" = SimpleInMemoryStore (keyed by
	// Atom.Hash, finding F8), "multiarray" = MultiIndexedArrayInMemoryStore (compares atoms;
	// used by the stream with hash-equal distinct facts)
	Target string `json:"target"`
}

// ---------------------------------------------------------------- stores
// listStore hands out predicates and facts in exactly the given order.
type listStore struct {
	preds []ast.PredicateSym
	facts map[ast.PredicateSym][]ast.Atom
}

func (l *listStore) ListPredicates() []ast.PredicateSym {
	return append([]ast.PredicateSym(nil), l.preds...)
}
func (l *listStore) GetFacts(q ast.Atom, cb func(ast.Atom) error) error {
	for _, f := range l.facts[q.Predicate] {
		if factstore.Matches(q.Args, f.Args) {
			if err := cb(f); err != nil {
				return err
			}
		}
	}
	return nil
}
func (l *listStore) Contains(a ast.Atom) bool {
	found := false
	l.GetFacts(a, func(ast.Atom) error { found = true; return nil })
	return found
}
func (l *listStore) EstimateFactCount() int {
	n := 0
	for _, fs := range l.facts {
		n += len(fs)
	}
	return n
}

// recStore records the sequence of Add calls.
type recStore struct {
	listStore
	added []ast.Atom
}

func (r *recStore) Add(a ast.Atom) bool                  { r.added = append(r.added, a); return true }
func (r *recStore) Merge(factstore.ReadOnlyFactStore)    {}

// ---------------------------------------------------------------- output
type c19Fact struct {
	Sym   string   `json:"sym"`
	Arity int      `json:"arity"`
	Args  []int    `json:"args"`          // index of an Equal table constant, -1 = none
	Text  []string `json:"text,omitempty"` // String() of the arguments when some index is -1
}

type c19Lazy struct {
	Err     string      `json:"err,omitempty"`
	Preds   []c19Fact   `json:"preds"` // header: sym, arity, Args = [FactCount]
	Est     int         `json:"est"`
	Results [][]c19Fact `json:"results"`
	QErr    []string    `json:"qerr"`
	// Contains(f) for every written fact, and for every query pattern that is ground
	ContainsAll bool `json:"contains_all"`
}

type c19Out struct {
	Prints   []string   `json:"prints"` // hex String() per constant
	DupConst [][2]int   `json:"dup_consts"`
	AtomStr  [][]string `json:"atom_str"`  // per pred (order A), per row: hex Atom.String()
	AtomHash [][]string `json:"atom_hash"` // decimal Atom.Hash()
	WriteErr string     `json:"write_err,omitempty"`
	Bytes    string     `json:"bytes"`   // hex of the (decompressed) file
	CompOK   bool       `json:"comp_ok"` // decompress(compress(file)) == file written without compression
	// deterministic option: bytes written from order B and from the in-memory stores
	// filled in order A / B, each compared with Bytes
	DetEqual map[string]bool `json:"det_equal"`
	ReadErr  string          `json:"read_err,omitempty"`
	ReadSeq  []c19Fact       `json:"read_seq"` // Add calls of ReadInto in order
	RealErr  string          `json:"real_err,omitempty"`
	RealSet  []c19Fact       `json:"real_set"` // content of a SimpleInMemoryStore after ReadInto
	Lazy     c19Lazy         `json:"lazy"`
	// the listed source (only differs from preds for source=lazy): unchanged after the write?
	SourceIntact bool `json:"source_intact"`
}

func decodeHex(s string) string {
	b, err := hex.DecodeString(s)
	if err != nil {
		panic(err)
	}
	return string(b)
}

func buildList(consts []ast.Constant, preds []c19Pred) (*listStore, error) {
	ls := &listStore{facts: map[ast.PredicateSym][]ast.Atom{}}
	for _, p := range preds {
		ps := ast.PredicateSym{Symbol: decodeHex(p.Sym), Arity: p.Arity}
		ls.preds = append(ls.preds, ps)
		for _, r := range p.Rows {
			var args []ast.BaseTerm
			for _, i := range r {
				if i < 0 || i >= len(consts) {
					return nil, fmt.Errorf("bad const index %d", i)
				}
				args = append(args, consts[i])
			}
			ls.facts[ps] = append(ls.facts[ps], ast.Atom{Predicate: ps, Args: args})
		}
	}
	return ls, nil
}

type closer interface{ Close() error }

func writeComp(sc factstore.SimpleColumn, src factstore.ReadOnlyFactStore, comp string) ([]byte, error) {
	var b bytes.Buffer
	var w io.Writer = &b
	var c closer
	switch comp {
	case "gzip":
		g := gzip.NewWriter(&b)
		w, c = g, g
	case "zstd":
		z, err := zstd.NewWriter(&b)
		if err != nil {
			return nil, err
		}
		w, c = z, z
	}
	if err := sc.WriteTo(src, w); err != nil {
		return nil, err
	}
	if c != nil {
		if err := c.Close(); err != nil {
			return nil, err
		}
	}
	return b.Bytes(), nil
}

func openComp(data []byte, comp string) (io.Reader, func(), error) {
	switch comp {
	case "gzip":
		r, err := gzip.NewReader(bytes.NewReader(data))
		if err != nil {
			return nil, nil, err
		}
		return r, func() { r.Close() }, nil
	case "zstd":
		d, err := zstd.NewReader(bytes.NewReader(data))
		if err != nil {
			return nil, nil, err
		}
		return d, d.Close, nil
	}
	return bytes.NewReader(data), func() {}, nil
}

func lazyOf(data []byte, comp string) (*factstore.SimpleColumnStore, error) {
	switch comp {
	case "gzip":
		return factstore.NewSimpleColumnStoreFromGzipBytes(data)
	case "zstd":
		return factstore.NewSimpleColumnStoreFromZstdBytes(data)
	}
	return factstore.NewSimpleColumnStoreFromBytes(data)
}

func mkFact(consts []ast.Constant, a ast.Atom) c19Fact {
	f := c19Fact{Sym: hex.EncodeToString([]byte(a.Predicate.Symbol)), Arity: a.Predicate.Arity, Args: []int{}}
	unknown := false
	for _, t := range a.Args {
		idx := -1
		if c, ok := t.(ast.Constant); ok {
			for i, k := range consts {
				if k.Equals(c) {
					idx = i
					break
				}
			}
		}
		if idx < 0 {
			unknown = true
		}
		f.Args = append(f.Args, idx)
	}
	if unknown {
		for _, t := range a.Args {
			f.Text = append(f.Text, hex.EncodeToString([]byte(t.String())))
		}
	}
	return f
}

func allFacts(consts []ast.Constant, s factstore.ReadOnlyFactStore) []c19Fact {
	out := []c19Fact{}
	for _, p := range s.ListPredicates() {
		s.GetFacts(ast.NewQuery(p), func(a ast.Atom) error {
			out = append(out, mkFact(consts, a))
			return nil
		})
	}
	return out
}

func fill(dst factstore.FactStore, src *listStore) factstore.FactStore {
	for _, p := range src.preds {
		for _, f := range src.facts[p] {
			dst.Add(f)
		}
	}
	return dst
}

func sameListing(a, b *listStore) bool {
	return fmt.Sprint(allAtoms(a)) == fmt.Sprint(allAtoms(b))
}

func allAtoms(s factstore.ReadOnlyFactStore) []string {
	var out []string
	for _, p := range s.ListPredicates() {
		out = append(out, fmt.Sprintf("<%s/%d>", p.Symbol, p.Arity))
		s.GetFacts(ast.NewQuery(p), func(a ast.Atom) error { out = append(out, a.String()); return nil })
	}
	return out
}

func runC19(in json.RawMessage) (any, error) {
	var c c19Case
	if err := json.Unmarshal(in, &c); err != nil {
		return nil, err
	}
	out := c19Out{Prints: []string{}, DupConst: [][2]int{}, AtomStr: [][]string{}, AtomHash: [][]string{},
		DetEqual: map[string]bool{}, ReadSeq: []c19Fact{}, RealSet: []c19Fact{}}
	var consts []ast.Constant
	for _, raw := range c.Consts {
		jt, err := parseJTerm(raw)
		if err != nil {
			return nil, err
		}
		k, err := jt.Const()
		if err != nil {
			return nil, err
		}
		consts = append(consts, k)
		out.Prints = append(out.Prints, hex.EncodeToString([]byte(k.String())))
	}
	for i := range consts {
		for j := i + 1; j < len(consts); j++ {
			if consts[i].Equals(consts[j]) {
				out.DupConst = append(out.DupConst, [2]int{i, j})
			}
		}
	}
	a, err := buildList(consts, c.Preds)
	if err != nil {
		return nil, err
	}
	for _, p := range a.preds {
		strs, hs := []string{}, []string{}
		for _, f := range a.facts[p] {
			strs = append(strs, hex.EncodeToString([]byte(f.String())))
			hs = append(hs, strconv.FormatUint(f.Hash(), 10))
		}
		out.AtomStr = append(out.AtomStr, strs)
		out.AtomHash = append(out.AtomHash, hs)
	}
	sc := factstore.SimpleColumn{Deterministic: c.Det}

	var src factstore.ReadOnlyFactStore = a
	var lazySrc *factstore.SimpleColumnStore
	var lazyBefore []string
	if c.Source == "lazy" {
		// a file written without the deterministic option, opened lazily, is the source
		first, err := writeComp(factstore.SimpleColumn{}, a, "plain")
		if err != nil {
			out.WriteErr = "first write: " + err.Error()
			return out, nil
		}
		lazySrc, err = factstore.NewSimpleColumnStoreFromBytes(first)
		if err != nil {
			out.WriteErr = "open of first write: " + err.Error()
			return out, nil
		}
		lazyBefore = allAtoms(lazySrc)
		src = lazySrc
	}
	plain, err := writeComp(sc, src, "plain")
	if err != nil {
		out.WriteErr = err.Error()
		return out, nil
	}
	data, err := writeComp(sc, src, c.Comp)
	if err != nil {
		out.WriteErr = err.Error()
		return out, nil
	}
	out.SourceIntact = true
	if lazySrc != nil {
		out.SourceIntact = fmt.Sprint(lazyBefore) == fmt.Sprint(allAtoms(lazySrc))
	}
	// decompress
	r, done, err := openComp(data, c.Comp)
	if err != nil {
		out.WriteErr = "decompress: " + err.Error()
		return out, nil
	}
	file, err := io.ReadAll(r)
	done()
	if err != nil {
		out.WriteErr = "decompress: " + err.Error()
		return out, nil
	}
	out.Bytes = hex.EncodeToString(file)
	out.CompOK = bytes.Equal(file, plain)

	if c.Det {
		b, err := buildList(consts, c.PredsB)
		if err != nil {
			return nil, err
		}
		eq := func(name string, s factstore.ReadOnlyFactStore) {
			got, err := writeComp(sc, s, "plain")
			out.DetEqual[name] = err == nil && bytes.Equal(got, plain)
		}
		eq("list_b", b)
		// order A reversed: predicates and the facts of every predicate
		rev := &listStore{facts: map[ast.PredicateSym][]ast.Atom{}}
		for i := len(a.preds) - 1; i >= 0; i-- {
			p := a.preds[i]
			rev.preds = append(rev.preds, p)
			for j := len(a.facts[p]) - 1; j >= 0; j-- {
				rev.facts[p] = append(rev.facts[p], a.facts[p][j])
			}
		}
		eq("list_rev", rev)
		for _, o := range []struct {
			n string
			l *listStore
		}{{"a", a}, {"b", b}} {
			s1 := factstore.NewSimpleInMemoryStore()
			eq("simple_"+o.n, fill(&s1, o.l))
			s2 := factstore.NewIndexedInMemoryStore()
			eq("indexed_"+o.n, fill(&s2, o.l))
			s3 := factstore.NewMultiIndexedInMemoryStore()
			eq("multi_"+o.n, fill(&s3, o.l))
			s4 := factstore.NewMultiIndexedArrayInMemoryStore()
			eq("multiarray_"+o.n, fill(s4, o.l))
		}
	}

	// eager read: sequence of Add calls
	{
		r, done, err := openComp(data, c.Comp)
		if err != nil {
			out.ReadErr = err.Error()
		} else {
			rec := &recStore{}
			if err := (factstore.SimpleColumn{}).ReadInto(r, rec); err != nil {
				out.ReadErr = err.Error()
			}
			done()
			for _, f := range rec.added {
				out.ReadSeq = append(out.ReadSeq, mkFact(consts, f))
			}
		}
	}
	// eager read into a real store
	{
		r, done, err := openComp(data, c.Comp)
		if err != nil {
			out.RealErr = err.Error()
		} else {
			var n factstore.FactStore
			if c.Target == "multiarray" {
				n = factstore.NewMultiIndexedArrayInMemoryStore()
			} else {
				s := factstore.NewSimpleInMemoryStore()
				n = &s
			}
			if err := sc.ReadInto(r, n); err != nil {
				out.RealErr = err.Error()
			}
			done()
			out.RealSet = allFacts(consts, n)
		}
	}
	// lazy store
	lz, err := lazyOf(data, c.Comp)
	out.Lazy = c19Lazy{Preds: []c19Fact{}, Results: [][]c19Fact{}, QErr: []string{}, ContainsAll: true}
	if err != nil {
		out.Lazy.Err = err.Error()
		return out, nil
	}
	for _, p := range lz.ListPredicates() {
		out.Lazy.Preds = append(out.Lazy.Preds, c19Fact{Sym: hex.EncodeToString([]byte(p.Symbol)), Arity: p.Arity, Args: []int{lz.FactCount(p)}})
	}
	out.Lazy.Est = lz.EstimateFactCount()
	for _, q := range c.Queries {
		ps := ast.PredicateSym{Symbol: decodeHex(q.Sym), Arity: q.Arity}
		var args []ast.BaseTerm
		for k, i := range q.Args {
			if i < 0 {
				args = append(args, ast.Variable{Symbol: fmt.Sprintf("X%d", k)})
			} else {
				args = append(args, consts[i])
			}
		}
		res := []c19Fact{}
		err := lz.GetFacts(ast.Atom{Predicate: ps, Args: args}, func(a ast.Atom) error {
			res = append(res, mkFact(consts, a))
			return nil
		})
		e := ""
		if err != nil {
			e = err.Error()
		}
		out.Lazy.Results = append(out.Lazy.Results, res)
		out.Lazy.QErr = append(out.Lazy.QErr, e)
	}
	for _, p := range a.preds {
		for _, f := range a.facts[p] {
			if !lz.Contains(f) {
				out.Lazy.ContainsAll = false
			}
		}
	}
	return out, nil
}

// c19_env: which repairs of other properties are present in the tree under test.
func runC19Env(json.RawMessage) (any, error) {
	one := ast.Float64(1.0).String()
	return map[string]any{
		"float_integral_has_point": bytes.ContainsAny([]byte(one), ".eE"),
		"float_one":                one,
		"string_cr":                ast.String("a\rb").String(),
		"time_subsecond":           ast.Time(1700000000123456789).String(),
	}, nil
}

func init() {
	hlib.Register("c19", runC19)
	hlib.Register("c19_env", runC19Env)
}
