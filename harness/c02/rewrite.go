//go:build verif

// Runner "c02rw": the rules of one stratum (program text, in order) are handed to
// rewrite.Rewrite; the observable is, for every resulting rule in order, the head
// predicate (symbol, arity), the predicates of its atom premises and whether it
// still carries a do-transform.
//
// Case: {"src": clauses text}
// Out:  {"stage": "ok"|"parse", "rules": [{"head": "r1__tmp", "arity": 2,
//        "body": ["a","b"], "do": false, "npremises": 2}, ...]}
package main

import (
	"encoding/json"
	"strings"

	"codeberg.org/TauCeti/mangle-go/analysis"
	"codeberg.org/TauCeti/mangle-go/ast"
	"codeberg.org/TauCeti/mangle-go/parse"
	"codeberg.org/TauCeti/mangle-go/rewrite"
	"mvharness/hlib"
)

type rwCase struct {
	Src string `json:"src"`
}

type rwRule struct {
	Head      string   `json:"head"`
	Arity     int      `json:"arity"`
	Body      []string `json:"body"`
	Do        bool     `json:"do"`
	NPremises int      `json:"npremises"`
}

type rwOut struct {
	Stage string   `json:"stage"`
	Msg   string   `json:"msg,omitempty"`
	Rules []rwRule `json:"rules"`
}

func runRewrite(in json.RawMessage) (any, error) {
	var c rwCase
	if err := json.Unmarshal(in, &c); err != nil {
		return nil, err
	}
	unit, err := parse.Unit(strings.NewReader(c.Src))
	if err != nil {
		return rwOut{Stage: "parse", Msg: err.Error()}, nil
	}
	idb := map[ast.PredicateSym]struct{}{}
	for _, cl := range unit.Clauses {
		idb[cl.Head.Predicate] = struct{}{}
	}
	got := rewrite.Rewrite(analysis.Program{
		EdbPredicates: map[ast.PredicateSym]struct{}{},
		IdbPredicates: idb,
		Rules:         unit.Clauses,
	})
	out := rwOut{Stage: "ok", Rules: []rwRule{}}
	for _, r := range got.Rules {
		rr := rwRule{Head: r.Head.Predicate.Symbol, Arity: r.Head.Predicate.Arity, Body: []string{},
			Do: r.Transform != nil && !r.Transform.IsLetTransform(), NPremises: len(r.Premises)}
		for _, p := range r.Premises {
			switch a := p.(type) {
			case ast.Atom:
				rr.Body = append(rr.Body, a.Predicate.Symbol)
			case ast.NegAtom:
				rr.Body = append(rr.Body, "!"+a.Atom.Predicate.Symbol)
			}
		}
		out.Rules = append(out.Rules, rr)
	}
	return out, nil
}

func init() { hlib.Register("c02rw", runRewrite) }
