//go:build verif

// Runner "c02" (copied from harness/c01, extended by float and map constants): parse -> analysis.AnalyzeOneUnit -> engine.EvalProgram on every
// requested fact-store kind, with and without WithDeterministicOrder. The
// observable per configuration is the set of facts read back through GetFacts
// (structured JSON, sorted by printed form, internal `*__tmp` predicates
// removed) or an error class. Configurations with identical observables are
// grouped, so the normal output has exactly one group.
//
// Case:  {"src": program text (rules and facts),
//         "pre": text of ground facts that are put into the caller's store
//                before evaluation (for "merged": into the read-only store,
//                for "teeing": into the base store),
//         "stores": ["simple","indexed","multi","array","merged","teeing"],
//         "det": [false,true], "limit": created-fact limit (0 = none),
//         "timeout_ms": wall-clock guard per evaluation}
// Out:   {"stage": "ok"|"parse"|"analysis", "msg": ..,
//         "groups": [{"configs": ["simple/det",..], "err": "", "facts": [...]}, ...]}
package main

import (
	"encoding/json"
	"fmt"
	"math"
	"sort"
	"strings"
	"time"

	"codeberg.org/TauCeti/mangle-go/analysis"
	"codeberg.org/TauCeti/mangle-go/ast"
	"codeberg.org/TauCeti/mangle-go/engine"
	"codeberg.org/TauCeti/mangle-go/factstore"
	"codeberg.org/TauCeti/mangle-go/functional"
	"codeberg.org/TauCeti/mangle-go/parse"
	"mvharness/hlib"
)

type c02Case struct {
	Src       string   `json:"src"`
	Pre       string   `json:"pre"`
	Stores    []string `json:"stores"`
	Det       []bool   `json:"det"`
	Limit     int      `json:"limit"`
	TimeoutMs int      `json:"timeout_ms"`
	// head columns filled by collect / collect_distinct (predicate -> columns): the element
	// order of such a list is not an observable, configurations that differ only there are
	// put into one group (the group reports the facts of its first configuration)
	SortCols map[string][]int `json:"sort_cols"`
}

// groupKey is the printed fact with the lists in the given columns sorted by printed form.
func groupKey(a ast.Atom, cols []int) string {
	if len(cols) == 0 {
		return a.String()
	}
	var sb strings.Builder
	sb.WriteString(a.Predicate.Symbol)
	sb.WriteByte('(')
	for i, t := range a.Args {
		if i > 0 {
			sb.WriteByte(',')
		}
		sorted := false
		for _, c := range cols {
			if c == i {
				if k, ok := t.(ast.Constant); ok && k.Type == ast.ListShape {
					var elems []string
					k.ListValues(func(e ast.Constant) error {
						elems = append(elems, e.String())
						return nil
					}, func() error { return nil })
					sort.Strings(elems)
					sb.WriteString("{" + strings.Join(elems, "\x01") + "}")
					sorted = true
				}
			}
		}
		if !sorted {
			sb.WriteString(t.String())
		}
	}
	sb.WriteByte(')')
	return sb.String()
}

type c02Group struct {
	Configs []string `json:"configs"`
	Err     string   `json:"err"`
	Msg     string   `json:"msg,omitempty"`
	Facts   []any    `json:"facts"`
	key     string
}

type c02Out struct {
	Stage  string     `json:"stage"`
	Msg    string     `json:"msg,omitempty"`
	Groups []c02Group `json:"groups"`
}

// constJSON turns a constant into ["n",5] | ["name","/a"] | ["s","txt"] |
// ["b","bytes"] | ["pair",a,b] | ["list",[..]] | ["f",m,e] | ["map",[[k,v],..]] |
// ["struct",[[k,v],..]] | ["other",printed].
func constJSON(c ast.Constant) any {
	switch c.Type {
	case ast.NumberType:
		return []any{"n", c.NumValue}
	case ast.NameType:
		return []any{"name", c.Symbol}
	case ast.StringType:
		return []any{"s", c.Symbol}
	case ast.BytesType:
		// byte strings (ASCII content in the generated cases): ["b", content]
		return []any{"b", c.Symbol}
	case ast.PairShape:
		a, b, err := c.PairValue()
		if err != nil {
			return []any{"other", c.String()}
		}
		return []any{"pair", constJSON(a), constJSON(b)}
	case ast.Float64Type:
		return floatJSON(c)
	case ast.MapShape:
		entries := []any{}
		c.MapValues(func(k, v ast.Constant) error {
			entries = append(entries, []any{constJSON(k), constJSON(v)})
			return nil
		}, func() error { return nil })
		return []any{"map", entries}
	case ast.StructShape:
		// ["struct", [[label, value], ...]] in the constant's own entry order
		entries := []any{}
		c.StructValues(func(k, v ast.Constant) error {
			entries = append(entries, []any{constJSON(k), constJSON(v)})
			return nil
		}, func() error { return nil })
		return []any{"struct", entries}
	case ast.ListShape:
		elems := []any{}
		c.ListValues(func(e ast.Constant) error {
			elems = append(elems, constJSON(e))
			return nil
		}, func() error { return nil })
		return []any{"list", elems}
	}
	return []any{"other", c.String()}
}

// floatJSON: ["f", m, e] with value = m * 2^e and m odd (or m = e = 0); ["f","nan"],
// ["f","inf"], ["f","-inf"] for the non-finite values.
func floatJSON(c ast.Constant) any {
	f, err := c.Float64Value()
	if err != nil {
		return []any{"other", c.String()}
	}
	switch {
	case math.IsNaN(f):
		return []any{"f", "nan"}
	case math.IsInf(f, 1):
		return []any{"f", "inf"}
	case math.IsInf(f, -1):
		return []any{"f", "-inf"}
	case f == 0:
		return []any{"f", 0, 0}
	}
	frac, exp := math.Frexp(f)
	m := int64(frac * (1 << 53))
	e := exp - 53
	for m%2 == 0 {
		m /= 2
		e++
	}
	return []any{"f", m, e}
}

func factJSON(a ast.Atom) any {
	args := []any{}
	for _, t := range a.Args {
		if c, ok := t.(ast.Constant); ok {
			args = append(args, constJSON(c))
		} else {
			args = append(args, []any{"other", t.String()})
		}
	}
	return map[string]any{"p": a.Predicate.Symbol, "args": args}
}

func errClass(err error) string {
	m := err.Error()
	switch {
	case strings.Contains(m, "fact size limit"):
		return "limit"
	case strings.Contains(m, "stratification"):
		return "stratification"
	}
	return "eval"
}

// newStore builds the caller's store of the given kind holding the `pre` facts.
func newStore(kind string, pre []ast.Atom) (factstore.FactStore, error) {
	var s factstore.FactStore
	switch kind {
	case "simple":
		x := factstore.NewSimpleInMemoryStore()
		s = &x
	case "indexed":
		x := factstore.NewIndexedInMemoryStore()
		s = &x
	case "multi":
		x := factstore.NewMultiIndexedInMemoryStore()
		s = &x
	case "array":
		s = factstore.NewMultiIndexedArrayInMemoryStore()
	case "merged":
		r := factstore.NewSimpleInMemoryStore()
		for _, f := range pre {
			r.Add(f)
		}
		w := factstore.NewSimpleInMemoryStore()
		// always a real MergedStore, also for an empty read store
		return factstore.NewMergedStore([]factstore.ReadOnlyFactStore{&r}, &w), nil
	case "teeing":
		b := factstore.NewSimpleInMemoryStore()
		for _, f := range pre {
			b.Add(f)
		}
		return factstore.NewTeeingStore(&b), nil
	default:
		return nil, fmt.Errorf("unknown store kind %q", kind)
	}
	for _, f := range pre {
		s.Add(f)
	}
	return s, nil
}

func runOneConfig(info *analysis.ProgramInfo, kind string, det bool, pre []ast.Atom, limit int, timeout time.Duration) (g c02Group) {
	return runOneConfigSorted(info, kind, det, pre, limit, timeout, nil)
}

func runOneConfigSorted(info *analysis.ProgramInfo, kind string, det bool, pre []ast.Atom, limit int, timeout time.Duration, sortCols map[string][]int) (g c02Group) {
	store, err := newStore(kind, pre)
	if err != nil {
		return c02Group{Err: "harness", Msg: err.Error()}
	}
	opts := []engine.EvalOption{}
	if limit > 0 {
		opts = append(opts, engine.WithCreatedFactLimit(limit))
	}
	if det {
		opts = append(opts, engine.WithDeterministicOrder())
	}
	type res struct {
		err error
		pan string
	}
	ch := make(chan res, 1)
	go func() {
		defer func() {
			if p := recover(); p != nil {
				ch <- res{pan: fmt.Sprint(p)}
			}
		}()
		ch <- res{err: engine.EvalProgram(info, store, opts...)}
	}()
	select {
	case r := <-ch:
		if r.pan != "" {
			return c02Group{Err: "panic", Msg: r.pan}
		}
		if r.err != nil {
			return c02Group{Err: errClass(r.err), Msg: r.err.Error()}
		}
	case <-time.After(timeout):
		return c02Group{Err: "timeout"}
	}
	seen := map[string]any{}
	gkeys := []string{}
	factstore.GetAllFacts(store, func(a ast.Atom) error {
		if a.Predicate.IsInternalPredicate() {
			return nil
		}
		if _, dup := seen[a.String()]; !dup {
			gkeys = append(gkeys, groupKey(a, sortCols[a.Predicate.Symbol]))
		}
		seen[a.String()] = factJSON(a)
		return nil
	})
	keys := make([]string, 0, len(seen))
	for k := range seen {
		keys = append(keys, k)
	}
	sort.Strings(keys)
	// two rules of one head can emit one collected list in two orders: one entry
	sort.Strings(gkeys)
	gk := gkeys[:0]
	for i, k := range gkeys {
		if i == 0 || k != gkeys[i-1] {
			gk = append(gk, k)
		}
	}
	gkeys = gk
	facts := make([]any, len(keys))
	for i, k := range keys {
		facts[i] = seen[k]
	}
	return c02Group{Facts: facts, key: strings.Join(gkeys, "\n")}
}

func runC02(in json.RawMessage) (any, error) {
	var c c02Case
	if err := json.Unmarshal(in, &c); err != nil {
		return nil, err
	}
	if len(c.Stores) == 0 {
		c.Stores = []string{"simple"}
	}
	if len(c.Det) == 0 {
		c.Det = []bool{true}
	}
	if c.TimeoutMs == 0 {
		c.TimeoutMs = 10000
	}
	unit, err := parse.Unit(strings.NewReader(c.Src))
	if err != nil {
		return c02Out{Stage: "parse", Msg: err.Error()}, nil
	}
	var pre []ast.Atom
	if strings.TrimSpace(c.Pre) != "" {
		pu, err := parse.Unit(strings.NewReader(c.Pre))
		if err != nil {
			return c02Out{Stage: "parse", Msg: "pre: " + err.Error()}, nil
		}
		for _, cl := range pu.Clauses {
			if len(cl.Premises) != 0 {
				return nil, fmt.Errorf("pre must contain facts only: %v", cl)
			}
			f, err := functional.EvalAtom(cl.Head, nil)
			if err != nil {
				return nil, fmt.Errorf("pre fact %v: %v", cl.Head, err)
			}
			pre = append(pre, f)
		}
	}
	// predicates that occur only in the caller's store are declared to the analysis
	extra := map[ast.PredicateSym]ast.Decl{}
	inSrc := map[ast.PredicateSym]bool{}
	for _, cl := range unit.Clauses {
		inSrc[cl.Head.Predicate] = true
	}
	declare := func(p ast.PredicateSym) {
		if !inSrc[p] && !p.IsBuiltin() {
			if _, ok := extra[p]; !ok {
				extra[p] = ast.NewSyntheticDeclFromSym(p)
			}
		}
	}
	for _, f := range pre {
		declare(f.Predicate)
	}
	// an extensional predicate may have no fact at all
	for _, cl := range unit.Clauses {
		for _, pr := range cl.Premises {
			switch a := pr.(type) {
			case ast.Atom:
				declare(a.Predicate)
			case ast.NegAtom:
				declare(a.Atom.Predicate)
			}
		}
	}
	info, err := analysis.AnalyzeOneUnit(unit, extra)
	if err != nil {
		return c02Out{Stage: "analysis", Msg: err.Error()}, nil
	}
	out := c02Out{Stage: "ok"}
	for _, kind := range c.Stores {
		for _, det := range c.Det {
			g := runOneConfigSorted(info, kind, det, pre, c.Limit, time.Duration(c.TimeoutMs)*time.Millisecond, c.SortCols)
			name := kind
			if det {
				name += "/det"
			}
			k := g.Err + "\x00" + g.key
			found := false
			for i := range out.Groups {
				if out.Groups[i].Err+"\x00"+out.Groups[i].key == k {
					out.Groups[i].Configs = append(out.Groups[i].Configs, name)
					found = true
					break
				}
			}
			if !found {
				g.Configs = []string{name}
				if g.Facts == nil {
					g.Facts = []any{}
				}
				out.Groups = append(out.Groups, g)
			}
		}
	}
	return out, nil
}

func init() { hlib.Register("c02", runC02) }
