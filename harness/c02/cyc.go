//go:build verif

// Runner "c02cyc": one program text is taken through parse -> analysis.AnalyzeOneUnit ->
// engine.EvalProgram `rounds` times, every round from the text again (the order in which
// analysis.Stratify walks its maps differs from round to round). The observable is how
// often each stage refused the program and, for the rounds that were evaluated, the
// facts left in a fresh simple store (distinct outcomes with their counts, at most 4).
//
// Case: {"src": text, "rounds": n, "limit": created-fact limit, "timeout_ms": guard}
// Out:  {"stage": "ok"|"parse", "rounds": n, "rej_analysis": k, "rej_strat": k,
//        "other_err": k, "accepted": k, "msg": first refusal text,
//        "outcomes": [{"n": count, "err": "", "facts": [...]}]}
package main

import (
	"encoding/json"
	"strings"
	"time"

	"codeberg.org/TauCeti/mangle-go/analysis"
	"codeberg.org/TauCeti/mangle-go/ast"
	"codeberg.org/TauCeti/mangle-go/parse"
	"mvharness/hlib"
)

type cycCase struct {
	Src       string `json:"src"`
	Rounds    int    `json:"rounds"`
	Limit     int    `json:"limit"`
	TimeoutMs int    `json:"timeout_ms"`
}

type cycOutcome struct {
	N     int    `json:"n"`
	Err   string `json:"err"`
	Msg   string `json:"msg,omitempty"`
	Facts []any  `json:"facts"`
	key   string
}

type cycOut struct {
	Stage       string       `json:"stage"`
	Msg         string       `json:"msg,omitempty"`
	Rounds      int          `json:"rounds"`
	RejAnalysis int          `json:"rej_analysis"`
	RejStrat    int          `json:"rej_strat"`
	OtherErr    int          `json:"other_err"`
	Accepted    int          `json:"accepted"`
	Outcomes    []cycOutcome `json:"outcomes"`
}

func runC02Cyc(in json.RawMessage) (any, error) {
	var c cycCase
	if err := json.Unmarshal(in, &c); err != nil {
		return nil, err
	}
	if c.Rounds <= 0 {
		c.Rounds = 50
	}
	if c.TimeoutMs == 0 {
		c.TimeoutMs = 10000
	}
	out := cycOut{Stage: "ok", Rounds: c.Rounds, Outcomes: []cycOutcome{}}
	for r := 0; r < c.Rounds; r++ {
		unit, err := parse.Unit(strings.NewReader(c.Src))
		if err != nil {
			return cycOut{Stage: "parse", Msg: err.Error()}, nil
		}
		extra := map[ast.PredicateSym]ast.Decl{}
		inSrc := map[ast.PredicateSym]bool{}
		for _, cl := range unit.Clauses {
			inSrc[cl.Head.Predicate] = true
		}
		for _, cl := range unit.Clauses {
			for _, pr := range cl.Premises {
				var p ast.PredicateSym
				switch a := pr.(type) {
				case ast.Atom:
					p = a.Predicate
				case ast.NegAtom:
					p = a.Atom.Predicate
				default:
					continue
				}
				if !inSrc[p] && !p.IsBuiltin() {
					extra[p] = ast.NewSyntheticDeclFromSym(p)
				}
			}
		}
		info, err := analysis.AnalyzeOneUnit(unit, extra)
		if err != nil {
			out.RejAnalysis++
			if out.Msg == "" {
				out.Msg = err.Error()
			}
			continue
		}
		g := runOneConfig(info, "simple", false, nil, c.Limit, time.Duration(c.TimeoutMs)*time.Millisecond)
		switch g.Err {
		case "stratification":
			out.RejStrat++
			if out.Msg == "" {
				out.Msg = g.Msg
			}
			continue
		case "":
			out.Accepted++
		default:
			// evaluated (the stratifier let it through) and failed later
			out.OtherErr++
		}
		k := g.Err + "\x00" + g.key
		found := false
		for i := range out.Outcomes {
			if out.Outcomes[i].key == k {
				out.Outcomes[i].N++
				found = true
				break
			}
		}
		if !found && len(out.Outcomes) < 4 {
			facts := g.Facts
			if facts == nil {
				facts = []any{}
			}
			out.Outcomes = append(out.Outcomes, cycOutcome{N: 1, Err: g.Err, Msg: g.Msg, Facts: facts, key: k})
		}
	}
	return out, nil
}

func init() { hlib.Register("c02cyc", runC02Cyc) }
