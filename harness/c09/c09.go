//go:build verif

// Runners of property C09 (printing then parsing returns the same term, atom
// or clause). Everything runs the real code of package ast, parse, functional.
//
//	c09_const    a constant: String(), the library tables of the model, and the
//	             verdict of the Go round trip parse.BaseTerm + EvalExpr + Equals
//	c09_atom     an atom over constants and variables: String(), round trip by parse.Atom
//	c09_term     a base term with function applications (type expressions, constructor
//	             expressions over variables): round trip by parse.BaseTerm
//	c09_clause   a clause given as a syntax tree: String(), round trip by parse.Clause
//	             and parse.Unit; the library tables and the parsed tree for the clause model
//	c09_clause_text   a text: what parse.Clause makes of it (clause.go)
//	c09_parse    a text: what parse.Unit makes of  m(<text>\n, 0).  or  <text>\n.  (the model parser's counterpart)
//	c09_unescape / c09_escape   ast.Unescape / ast.Escape on a byte string
package main

import (
	"encoding/hex"
	"encoding/json"
	"fmt"
	"math"
	"regexp"
	"strconv"
	"strings"
	"time"

	"codeberg.org/TauCeti/mangle-go/ast"
	"codeberg.org/TauCeti/mangle-go/functional"
	"codeberg.org/TauCeti/mangle-go/parse"
	"mvharness/hlib"
)

// ParseTables: what the library parsers return for the texts a case contains
// (key: hex of the text; value: decimal text of float bits / nanoseconds, or
// null when the library reports an error).
type ParseTables struct {
	F map[string]*string `json:"pf"`
	T map[string]*string `json:"pt"`
	D map[string]*string `json:"pd"`
}

func NewParseTables() *ParseTables {
	return &ParseTables{F: map[string]*string{}, T: map[string]*string{}, D: map[string]*string{}}
}

func (pt *ParseTables) float(text string) {
	k := hex.EncodeToString([]byte(text))
	f, err := strconv.ParseFloat(text, 64)
	if err != nil {
		pt.F[k] = nil
		return
	}
	v := strconv.FormatUint(math.Float64bits(f), 10)
	pt.F[k] = &v
}

func (pt *ParseTables) time(text string) {
	k := hex.EncodeToString([]byte(text))
	tm, err := time.Parse(time.RFC3339, text)
	if err != nil {
		pt.T[k] = nil
		return
	}
	v := strconv.FormatInt(tm.UTC().UnixNano(), 10)
	pt.T[k] = &v
}

func (pt *ParseTables) dur(text string) {
	k := hex.EncodeToString([]byte(text))
	d, err := time.ParseDuration(text)
	if err != nil {
		pt.D[k] = nil
		return
	}
	v := strconv.FormatInt(int64(d), 10)
	pt.D[k] = &v
}

// the texts the printer writes for the floats / times / durations of a term
func (pt *ParseTables) Collect(t jterm) {
	switch t.Kind {
	case "f64":
		u, _ := strconv.ParseUint(t.Text, 10, 64)
		pt.float(ast.FormatFloat64(math.Float64frombits(u)))
	case "time":
		n, _ := strconv.ParseInt(t.Text, 10, 64)
		pt.time(ast.FormatTime(n))
	case "dur":
		n, _ := strconv.ParseInt(t.Text, 10, 64)
		pt.dur(ast.FormatDuration(n))
	}
	for _, k := range t.Kids {
		pt.Collect(k)
	}
	for _, kv := range t.KVs {
		pt.Collect(kv[0])
		pt.Collect(kv[1])
	}
}

var floatAt = regexp.MustCompile(`^-?[0-9]*\.[0-9]+([eE][+-]?[0-9]+)?`)

// every text the lexer can take for a FLOAT token somewhere in s
func (pt *ParseTables) CollectFloatTokens(s string) {
	for i := 0; i < len(s); i++ {
		if m := floatAt.FindString(s[i:]); m != "" {
			pt.float(m)
		}
	}
}

// ---------------------------------------------------------------- comparing
// sameConst: the two constants are the same value by every public observer.
func sameConst(a, b ast.Constant) bool {
	return a.Type == b.Type && a.Equals(b) && b.Equals(a) && a.Hash() == b.Hash() && a.String() == b.String()
}

// sameBase: the parsed base term denotes the original one. A constant may come
// back as a constructor expression; it is compared after evaluation.
func sameBase(orig, got ast.BaseTerm) string {
	switch o := orig.(type) {
	case ast.Constant:
		ev, err := functional.EvalExpr(got, nil)
		if err != nil {
			return fmt.Sprintf("EvalExpr(%v): %v", got, err)
		}
		k, ok := ev.(ast.Constant)
		if !ok {
			return fmt.Sprintf("%v came back as %T %v", o, ev, ev)
		}
		if !sameConst(o, k) {
			return fmt.Sprintf("%v came back as %v", o, k)
		}
		return ""
	case ast.Variable:
		g, ok := got.(ast.Variable)
		if !ok || g.Symbol != o.Symbol {
			return fmt.Sprintf("variable %v came back as %T %v", o, got, got)
		}
		return ""
	case ast.ApplyFn:
		g, ok := got.(ast.ApplyFn)
		if !ok || g.Function.Symbol != o.Function.Symbol || len(g.Args) != len(o.Args) {
			return fmt.Sprintf("%v came back as %T %v", o, got, got)
		}
		for i := range o.Args {
			if why := sameBase(o.Args[i], g.Args[i]); why != "" {
				return why
			}
		}
		if !o.Equals(g) && allPlain(o) {
			return fmt.Sprintf("ApplyFn.Equals(%v, %v) = false", o, g)
		}
		return ""
	}
	return fmt.Sprintf("unexpected base term %T", orig)
}

// no compound constant inside (those come back as expressions, Equals cannot hold)
func allPlain(a ast.ApplyFn) bool {
	for _, x := range a.Args {
		switch v := x.(type) {
		case ast.Constant:
			if v.Type >= ast.TimeType {
				return false
			}
		case ast.ApplyFn:
			if !allPlain(v) {
				return false
			}
		}
	}
	return true
}

func sameAtom(o, g ast.Atom) string {
	if o.Predicate != g.Predicate || len(o.Args) != len(g.Args) {
		return fmt.Sprintf("atom %v came back as %v (%v/%d)", o, g, g.Predicate.Symbol, g.Predicate.Arity)
	}
	for i := range o.Args {
		if why := sameBase(o.Args[i], g.Args[i]); why != "" {
			return why
		}
	}
	return ""
}

func sameBound(o, g ast.TemporalBound) bool { return o == g }

func sameInterval(o, g *ast.Interval) string {
	if (o == nil) != (g == nil) {
		return fmt.Sprintf("interval %v came back as %v", o, g)
	}
	if o == nil {
		return ""
	}
	if !sameBound(o.Start, g.Start) || !sameBound(o.End, g.End) {
		return fmt.Sprintf("interval %#v came back as %#v", *o, *g)
	}
	return ""
}

func samePremise(o, g ast.Term) string {
	switch p := o.(type) {
	case ast.Atom:
		q, ok := g.(ast.Atom)
		if !ok {
			return fmt.Sprintf("atom %v came back as %T %v", o, g, g)
		}
		return sameAtom(p, q)
	case ast.NegAtom:
		q, ok := g.(ast.NegAtom)
		if !ok {
			return fmt.Sprintf("negated atom %v came back as %T %v", o, g, g)
		}
		return sameAtom(p.Atom, q.Atom)
	case ast.Eq:
		q, ok := g.(ast.Eq)
		if !ok {
			return fmt.Sprintf("equality %v came back as %T %v", o, g, g)
		}
		if why := sameBase(p.Left, q.Left); why != "" {
			return why
		}
		return sameBase(p.Right, q.Right)
	case ast.Ineq:
		q, ok := g.(ast.Ineq)
		if !ok {
			return fmt.Sprintf("inequality %v came back as %T %v", o, g, g)
		}
		if why := sameBase(p.Left, q.Left); why != "" {
			return why
		}
		return sameBase(p.Right, q.Right)
	case ast.TemporalLiteral:
		q, ok := g.(ast.TemporalLiteral)
		if !ok {
			return fmt.Sprintf("temporal literal %v came back as %T %v", o, g, g)
		}
		if why := samePremise(p.Literal, q.Literal); why != "" {
			return why
		}
		if (p.Operator == nil) != (q.Operator == nil) {
			return fmt.Sprintf("operator of %v came back as %v", o, g)
		}
		if p.Operator != nil && *p.Operator != *q.Operator {
			return fmt.Sprintf("operator %#v came back as %#v", *p.Operator, *q.Operator)
		}
		return sameInterval(p.Interval, q.Interval)
	}
	return fmt.Sprintf("unexpected premise %T", o)
}

func sameTransform(o, g *ast.Transform) string {
	for o != nil || g != nil {
		if o == nil || g == nil {
			return fmt.Sprintf("transform chain %v came back as %v", o, g)
		}
		if len(o.Statements) != len(g.Statements) {
			return fmt.Sprintf("transform %v came back as %v", *o, *g)
		}
		for i, s := range o.Statements {
			t := g.Statements[i]
			if (s.Var == nil) != (t.Var == nil) || (s.Var != nil && *s.Var != *t.Var) {
				return fmt.Sprintf("transform statement %v came back as %v", s, t)
			}
			if why := sameBase(s.Fn, t.Fn); why != "" {
				return why
			}
		}
		o, g = o.Next, g.Next
	}
	return ""
}

func sameClause(o, g ast.Clause) string {
	if why := sameAtom(o.Head, g.Head); why != "" {
		return "head: " + why
	}
	if why := sameInterval(o.HeadTime, g.HeadTime); why != "" {
		return "head time: " + why
	}
	if (o.Premises == nil) != (g.Premises == nil) || len(o.Premises) != len(g.Premises) {
		return fmt.Sprintf("%d premises came back as %d", len(o.Premises), len(g.Premises))
	}
	for i := range o.Premises {
		if why := samePremise(o.Premises[i], g.Premises[i]); why != "" {
			return fmt.Sprintf("premise %d: %s", i, why)
		}
	}
	if why := sameTransform(o.Transform, g.Transform); why != "" {
		return "transform: " + why
	}
	return ""
}

// ------------------------------------------------------- building from JSON
func hexStr(h string) (string, error) {
	b, err := hex.DecodeString(h)
	return string(b), err
}

// base term: a constant (jterm), ["var", hex], or ["app", hex, [args]]
func buildBase(raw json.RawMessage, ft *LibTables, pt *ParseTables) (ast.BaseTerm, error) {
	var parts []json.RawMessage
	if err := json.Unmarshal(raw, &parts); err != nil || len(parts) < 2 {
		return nil, fmt.Errorf("bad base term %s", raw)
	}
	var kind string
	if err := json.Unmarshal(parts[0], &kind); err != nil {
		return nil, err
	}
	switch kind {
	case "var":
		var h string
		if err := json.Unmarshal(parts[1], &h); err != nil {
			return nil, err
		}
		s, err := hexStr(h)
		return ast.Variable{Symbol: s}, err
	case "app":
		var h string
		if err := json.Unmarshal(parts[1], &h); err != nil {
			return nil, err
		}
		name, err := hexStr(h)
		if err != nil {
			return nil, err
		}
		var rawArgs []json.RawMessage
		if err := json.Unmarshal(parts[2], &rawArgs); err != nil {
			return nil, err
		}
		var args []ast.BaseTerm
		for _, r := range rawArgs {
			a, err := buildBase(r, ft, pt)
			if err != nil {
				return nil, err
			}
			args = append(args, a)
		}
		return ast.ApplyFn{Function: ast.FunctionSym{Symbol: name, Arity: len(args)}, Args: args}, nil
	}
	jt, err := parseJTerm(raw)
	if err != nil {
		return nil, err
	}
	if ft != nil {
		ft.Collect(jt)
	}
	if pt != nil {
		pt.Collect(jt)
	}
	return jt.Const()
}

type jatom struct {
	Sym  string            `json:"sym"`
	Args []json.RawMessage `json:"args"`
}

func buildAtom(a jatom, ft *LibTables, pt *ParseTables) (ast.Atom, error) {
	sym, err := hexStr(a.Sym)
	if err != nil {
		return ast.Atom{}, err
	}
	var args []ast.BaseTerm
	for _, r := range a.Args {
		b, err := buildBase(r, ft, pt)
		if err != nil {
			return ast.Atom{}, err
		}
		args = append(args, b)
	}
	return ast.NewAtom(sym, args...), nil
}

// temporal bound: ["ts", dec] ["dur", dec] ["var", hex] ["neginf"] ["posinf"] ["now"]
func buildBound(j []string) (ast.TemporalBound, error) {
	if len(j) == 0 {
		return ast.TemporalBound{}, fmt.Errorf("empty bound")
	}
	switch j[0] {
	case "ts":
		n, err := strconv.ParseInt(j[1], 10, 64)
		return ast.NewTimestampBound(time.Unix(0, n)), err
	case "dur":
		n, err := strconv.ParseInt(j[1], 10, 64)
		return ast.NewDurationBound(time.Duration(n)), err
	case "var":
		s, err := hexStr(j[1])
		return ast.NewVariableBound(ast.Variable{Symbol: s}), err
	case "neginf":
		return ast.NegativeInfinity(), nil
	case "posinf":
		return ast.PositiveInfinity(), nil
	case "now":
		return ast.Now(), nil
	}
	return ast.TemporalBound{}, fmt.Errorf("bad bound %v", j)
}

func buildInterval(j [][]string) (*ast.Interval, error) {
	if j == nil {
		return nil, nil
	}
	if len(j) != 2 {
		return nil, fmt.Errorf("bad interval")
	}
	a, err := buildBound(j[0])
	if err != nil {
		return nil, err
	}
	b, err := buildBound(j[1])
	if err != nil {
		return nil, err
	}
	iv := ast.NewInterval(a, b)
	return &iv, nil
}

type jprem struct {
	Kind     string          `json:"k"` // atom neg eq ineq temporal
	Atom     *jatom          `json:"atom,omitempty"`
	Left     json.RawMessage `json:"l,omitempty"`
	Right    json.RawMessage `json:"r,omitempty"`
	Negated  bool            `json:"negated,omitempty"` // temporal literal over a negated atom
	Op       *int            `json:"op,omitempty"`      // 0 <- 1 [- 2 <+ 3 [+
	OpBounds [][]string      `json:"opb,omitempty"`
	Interval [][]string      `json:"iv,omitempty"`
}

type jstmt struct {
	Var *string         `json:"var"`
	Fn  json.RawMessage `json:"fn"`
}

type jclause struct {
	Head      jatom       `json:"head"`
	HeadTime  [][]string  `json:"headtime"`
	Premises  []jprem     `json:"premises"` // null = fact
	Transform [][]jstmt   `json:"transform"`
}

func buildPremise(p jprem, ft *LibTables, pt *ParseTables) (ast.Term, error) {
	switch p.Kind {
	case "atom", "neg", "temporal":
		a, err := buildAtom(*p.Atom, ft, pt)
		if err != nil {
			return nil, err
		}
		if p.Kind == "atom" {
			return a, nil
		}
		if p.Kind == "neg" {
			return ast.NegAtom{Atom: a}, nil
		}
		var lit ast.Term = a
		if p.Negated {
			lit = ast.NegAtom{Atom: a}
		}
		tl := ast.TemporalLiteral{Literal: lit}
		if p.Op != nil {
			iv, err := buildInterval(p.OpBounds)
			if err != nil {
				return nil, err
			}
			tl.Operator = &ast.TemporalOperator{Type: ast.TemporalOperatorType(*p.Op), Interval: *iv}
		}
		iv, err := buildInterval(p.Interval)
		if err != nil {
			return nil, err
		}
		tl.Interval = iv
		return tl, nil
	case "eq", "ineq":
		l, err := buildBase(p.Left, ft, pt)
		if err != nil {
			return nil, err
		}
		r, err := buildBase(p.Right, ft, pt)
		if err != nil {
			return nil, err
		}
		if p.Kind == "eq" {
			return ast.Eq{Left: l, Right: r}, nil
		}
		return ast.Ineq{Left: l, Right: r}, nil
	}
	return nil, fmt.Errorf("bad premise kind %q", p.Kind)
}

func buildClause(j jclause, ft *LibTables, pt *ParseTables) (ast.Clause, error) {
	head, err := buildAtom(j.Head, ft, pt)
	if err != nil {
		return ast.Clause{}, err
	}
	ht, err := buildInterval(j.HeadTime)
	if err != nil {
		return ast.Clause{}, err
	}
	var prem []ast.Term
	if j.Premises != nil {
		prem = []ast.Term{}
		for _, p := range j.Premises {
			t, err := buildPremise(p, ft, pt)
			if err != nil {
				return ast.Clause{}, err
			}
			prem = append(prem, t)
		}
	}
	c := ast.NewTemporalClause(head, ht, prem)
	var last *ast.Transform
	for _, stmts := range j.Transform {
		t := &ast.Transform{}
		for _, s := range stmts {
			fn, err := buildBase(s.Fn, ft, pt)
			if err != nil {
				return ast.Clause{}, err
			}
			app, ok := fn.(ast.ApplyFn)
			if !ok {
				return ast.Clause{}, fmt.Errorf("transform statement needs a function application")
			}
			st := ast.TransformStmt{Fn: app}
			if s.Var != nil {
				v, err := hexStr(*s.Var)
				if err != nil {
					return ast.Clause{}, err
				}
				st.Var = &ast.Variable{Symbol: v}
			}
			t.Statements = append(t.Statements, st)
		}
		if last == nil {
			c.Transform = t
		} else {
			last.Next = t
		}
		last = t
	}
	return c, nil
}

// ------------------------------------------------- what the parser returned
func leafJ(c ast.Constant) (any, bool) {
	switch c.Type {
	case ast.NameType:
		return []any{"name", hex.EncodeToString([]byte(c.Symbol))}, true
	case ast.StringType:
		return []any{"str", hex.EncodeToString([]byte(c.Symbol))}, true
	case ast.BytesType:
		return []any{"bytes", hex.EncodeToString([]byte(c.Symbol))}, true
	case ast.NumberType:
		return []any{"num", strconv.FormatInt(c.NumValue, 10)}, true
	case ast.Float64Type:
		return []any{"f64", strconv.FormatUint(uint64(c.NumValue), 10)}, true
	}
	return nil, false
}

func termJ(t ast.Term) (any, bool) {
	switch v := t.(type) {
	case ast.Variable:
		return []any{"var", hex.EncodeToString([]byte(v.Symbol))}, true
	case ast.Constant:
		return leafJ(v)
	case ast.ApplyFn:
		args := []any{}
		for _, a := range v.Args {
			j, ok := termJ(a)
			if !ok {
				return nil, false
			}
			args = append(args, j)
		}
		return []any{"app", hex.EncodeToString([]byte(v.Function.Symbol)), args}, true
	case ast.Atom:
		args := []any{}
		for _, a := range v.Args {
			j, ok := termJ(a)
			if !ok {
				return nil, false
			}
			args = append(args, j)
		}
		return []any{"app", hex.EncodeToString([]byte(v.Predicate.Symbol)), args}, true
	}
	return nil, false
}

type constOut struct {
	S      string       `json:"s"`
	Tables *LibTables   `json:"tables"`
	PTab   *ParseTables `json:"ptab"`
	RT     string       `json:"rt"` // "" = the Go round trip holds
	Tree   any          `json:"tree,omitempty"` // c09_clause: the clause parse.Clause read from S (clauseJ)
}

func init() {
	hlib.Register("c09_const", func(in json.RawMessage) (any, error) {
		var c struct {
			Term json.RawMessage `json:"term"`
		}
		if err := json.Unmarshal(in, &c); err != nil {
			return nil, err
		}
		out := constOut{Tables: NewLibTables(), PTab: NewParseTables()}
		b, err := buildBase(c.Term, out.Tables, out.PTab)
		if err != nil {
			return nil, err
		}
		k := b.(ast.Constant)
		s := k.String()
		out.S = hex.EncodeToString([]byte(s))
		got, err := parse.BaseTerm(s)
		if err != nil {
			out.RT = "parse.BaseTerm: " + err.Error()
			return out, nil
		}
		out.RT = sameBase(k, got)
		if out.RT == "" {
			// parse.Term must read the same thing
			t2, err := parse.Term(s)
			if err != nil {
				out.RT = "parse.Term: " + err.Error()
			} else if b2, ok := t2.(ast.BaseTerm); !ok {
				out.RT = fmt.Sprintf("parse.Term returned %T", t2)
			} else {
				out.RT = sameBase(k, b2)
			}
		}
		return out, nil
	})

	hlib.Register("c09_atom", func(in json.RawMessage) (any, error) {
		var a jatom
		if err := json.Unmarshal(in, &a); err != nil {
			return nil, err
		}
		out := constOut{Tables: NewLibTables(), PTab: NewParseTables()}
		atom, err := buildAtom(a, out.Tables, out.PTab)
		if err != nil {
			return nil, err
		}
		s := atom.String()
		out.S = hex.EncodeToString([]byte(s))
		got, err := parse.Atom(s)
		if err != nil {
			out.RT = "parse.Atom: " + err.Error()
			return out, nil
		}
		out.RT = sameAtom(atom, got)
		if out.RT == "" {
			// the same atom as a fact and as a negated premise
			cl := ast.NewClause(atom, []ast.Term{ast.NegAtom{Atom: atom}})
			got, err := parse.Clause(cl.String())
			if err != nil {
				out.RT = "parse.Clause(" + cl.String() + "): " + err.Error()
			} else {
				out.RT = sameClause(cl, got)
			}
		}
		return out, nil
	})

	hlib.Register("c09_term", func(in json.RawMessage) (any, error) {
		var c struct {
			Term json.RawMessage `json:"term"`
		}
		if err := json.Unmarshal(in, &c); err != nil {
			return nil, err
		}
		out := constOut{}
		b, err := buildBase(c.Term, nil, nil)
		if err != nil {
			return nil, err
		}
		s := b.String()
		out.S = hex.EncodeToString([]byte(s))
		got, err := parse.BaseTerm(s)
		if err != nil {
			out.RT = "parse.BaseTerm: " + err.Error()
			return out, nil
		}
		out.RT = sameBase(b, got)
		return out, nil
	})

	hlib.Register("c09_clause", func(in json.RawMessage) (any, error) {
		var j jclause
		if err := json.Unmarshal(in, &j); err != nil {
			return nil, err
		}
		out := constOut{Tables: NewLibTables(), PTab: NewParseTables()}
		cl, err := buildClause(j, out.Tables, out.PTab)
		if err != nil {
			return nil, err
		}
		s := cl.String()
		out.S = hex.EncodeToString([]byte(s))
		got, err := parse.Clause(s)
		if err != nil {
			out.RT = "parse.Clause: " + err.Error()
			return out, nil
		}
		// what the parser returned, for the parser model (clause.go)
		out.Tree = clauseJ(got)
		out.RT = sameClause(cl, got)
		if out.RT != "" {
			return out, nil
		}
		unit, err := parse.Unit(strings.NewReader(s + "\n" + s))
		if err != nil {
			out.RT = "parse.Unit: " + err.Error()
			return out, nil
		}
		if len(unit.Clauses) != 2 {
			out.RT = fmt.Sprintf("parse.Unit: %d clauses instead of 2", len(unit.Clauses))
			return out, nil
		}
		for _, u := range unit.Clauses {
			if why := sameClause(cl, u); why != "" {
				out.RT = "parse.Unit: " + why
			}
		}
		return out, nil
	})

	hlib.Register("c09_parse", func(in json.RawMessage) (any, error) {
		var c struct {
			Text string `json:"text"`
		}
		if err := json.Unmarshal(in, &c); err != nil {
			return nil, err
		}
		text, err := hexStr(c.Text)
		if err != nil {
			return nil, err
		}
		type res struct {
			Tree   any          `json:"tree"` // null = rejected
			TermOK bool         `json:"term_ok"`
			PTab   *ParseTables `json:"ptab"`
		}
		out := res{PTab: NewParseTables()}
		out.PTab.CollectFloatTokens(text)
		if _, err := parse.Term(text); err == nil {
			out.TermOK = true
		}
		// a base term as the argument of a fact m(...); an atom as a fact of its own
		// (a second argument, so that a trailing comma of the text is not absorbed by the argument list)
		unit, err := parse.Unit(strings.NewReader("m(" + text + "\n, 0)."))
		if err == nil && len(unit.Clauses) == 1 && len(unit.Decls) == 1 {
			cl := unit.Clauses[0]
			if cl.Head.Predicate.Symbol == "m" && len(cl.Head.Args) == 2 && cl.Head.Args[1].Equals(ast.Number(0)) && cl.Premises == nil && cl.HeadTime == nil && cl.Transform == nil {
				if j, ok := termJ(cl.Head.Args[0]); ok {
					out.Tree = j
				}
			}
			return out, nil
		}
		unit, err = parse.Unit(strings.NewReader(text + "\n."))
		if err == nil && len(unit.Clauses) == 1 && len(unit.Decls) == 1 {
			cl := unit.Clauses[0]
			if cl.Premises == nil && cl.HeadTime == nil && cl.Transform == nil {
				if j, ok := termJ(cl.Head); ok {
					out.Tree = j
				}
			}
		}
		return out, nil
	})

	unesc := func(escape bool) hlib.Runner {
		return func(in json.RawMessage) (any, error) {
			var c struct {
				Text  string `json:"text"`
				Bytes bool   `json:"bytes"`
			}
			if err := json.Unmarshal(in, &c); err != nil {
				return nil, err
			}
			text, err := hexStr(c.Text)
			if err != nil {
				return nil, err
			}
			var r string
			if escape {
				r, err = ast.Escape(text, c.Bytes)
			} else {
				r, err = ast.Unescape(text, c.Bytes)
			}
			if err != nil {
				return map[string]any{"ok": false, "why": err.Error()}, nil
			}
			return map[string]any{"ok": true, "r": hex.EncodeToString([]byte(r))}, nil
		}
	}
	hlib.Register("c09_unescape", unesc(false))
	hlib.Register("c09_escape", unesc(true))
}
