//go:build verif

// Clause level of C09 for the Coq clause model (coq/Serde/Clause.v, ClauseParse.v):
// the tree parse.Clause returned, as JSON.
//
//	{"head": ["app", hex, [args]],
//	 "prem": null | [["atom", app] | ["neg", app] | ["eq", l, r] | ["ineq", l, r]],
//	 "trans": [[{"var": hex | null, "fn": app}]],
//	 "unsup": "why"}        set when the clause holds something the model does not have
//	                         (HeadTime, TemporalLiteral)
//
//	c09_clause_text   {"text": hex} -> {"tree": clauseJ | null (parse.Unit does not read exactly one clause), "ptab": ...}
package main

import (
	"encoding/hex"
	"encoding/json"
	"fmt"
	"strings"

	"codeberg.org/TauCeti/mangle-go/ast"
	"codeberg.org/TauCeti/mangle-go/parse"
	"mvharness/hlib"
)

type clauseTree struct {
	Head  any     `json:"head"`
	Prem  []any   `json:"prem"`
	Trans [][]any `json:"trans"`
	Unsup string  `json:"unsup,omitempty"`
}

func clauseJ(c ast.Clause) clauseTree {
	out := clauseTree{Trans: [][]any{}}
	bad := func(why string) clauseTree { return clauseTree{Trans: [][]any{}, Unsup: why} }
	h, ok := termJ(c.Head)
	if !ok {
		return bad("head argument")
	}
	out.Head = h
	if c.HeadTime != nil {
		return bad("head time")
	}
	if c.Premises != nil {
		out.Prem = []any{}
	}
	for _, p := range c.Premises {
		switch v := p.(type) {
		case ast.Atom:
			j, ok := termJ(v)
			if !ok {
				return bad("atom argument")
			}
			out.Prem = append(out.Prem, []any{"atom", j})
		case ast.NegAtom:
			j, ok := termJ(v.Atom)
			if !ok {
				return bad("atom argument")
			}
			out.Prem = append(out.Prem, []any{"neg", j})
		case ast.Eq:
			l, ok1 := termJ(v.Left)
			r, ok2 := termJ(v.Right)
			if !ok1 || !ok2 {
				return bad("equality side")
			}
			out.Prem = append(out.Prem, []any{"eq", l, r})
		case ast.Ineq:
			l, ok1 := termJ(v.Left)
			r, ok2 := termJ(v.Right)
			if !ok1 || !ok2 {
				return bad("inequality side")
			}
			out.Prem = append(out.Prem, []any{"ineq", l, r})
		default:
			return bad(fmt.Sprintf("premise %T", p))
		}
	}
	for t := c.Transform; t != nil; t = t.Next {
		stage := []any{}
		for _, s := range t.Statements {
			fn, ok := termJ(s.Fn)
			if !ok {
				return bad("transform argument")
			}
			var v any
			if s.Var != nil {
				v = hex.EncodeToString([]byte(s.Var.Symbol))
			}
			stage = append(stage, map[string]any{"var": v, "fn": fn})
		}
		out.Trans = append(out.Trans, stage)
	}
	return out
}

func init() {
	hlib.Register("c09_clause_text", func(in json.RawMessage) (any, error) {
		var c struct {
			Text string `json:"text"`
		}
		if err := json.Unmarshal(in, &c); err != nil {
			return nil, err
		}
		text, err := hexStr(c.Text)
		if err != nil {
			return nil, err
		}
		type res struct {
			Tree *clauseTree  `json:"tree"` // null = rejected
			Why  string       `json:"why,omitempty"`
			PTab *ParseTables `json:"ptab"`
			// parse.Unit accepted the text as one clause and parse.Clause did not read the same
			ClauseDiffers string `json:"clause_differs,omitempty"`
		}
		out := res{PTab: NewParseTables()}
		out.PTab.CollectFloatTokens(text)
		// the whole text must be one clause: parse.Unit requires the end of input (parse.Clause
		// stops after the final '.')
		unit, err := parse.Unit(strings.NewReader(text))
		if err != nil {
			out.Why = err.Error()
			return out, nil
		}
		if len(unit.Clauses) != 1 || len(unit.Decls) != 1 {
			out.Why = fmt.Sprintf("%d clauses, %d decls", len(unit.Clauses), len(unit.Decls))
			return out, nil
		}
		t := clauseJ(unit.Clauses[0])
		out.Tree = &t
		// parse.Clause on the same text must read the same clause
		if cl, err := parse.Clause(text); err != nil {
			out.ClauseDiffers = "parse.Clause: " + err.Error()
		} else if a, b := fmt.Sprintf("%#v", clauseJ(cl)), fmt.Sprintf("%#v", t); a != b {
			out.ClauseDiffers = "parse.Clause read " + a + ", parse.Unit " + b
		}
		return out, nil
	})
}
