//go:build verif

// Reusable by other property harnesses (copy the file): builds ast.Constant
// values from the JSON term encoding written by checks/term_common.py.
//
//	["name", hex] ["str", hex] ["bytes", hex]           hex of the raw bytes
//	["num", "dec"] ["time", "dec"] ["dur", "dec"]        int64 as decimal text
//	["f64", "dec"]                                       uint64 bit pattern as decimal text
//	["pair", t, t] ["list", [t...]]
//	["map", [[k, v]...]] ["struct", [[k, v]...]]         entries in the order supplied
package main

import (
	"encoding/hex"
	"encoding/json"
	"fmt"
	"math"
	"strconv"
	"time"

	"codeberg.org/TauCeti/mangle-go/ast"
	"codeberg.org/TauCeti/mangle-go/functional"
	"codeberg.org/TauCeti/mangle-go/symbols"
)

type jterm struct {
	Kind string
	Text string       // scalar payload
	Kids []jterm      // pair (2), list
	KVs  [][2]jterm   // map, struct
}

func parseJTerm(raw json.RawMessage) (jterm, error) {
	var parts []json.RawMessage
	if err := json.Unmarshal(raw, &parts); err != nil || len(parts) < 2 {
		return jterm{}, fmt.Errorf("bad term %s", raw)
	}
	var t jterm
	if err := json.Unmarshal(parts[0], &t.Kind); err != nil {
		return jterm{}, err
	}
	switch t.Kind {
	case "name", "str", "bytes", "num", "time", "dur", "f64", "var":
		if err := json.Unmarshal(parts[1], &t.Text); err != nil {
			return jterm{}, err
		}
	case "pair":
		if len(parts) != 3 {
			return jterm{}, fmt.Errorf("bad pair %s", raw)
		}
		for _, p := range parts[1:] {
			k, err := parseJTerm(p)
			if err != nil {
				return jterm{}, err
			}
			t.Kids = append(t.Kids, k)
		}
	case "list":
		var kids []json.RawMessage
		if err := json.Unmarshal(parts[1], &kids); err != nil {
			return jterm{}, err
		}
		for _, p := range kids {
			k, err := parseJTerm(p)
			if err != nil {
				return jterm{}, err
			}
			t.Kids = append(t.Kids, k)
		}
	case "map", "struct":
		var kvs [][2]json.RawMessage
		if err := json.Unmarshal(parts[1], &kvs); err != nil {
			return jterm{}, err
		}
		for _, kv := range kvs {
			k, err := parseJTerm(kv[0])
			if err != nil {
				return jterm{}, err
			}
			v, err := parseJTerm(kv[1])
			if err != nil {
				return jterm{}, err
			}
			t.KVs = append(t.KVs, [2]jterm{k, v})
		}
	default:
		return jterm{}, fmt.Errorf("unknown kind %q", t.Kind)
	}
	return t, nil
}

func (t jterm) scalar() (ast.Constant, bool, error) {
	switch t.Kind {
	case "name":
		b, err := hex.DecodeString(t.Text)
		if err != nil {
			return ast.Constant{}, true, err
		}
		c, err := ast.Name(string(b))
		return c, true, err
	case "str":
		b, err := hex.DecodeString(t.Text)
		return ast.String(string(b)), true, err
	case "bytes":
		b, err := hex.DecodeString(t.Text)
		return ast.Bytes(b), true, err
	case "num", "time", "dur":
		n, err := strconv.ParseInt(t.Text, 10, 64)
		if err != nil {
			return ast.Constant{}, true, err
		}
		switch t.Kind {
		case "num":
			return ast.Number(n), true, nil
		case "time":
			return ast.Time(n), true, nil
		}
		return ast.Duration(n), true, nil
	case "f64":
		u, err := strconv.ParseUint(t.Text, 10, 64)
		return ast.Float64(math.Float64frombits(u)), true, err
	}
	return ast.Constant{}, false, nil
}

// Const builds the constant through the public constructors of package ast.
func (t jterm) Const() (ast.Constant, error) {
	if c, ok, err := t.scalar(); ok {
		return c, err
	}
	switch t.Kind {
	case "pair":
		a, err := t.Kids[0].Const()
		if err != nil {
			return ast.Constant{}, err
		}
		b, err := t.Kids[1].Const()
		if err != nil {
			return ast.Constant{}, err
		}
		return ast.Pair(&a, &b), nil
	case "list":
		elems := make([]ast.Constant, 0, len(t.Kids))
		for _, k := range t.Kids {
			c, err := k.Const()
			if err != nil {
				return ast.Constant{}, err
			}
			elems = append(elems, c)
		}
		return ast.List(elems), nil
	case "map", "struct":
		m := make(map[*ast.Constant]*ast.Constant)
		for _, kv := range t.KVs {
			k, err := kv[0].Const()
			if err != nil {
				return ast.Constant{}, err
			}
			v, err := kv[1].Const()
			if err != nil {
				return ast.Constant{}, err
			}
			m[&k] = &v
		}
		if t.Kind == "map" {
			return *ast.Map(m), nil
		}
		return *ast.Struct(m), nil
	}
	return ast.Constant{}, fmt.Errorf("not a constant: %q", t.Kind)
}

// Expr builds a constructor expression (fn:pair, fn:list, fn:map, fn:struct
// applied to constants) that functional.EvalExpr evaluates to the constant.
func (t jterm) Expr() (ast.BaseTerm, error) {
	if c, ok, err := t.scalar(); ok {
		return c, err
	}
	var args []ast.BaseTerm
	add := func(k jterm) error {
		e, err := k.Expr()
		if err != nil {
			return err
		}
		args = append(args, e)
		return nil
	}
	for _, k := range t.Kids {
		if err := add(k); err != nil {
			return nil, err
		}
	}
	for _, kv := range t.KVs {
		if err := add(kv[0]); err != nil {
			return nil, err
		}
		if err := add(kv[1]); err != nil {
			return nil, err
		}
	}
	switch t.Kind {
	case "pair":
		return ast.ApplyFn{Function: symbols.Pair, Args: args}, nil
	case "list":
		return ast.ApplyFn{Function: symbols.List, Args: args}, nil
	case "map":
		return ast.ApplyFn{Function: symbols.Map, Args: args}, nil
	case "struct":
		return ast.ApplyFn{Function: symbols.Struct, Args: args}, nil
	}
	return nil, fmt.Errorf("not a constant: %q", t.Kind)
}

// Eval builds the constant by evaluating its constructor expression.
func (t jterm) Eval() (ast.Constant, error) {
	e, err := t.Expr()
	if err != nil {
		return ast.Constant{}, err
	}
	r, err := functional.EvalExpr(e, nil)
	if err != nil {
		return ast.Constant{}, err
	}
	c, ok := r.(ast.Constant)
	if !ok {
		return ast.Constant{}, fmt.Errorf("EvalExpr returned %T", r)
	}
	return c, nil
}

// LibTables collects, for every float / time / duration in the term, what the
// Go library formats it to (strconv, time): the per-case oracle tables of the
// Coq model. Keys: float = uint64 bits, time / duration = int64, as decimal text.
type LibTables struct {
	F map[string]string `json:"f"`
	T map[string]string `json:"t"`
	D map[string]string `json:"d"`
}

func NewLibTables() *LibTables {
	return &LibTables{F: map[string]string{}, T: map[string]string{}, D: map[string]string{}}
}

func (lt *LibTables) Collect(t jterm) {
	switch t.Kind {
	case "f64":
		u, _ := strconv.ParseUint(t.Text, 10, 64)
		lt.F[t.Text] = hex.EncodeToString([]byte(strconv.FormatFloat(math.Float64frombits(u), 'f', -1, 64)))
	case "time":
		n, _ := strconv.ParseInt(t.Text, 10, 64)
		lt.T[t.Text] = hex.EncodeToString([]byte(time.Unix(0, n).UTC().Format(time.RFC3339Nano)))
	case "dur":
		n, _ := strconv.ParseInt(t.Text, 10, 64)
		lt.D[t.Text] = hex.EncodeToString([]byte(time.Duration(n).String()))
	}
	for _, k := range t.Kids {
		lt.Collect(k)
	}
	for _, kv := range t.KVs {
		lt.Collect(kv[0])
		lt.Collect(kv[1])
	}
}
