//go:build verif

// Package tyjson converts the JSON encoding of type expressions and constants
// used by checks/types_common.py to the ast of mangle and back. Shared by the
// C12 and C11 harnesses.
//
//	type:  ["c","/number"] | ["sing",CONST] | ["pair",T,T] | ["tuple",[T..]] | ["list",T]
//	       | ["map",T,T] | ["struct",[[key,T]..],[[key,T]..]] (required, optional)
//	       | ["union",[T..]] | ["tagged",tag,[[vtag,STRUCT]..]]
//	const: ["name",s] | ["str",s] | ["bytes",s] | ["num",n] | ["float",bits] | ["time",n] | ["dur",n]
//	       | ["pair",C,C] | ["list",[C..]] | ["map",[[C,C]..]] | ["struct",[[C,C]..]]
package tyjson

import (
	"encoding/json"
	"fmt"
	"math"

	"codeberg.org/TauCeti/mangle-go/ast"
	"codeberg.org/TauCeti/mangle-go/symbols"
)

func parts(raw json.RawMessage) (string, []json.RawMessage, error) {
	var a []json.RawMessage
	if err := json.Unmarshal(raw, &a); err != nil {
		return "", nil, fmt.Errorf("not an array: %s", raw)
	}
	if len(a) == 0 {
		return "", nil, fmt.Errorf("empty array")
	}
	var k string
	if err := json.Unmarshal(a[0], &k); err != nil {
		return "", nil, err
	}
	return k, a[1:], nil
}

func str(raw json.RawMessage) (string, error) {
	var s string
	err := json.Unmarshal(raw, &s)
	return s, err
}

func i64(raw json.RawMessage) (int64, error) {
	var n int64
	err := json.Unmarshal(raw, &n)
	return n, err
}

func list(raw json.RawMessage) ([]json.RawMessage, error) {
	var a []json.RawMessage
	err := json.Unmarshal(raw, &a)
	return a, err
}

// Const decodes a constant. Lists, maps and structs are built cell by cell in
// the given order (ast.ListCons, ast.MapCons, ast.StructCons).
func Const(raw json.RawMessage) (ast.Constant, error) {
	k, a, err := parts(raw)
	if err != nil {
		return ast.Constant{}, err
	}
	switch k {
	case "name":
		s, err := str(a[0])
		if err != nil {
			return ast.Constant{}, err
		}
		return ast.Name(s)
	case "str":
		s, err := str(a[0])
		return ast.String(s), err
	case "bytes":
		s, err := str(a[0])
		return ast.Bytes([]byte(s)), err
	case "num":
		n, err := i64(a[0])
		return ast.Number(n), err
	case "float":
		n, err := i64(a[0])
		return ast.Float64(math.Float64frombits(uint64(n))), err
	case "time":
		n, err := i64(a[0])
		return ast.Time(n), err
	case "dur":
		n, err := i64(a[0])
		return ast.Duration(n), err
	case "pair":
		x, err := Const(a[0])
		if err != nil {
			return ast.Constant{}, err
		}
		y, err := Const(a[1])
		if err != nil {
			return ast.Constant{}, err
		}
		return ast.Pair(&x, &y), nil
	case "list":
		es, err := list(a[0])
		if err != nil {
			return ast.Constant{}, err
		}
		res := ast.ListNil
		for i := len(es) - 1; i >= 0; i-- {
			e, err := Const(es[i])
			if err != nil {
				return ast.Constant{}, err
			}
			rest := res
			res = ast.ListCons(&e, &rest)
		}
		return res, nil
	case "map", "struct":
		es, err := list(a[0])
		if err != nil {
			return ast.Constant{}, err
		}
		res := ast.MapNil
		if k == "struct" {
			res = ast.StructNil
		}
		for i := len(es) - 1; i >= 0; i-- {
			kv, err := list(es[i])
			if err != nil || len(kv) != 2 {
				return ast.Constant{}, fmt.Errorf("bad entry %s", es[i])
			}
			key, err := Const(kv[0])
			if err != nil {
				return ast.Constant{}, err
			}
			val, err := Const(kv[1])
			if err != nil {
				return ast.Constant{}, err
			}
			rest := res
			if k == "struct" {
				res = ast.StructCons(&key, &val, &rest)
			} else {
				res = ast.MapCons(&key, &val, &rest)
			}
		}
		return res, nil
	}
	return ast.Constant{}, fmt.Errorf("unknown constant kind %q", k)
}

func fields(raw json.RawMessage, opt bool) ([]ast.BaseTerm, error) {
	fs, err := list(raw)
	if err != nil {
		return nil, err
	}
	var out []ast.BaseTerm
	for _, f := range fs {
		kv, err := list(f)
		if err != nil || len(kv) != 2 {
			return nil, fmt.Errorf("bad field %s", f)
		}
		ks, err := str(kv[0])
		if err != nil {
			return nil, err
		}
		key, err := ast.Name(ks)
		if err != nil {
			return nil, err
		}
		t, err := Type(kv[1])
		if err != nil {
			return nil, err
		}
		if opt {
			out = append(out, symbols.NewOpt(key, t))
		} else {
			out = append(out, key, t)
		}
	}
	return out, nil
}

// Type decodes a type expression (required struct fields first, then the optional ones).
func Type(raw json.RawMessage) (ast.BaseTerm, error) {
	k, a, err := parts(raw)
	if err != nil {
		return nil, err
	}
	many := func(raw json.RawMessage) ([]ast.BaseTerm, error) {
		es, err := list(raw)
		if err != nil {
			return nil, err
		}
		out := make([]ast.BaseTerm, 0, len(es))
		for _, e := range es {
			t, err := Type(e)
			if err != nil {
				return nil, err
			}
			out = append(out, t)
		}
		return out, nil
	}
	switch k {
	case "c":
		s, err := str(a[0])
		if err != nil {
			return nil, err
		}
		return ast.Name(s)
	case "sing":
		c, err := Const(a[0])
		if err != nil {
			return nil, err
		}
		return symbols.NewSingletonType(c), nil
	case "pair", "map":
		x, err := Type(a[0])
		if err != nil {
			return nil, err
		}
		y, err := Type(a[1])
		if err != nil {
			return nil, err
		}
		if k == "pair" {
			return symbols.NewPairType(x, y), nil
		}
		return symbols.NewMapType(x, y), nil
	case "list":
		x, err := Type(a[0])
		if err != nil {
			return nil, err
		}
		return symbols.NewListType(x), nil
	case "tuple":
		ts, err := many(a[0])
		if err != nil {
			return nil, err
		}
		return symbols.NewTupleType(ts...), nil
	case "union":
		ts, err := many(a[0])
		if err != nil {
			return nil, err
		}
		return symbols.NewUnionType(ts...), nil
	case "struct":
		req, err := fields(a[0], false)
		if err != nil {
			return nil, err
		}
		opt, err := fields(a[1], true)
		if err != nil {
			return nil, err
		}
		return symbols.NewStructType(append(req, opt...)...), nil
	case "tagged":
		ts, err := str(a[0])
		if err != nil {
			return nil, err
		}
		tag, err := ast.Name(ts)
		if err != nil {
			return nil, err
		}
		vs, err := list(a[1])
		if err != nil {
			return nil, err
		}
		var args []ast.BaseTerm
		for _, v := range vs {
			kv, err := list(v)
			if err != nil || len(kv) != 2 {
				return nil, fmt.Errorf("bad variant %s", v)
			}
			vts, err := str(kv[0])
			if err != nil {
				return nil, err
			}
			vtag, err := ast.Name(vts)
			if err != nil {
				return nil, err
			}
			vt, err := Type(kv[1])
			if err != nil {
				return nil, err
			}
			args = append(args, vtag, vt)
		}
		return symbols.NewTaggedUnionType(tag, args...), nil
	}
	return nil, fmt.Errorf("unknown type kind %q", k)
}

// OutConst encodes a constant.
func OutConst(c ast.Constant) (any, error) {
	switch c.Type {
	case ast.NameType:
		return []any{"name", c.Symbol}, nil
	case ast.StringType:
		return []any{"str", c.Symbol}, nil
	case ast.BytesType:
		return []any{"bytes", c.Symbol}, nil
	case ast.NumberType:
		return []any{"num", c.NumValue}, nil
	case ast.Float64Type:
		return []any{"float", c.NumValue}, nil
	case ast.TimeType:
		return []any{"time", c.NumValue}, nil
	case ast.DurationType:
		return []any{"dur", c.NumValue}, nil
	case ast.PairShape:
		x, y, _ := c.PairValue()
		a, err := OutConst(x)
		if err != nil {
			return nil, err
		}
		b, err := OutConst(y)
		if err != nil {
			return nil, err
		}
		return []any{"pair", a, b}, nil
	case ast.ListShape:
		es := []any{}
		var ierr error
		c.ListValues(func(e ast.Constant) error {
			o, err := OutConst(e)
			if err != nil {
				ierr = err
			}
			es = append(es, o)
			return nil
		}, func() error { return nil })
		return []any{"list", es}, ierr
	case ast.MapShape, ast.StructShape:
		es := []any{}
		var ierr error
		cb := func(k, v ast.Constant) error {
			a, err := OutConst(k)
			if err != nil {
				ierr = err
			}
			b, err := OutConst(v)
			if err != nil {
				ierr = err
			}
			es = append(es, []any{a, b})
			return nil
		}
		if c.Type == ast.MapShape {
			c.MapValues(cb, func() error { return nil })
			return []any{"map", es}, ierr
		}
		c.StructValues(cb, func() error { return nil })
		return []any{"struct", es}, ierr
	}
	return nil, fmt.Errorf("unknown constant type %d", c.Type)
}

// OutType encodes a closed first-order type expression.
func OutType(t ast.BaseTerm) (any, error) {
	switch t := t.(type) {
	case ast.Constant:
		if t.Type != ast.NameType {
			return nil, fmt.Errorf("type constant %v is not a name", t)
		}
		return []any{"c", t.Symbol}, nil
	case ast.ApplyFn:
		many := func(args []ast.BaseTerm) ([]any, error) {
			out := []any{}
			for _, a := range args {
				o, err := OutType(a)
				if err != nil {
					return nil, err
				}
				out = append(out, o)
			}
			return out, nil
		}
		switch t.Function.Symbol {
		case symbols.SingletonType.Symbol:
			c, ok := t.Args[0].(ast.Constant)
			if !ok {
				return nil, fmt.Errorf("singleton of non-constant %v", t)
			}
			o, err := OutConst(c)
			return []any{"sing", o}, err
		case symbols.PairType.Symbol, symbols.MapType.Symbol:
			as, err := many(t.Args)
			if err != nil {
				return nil, err
			}
			if len(as) != 2 {
				return nil, fmt.Errorf("arity of %v", t)
			}
			k := "pair"
			if t.Function.Symbol == symbols.MapType.Symbol {
				k = "map"
			}
			return []any{k, as[0], as[1]}, nil
		case symbols.ListType.Symbol:
			as, err := many(t.Args)
			if err != nil || len(as) != 1 {
				return nil, fmt.Errorf("list type %v: %v", t, err)
			}
			return []any{"list", as[0]}, nil
		case symbols.TupleType.Symbol:
			as, err := many(t.Args)
			return []any{"tuple", as}, err
		case symbols.UnionType.Symbol:
			as, err := many(t.Args)
			return []any{"union", as}, err
		case symbols.StructType.Symbol:
			req, opt := []any{}, []any{}
			seenOpt := false
			for i := 0; i < len(t.Args); i++ {
				if symbols.IsOptional(t.Args[i]) {
					seenOpt = true
					f := t.Args[i].(ast.ApplyFn)
					if len(f.Args) != 2 {
						return nil, fmt.Errorf("bad fn:opt in %v", t)
					}
					key, ok := f.Args[0].(ast.Constant)
					if !ok {
						return nil, fmt.Errorf("bad fn:opt key in %v", t)
					}
					o, err := OutType(f.Args[1])
					if err != nil {
						return nil, err
					}
					opt = append(opt, []any{key.Symbol, o})
					continue
				}
				if seenOpt {
					return nil, fmt.Errorf("required field after optional one in %v (not canonical)", t)
				}
				key, ok := t.Args[i].(ast.Constant)
				if !ok || i+1 >= len(t.Args) {
					return nil, fmt.Errorf("bad struct type %v", t)
				}
				i++
				o, err := OutType(t.Args[i])
				if err != nil {
					return nil, err
				}
				req = append(req, []any{key.Symbol, o})
			}
			return []any{"struct", req, opt}, nil
		case symbols.TaggedUnionType.Symbol:
			tag, ok := t.Args[0].(ast.Constant)
			if !ok || len(t.Args)%2 != 1 {
				return nil, fmt.Errorf("bad tagged union %v", t)
			}
			vs := []any{}
			for i := 1; i < len(t.Args); i += 2 {
				vtag, ok := t.Args[i].(ast.Constant)
				if !ok {
					return nil, fmt.Errorf("bad tagged union %v", t)
				}
				o, err := OutType(t.Args[i+1])
				if err != nil {
					return nil, err
				}
				vs = append(vs, []any{vtag.Symbol, o})
			}
			return []any{"tagged", tag.Symbol, vs}, nil
		}
	}
	return nil, fmt.Errorf("type expression outside the modelled fragment: %v", t)
}

// UnionClosure appends t and, if t is a union, the closure of its members.
// These are the only expressions that can become elements of the list that
// UpperBound sorts by Hash() when it is applied to (bounds of) such types.
func UnionClosure(t ast.BaseTerm, out *[]ast.BaseTerm) {
	*out = append(*out, t)
	if a, ok := t.(ast.ApplyFn); ok && a.Function.Symbol == symbols.UnionType.Symbol {
		for _, arg := range a.Args {
			UnionClosure(arg, out)
		}
	}
}
