//go:build verif

// Harness of property C12: runs symbols.SetConforms / TypeConforms /
// UpperBound / LowerBound / TypeHandle.HasType of the real code on a group
// (pool of types, universe of constants, index lists for the bounds).
package main

import (
	"encoding/json"
	"fmt"
	"sort"

	"codeberg.org/TauCeti/mangle-go/ast"
	"codeberg.org/TauCeti/mangle-go/symbols"
	"mvharness/c12/tyjson"
	"mvharness/hlib"
)

type group struct {
	Tys    []json.RawMessage `json:"tys"`
	Consts []json.RawMessage `json:"consts"`
	Lists  [][]int           `json:"lists"`
	Pairs  bool              `json:"pairs"`
}

type boundOut struct {
	UB    any    `json:"ub"`
	LB    any    `json:"lb"`
	MUB   []bool `json:"mub"`
	MLB   []bool `json:"mlb"`
	Panic string `json:"panic,omitempty"`
}

type groupOut struct {
	Mem    [][]bool   `json:"mem"`
	SC     [][]int    `json:"sc"`
	TC     [][]int    `json:"tc"`
	Rank   []any      `json:"rank"`
	Bounds []boundOut `json:"bounds"`
	Text   []string   `json:"text"`
}

// answer: 0 false, 1 true, 2 the call panicked
func safe(f func() bool) (res int) {
	defer func() {
		if p := recover(); p != nil {
			res = 2
		}
	}()
	if f() {
		return 1
	}
	return 0
}

// members evaluates HasType of t on every constant. fn:Union() (EmptyType) is
// returned by the bounds but is not a well-formed type; it has no handle and
// no members.
func members(t ast.BaseTerm, consts []ast.Constant) ([]bool, error) {
	out := make([]bool, len(consts))
	if t.Equals(symbols.EmptyType) {
		return out, nil
	}
	h, err := symbols.NewSetHandle(t)
	if err != nil {
		return nil, fmt.Errorf("not well-formed: %v: %w", t, err)
	}
	for i, c := range consts {
		out[i] = h.HasType(c)
	}
	return out, nil
}

func runGroup(in json.RawMessage) (any, error) {
	var g group
	if err := json.Unmarshal(in, &g); err != nil {
		return nil, err
	}
	tys := make([]ast.BaseTerm, len(g.Tys))
	for i, r := range g.Tys {
		t, err := tyjson.Type(r)
		if err != nil {
			return nil, err
		}
		tys[i] = t
	}
	consts := make([]ast.Constant, len(g.Consts))
	for i, r := range g.Consts {
		c, err := tyjson.Const(r)
		if err != nil {
			return nil, err
		}
		consts[i] = c
	}
	out := groupOut{Rank: []any{}, Bounds: []boundOut{}}
	for _, t := range tys {
		m, err := members(t, consts)
		if err != nil {
			return nil, err
		}
		out.Mem = append(out.Mem, m)
		out.Text = append(out.Text, t.String())
	}
	if g.Pairs {
		for _, s := range tys {
			rowS, rowT := make([]int, len(tys)), make([]int, len(tys))
			for j, t := range tys {
				s, t := s, t
				rowS[j] = safe(func() bool { return symbols.SetConforms(nil, s, t) })
				rowT[j] = safe(func() bool { return symbols.TypeConforms(nil, s, t) })
			}
			out.SC = append(out.SC, rowS)
			out.TC = append(out.TC, rowT)
		}
	}
	if len(g.Lists) > 0 {
		// the pool types and their union members in the order of sort.Slice by Hash()
		var subs []ast.BaseTerm
		for _, t := range tys {
			tyjson.UnionClosure(t, &subs)
		}
		seen := map[string]bool{}
		var uniq []ast.BaseTerm
		for _, s := range subs {
			if k := s.String(); !seen[k] {
				seen[k] = true
				uniq = append(uniq, s)
			}
		}
		sort.SliceStable(uniq, func(i, j int) bool { return uniq[i].Hash() < uniq[j].Hash() })
		for _, s := range uniq {
			o, err := tyjson.OutType(s)
			if err != nil {
				return nil, err
			}
			out.Rank = append(out.Rank, o)
		}
	}
	for _, idx := range g.Lists {
		args := make([]ast.BaseTerm, len(idx))
		for k, i := range idx {
			args[k] = tys[i]
		}
		var b boundOut
		err := func() (err error) {
			defer func() {
				if p := recover(); p != nil {
					b = boundOut{Panic: fmt.Sprint(p)}
				}
			}()
			// the bounds must not modify their argument
			ub := symbols.UpperBound(nil, append([]ast.BaseTerm(nil), args...))
			lb := symbols.LowerBound(nil, append([]ast.BaseTerm(nil), args...))
			if b.UB, err = tyjson.OutType(ub); err != nil {
				return err
			}
			if b.LB, err = tyjson.OutType(lb); err != nil {
				return err
			}
			if b.MUB, err = members(ub, consts); err != nil {
				return err
			}
			b.MLB, err = members(lb, consts)
			return err
		}()
		if err != nil {
			return nil, err
		}
		out.Bounds = append(out.Bounds, b)
	}
	return out, nil
}

func main() {
	hlib.Register("c12_group", runGroup)
	hlib.Main()
}
