//go:build verif

// Runner "c11": the observation the property names.
//
//	parse -> analysis.AnalyzeAndCheckBounds(.., NoBoundsChecking)      (must pass, otherwise stage "analysis")
//	      -> analysis.AnalyzeAndCheckBounds(.., ErrorForBoundsMismatch) (stage "reject" on error)
//	      -> engine.EvalProgram (created-fact limit, wall-clock guard) on a store holding the `pre` facts
//	      -> builtin.TypeChecker.CheckTypeBounds on every stored fact of every predicate
//	         that has a user-written (non-synthetic) declaration.
//
// Case: {"src": program text with declarations, rules and base facts,
//
//	"pre": text of ground facts put into the store before evaluation,
//	"limit": created-fact limit, "timeout_ms": guard}
//
// Out:  {"stage": "parse"|"analysis"|"reject"|"ok", "msg": ..,
//
//	"eval": ""|"limit"|"eval"|"timeout"|"panic", "evalmsg": ..,
//	"pre_bad": [pre facts that do not pass CheckTypeBounds themselves; they are NOT stored],
//	"checked": number of facts judged, "by_pred": {"p3": n},
//	"bad": [{"fact": text, "pred": "p3", "err": message}] (first 8)}
package main

import (
	"encoding/json"
	"fmt"
	"sort"
	"strings"
	"time"

	"codeberg.org/TauCeti/mangle-go/analysis"
	"codeberg.org/TauCeti/mangle-go/ast"
	"codeberg.org/TauCeti/mangle-go/builtin"
	"codeberg.org/TauCeti/mangle-go/engine"
	"codeberg.org/TauCeti/mangle-go/factstore"
	"codeberg.org/TauCeti/mangle-go/functional"
	"codeberg.org/TauCeti/mangle-go/parse"
	"mvharness/hlib"
)

type c11Case struct {
	Src       string `json:"src"`
	Pre       string `json:"pre"`
	Limit     int    `json:"limit"`
	TimeoutMs int    `json:"timeout_ms"`
}

type c11Bad struct {
	Fact string `json:"fact"`
	Pred string `json:"pred"`
	Err  string `json:"err"`
}

type c11Out struct {
	Stage   string         `json:"stage"`
	Msg     string         `json:"msg,omitempty"`
	Eval    string         `json:"eval"`
	EvalMsg string         `json:"evalmsg,omitempty"`
	PreBad  []string       `json:"pre_bad"`
	Checked int            `json:"checked"`
	Derived int            `json:"derived"`
	ByPred  map[string]int `json:"by_pred"`
	Bad     []c11Bad       `json:"bad"`
	NBad    int            `json:"nbad"`
}

func runC11(in json.RawMessage) (any, error) {
	var c c11Case
	if err := json.Unmarshal(in, &c); err != nil {
		return nil, err
	}
	if c.TimeoutMs == 0 {
		c.TimeoutMs = 10000
	}
	if c.Limit == 0 {
		c.Limit = 20000
	}
	out := c11Out{PreBad: []string{}, Bad: []c11Bad{}, ByPred: map[string]int{}}
	unit, err := parse.Unit(strings.NewReader(c.Src))
	if err != nil {
		out.Stage, out.Msg = "parse", err.Error()
		return out, nil
	}
	var pre []ast.Atom
	if strings.TrimSpace(c.Pre) != "" {
		pu, err := parse.Unit(strings.NewReader(c.Pre))
		if err != nil {
			out.Stage, out.Msg = "parse", "pre: "+err.Error()
			return out, nil
		}
		for _, cl := range pu.Clauses {
			if len(cl.Premises) != 0 {
				return nil, fmt.Errorf("pre must contain facts only: %v", cl)
			}
			f, err := functional.EvalAtom(cl.Head, nil)
			if err != nil {
				return nil, fmt.Errorf("pre fact %v: %v", cl.Head, err)
			}
			pre = append(pre, f)
		}
	}
	units := []parse.SourceUnit{unit}
	if _, err := analysis.AnalyzeAndCheckBounds(units, nil, analysis.NoBoundsChecking); err != nil {
		out.Stage, out.Msg = "analysis", err.Error()
		return out, nil
	}
	// parse again: the analysis must not see anything the first pass touched
	unit2, err := parse.Unit(strings.NewReader(c.Src))
	if err != nil {
		return nil, err
	}
	info, err := analysis.AnalyzeAndCheckBounds([]parse.SourceUnit{unit2}, nil, analysis.ErrorForBoundsMismatch)
	if err != nil {
		out.Stage, out.Msg = "reject", err.Error()
		return out, nil
	}
	out.Stage = "ok"
	checker := builtin.NewTypeCheckerFromDesugared(info.Decls)
	declared := func(p ast.PredicateSym) bool {
		d, ok := info.Decls[p]
		return ok && !d.IsSynthetic()
	}
	store := factstore.NewSimpleInMemoryStore()
	preSet := map[string]bool{}
	for _, f := range pre {
		if declared(f.Predicate) {
			if err := checker.CheckTypeBounds(f); err != nil {
				// the caller's facts must conform to the declarations of the
				// extensional predicates: a candidate that does not is left out
				out.PreBad = append(out.PreBad, f.String())
				continue
			}
		}
		preSet[f.String()] = true
		store.Add(f)
	}
	type res struct {
		err error
		pan string
	}
	ch := make(chan res, 1)
	go func() {
		defer func() {
			if p := recover(); p != nil {
				ch <- res{pan: fmt.Sprint(p)}
			}
		}()
		ch <- res{err: engine.EvalProgram(info, &store, engine.WithCreatedFactLimit(c.Limit), engine.WithDeterministicOrder())}
	}()
	select {
	case r := <-ch:
		if r.pan != "" {
			out.Eval, out.EvalMsg = "panic", r.pan
		} else if r.err != nil {
			out.EvalMsg = r.err.Error()
			if strings.Contains(out.EvalMsg, "fact size limit") {
				out.Eval = "limit"
			} else {
				out.Eval = "eval"
			}
		}
	case <-time.After(time.Duration(c.TimeoutMs) * time.Millisecond):
		out.Eval = "timeout"
		return out, nil // the store is still being written to
	}
	// whatever was stored (also before a limit / an evaluation error) is subject to the guarantee
	var facts []ast.Atom
	factstore.GetAllFacts(&store, func(a ast.Atom) error {
		facts = append(facts, a)
		return nil
	})
	sort.Slice(facts, func(i, j int) bool { return facts[i].String() < facts[j].String() })
	for _, f := range facts {
		if !declared(f.Predicate) {
			continue
		}
		out.Checked++
		if !preSet[f.String()] {
			out.Derived++
		}
		out.ByPred[f.Predicate.Symbol]++
		if err := checker.CheckTypeBounds(f); err != nil {
			out.NBad++
			if len(out.Bad) < 8 {
				out.Bad = append(out.Bad, c11Bad{Fact: f.String(), Pred: f.Predicate.Symbol, Err: err.Error()})
			}
		}
	}
	return out, nil
}

func init() { hlib.Register("c11", runC11) }
