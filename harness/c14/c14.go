//go:build verif

package main

import (
	"encoding/json"
	"fmt"
	"sort"
	"strings"
	"time"

	"codeberg.org/TauCeti/mangle-go/analysis"
	"codeberg.org/TauCeti/mangle-go/ast"
	"codeberg.org/TauCeti/mangle-go/builtin"
	"codeberg.org/TauCeti/mangle-go/engine"
	"codeberg.org/TauCeti/mangle-go/factstore"
	"codeberg.org/TauCeti/mangle-go/parse"
	"codeberg.org/TauCeti/mangle-go/unionfind"
	"mvharness/hlib"
)

// tagged JSON values: ["c",n] name /c<n>, ["n",z] number, ["t",z] time,
// ["v",id] variable V<id>, ["w"] wildcard;
// bounds: ["ts",z] ["-inf"] ["+inf"] ["now"] ["dur",z] ["var",id]
type jv []json.RawMessage

func (v jv) tag() string {
	var k string
	json.Unmarshal(v[0], &k)
	return k
}
func (v jv) num() int64 {
	var n int64
	if err := json.Unmarshal(v[1], &n); err != nil {
		panic(err)
	}
	return n
}

func mkTerm(v jv) ast.BaseTerm {
	switch v.tag() {
	case "c":
		c, err := ast.Name(fmt.Sprintf("/c%d", v.num()))
		if err != nil {
			panic(err)
		}
		return c
	case "n":
		return ast.Number(v.num())
	case "t":
		return ast.Time(v.num())
	case "v":
		return ast.Variable{Symbol: fmt.Sprintf("V%d", v.num())}
	case "w":
		return ast.Variable{Symbol: "_"}
	}
	panic("bad term " + v.tag())
}

func mkBound(v jv) ast.TemporalBound {
	switch v.tag() {
	case "ts":
		return ast.TemporalBound{Type: ast.TimestampBound, Timestamp: v.num()}
	case "-inf":
		return ast.NegativeInfinity()
	case "+inf":
		return ast.PositiveInfinity()
	case "now":
		return ast.Now()
	case "dur":
		return ast.NewDurationBound(time.Duration(v.num()))
	case "var":
		return ast.NewVariableBound(ast.Variable{Symbol: fmt.Sprintf("V%d", v.num())})
	}
	panic("bad bound " + v.tag())
}

func mkIv(b []jv) ast.Interval { return ast.NewInterval(mkBound(b[0]), mkBound(b[1])) }

func outBound(b ast.TemporalBound) []any {
	switch b.Type {
	case ast.TimestampBound:
		return []any{"ts", b.Timestamp}
	case ast.NegativeInfinityBound:
		return []any{"-inf"}
	case ast.PositiveInfinityBound:
		return []any{"+inf"}
	}
	return []any{fmt.Sprintf("other%d", b.Type)}
}

func outConst(t ast.BaseTerm) []any {
	c, ok := t.(ast.Constant)
	if !ok {
		return []any{"nonground", t.String()}
	}
	switch c.Type {
	case ast.NameType:
		var n int64
		if _, err := fmt.Sscanf(c.Symbol, "/c%d", &n); err == nil {
			return []any{"c", n}
		}
		return []any{"name", c.Symbol}
	case ast.NumberType:
		return []any{"n", c.NumValue}
	case ast.TimeType:
		return []any{"t", c.NumValue}
	}
	return []any{"other", c.String()}
}

type jFact struct {
	P    int  `json:"p"`
	Args []jv `json:"args"`
	Iv   []jv `json:"iv"`
}
type jPrem struct {
	Op   *string `json:"op"`
	W    []jv    `json:"w"`
	P    int     `json:"p"`
	Args []jv    `json:"args"`
	Ann  []jv    `json:"ann"`
}
type jRule struct {
	P    int     `json:"p"`
	Args []jv    `json:"args"`
	Ht   []jv    `json:"ht"`
	Prem []jPrem `json:"prem"`
}
type jProg struct {
	Now      int64          `json:"now"`
	Coalesce bool           `json:"coalesce"`
	Limit    int            `json:"limit"`
	Temporal map[string]int `json:"temporal"` // predicate id -> arity, declared temporal
	Edb      []jFact        `json:"edb"`
	Rules    []jRule        `json:"rules"`
	Repeat   int            `json:"repeat"`
}

type outFact struct {
	P    string  `json:"p"`
	Args [][]any `json:"args"`
	Iv   []any   `json:"iv"` // nil = plain fact
}

func pname(p int) string { return fmt.Sprintf("p%d", p) }

func mkAtom(p int, args []jv) ast.Atom {
	ts := make([]ast.BaseTerm, len(args))
	for i, a := range args {
		ts[i] = mkTerm(a)
	}
	return ast.NewAtom(pname(p), ts...)
}

var opTypes = map[string]ast.TemporalOperatorType{
	"dm": ast.DiamondMinus, "bm": ast.BoxMinus, "dp": ast.DiamondPlus, "bp": ast.BoxPlus}

func mkClause(r jRule) ast.Clause {
	var prems []ast.Term
	for _, p := range r.Prem {
		tl := ast.TemporalLiteral{Literal: mkAtom(p.P, p.Args)}
		if p.Op != nil {
			// the operator interval is stored as written (the parser does not go
			// through NewInterval either for [d1, d2])
			tl.Operator = &ast.TemporalOperator{Type: opTypes[*p.Op],
				Interval: ast.Interval{Start: mkBound(p.W[0]), End: mkBound(p.W[1])}}
		}
		if p.Ann != nil {
			iv := mkIv(p.Ann)
			tl.Interval = &iv
		}
		prems = append(prems, tl)
	}
	head := mkAtom(r.P, r.Args)
	if r.Ht != nil {
		iv := mkIv(r.Ht)
		return ast.NewTemporalClause(head, &iv, prems)
	}
	return ast.NewClause(head, prems)
}

func collect(store *factstore.TemporalStore, plain factstore.FactStore, heads map[string]int) []outFact {
	res := []outFact{}
	for name, arity := range heads {
		q := ast.NewQuery(ast.PredicateSym{Symbol: name, Arity: arity})
		store.GetAllFacts(q, func(tf factstore.TemporalFact) error {
			f := outFact{P: name, Iv: []any{outBound(tf.Interval.Start), outBound(tf.Interval.End)}}
			for _, a := range tf.Atom.Args {
				f.Args = append(f.Args, outConst(a))
			}
			res = append(res, f)
			return nil
		})
		if plain != nil {
			plain.GetFacts(q, func(a ast.Atom) error {
				f := outFact{P: name}
				for _, x := range a.Args {
					f.Args = append(f.Args, outConst(x))
				}
				res = append(res, f)
				return nil
			})
		}
	}
	for i := range res {
		if res[i].Args == nil {
			res[i].Args = [][]any{}
		}
	}
	sort.Slice(res, func(i, j int) bool {
		a, _ := json.Marshal(res[i])
		b, _ := json.Marshal(res[j])
		return string(a) < string(b)
	})
	return res
}

func declsFor(temporal map[string]int) ([]ast.Decl, error) {
	var sb strings.Builder
	keys := make([]string, 0, len(temporal))
	for k := range temporal {
		keys = append(keys, k)
	}
	sort.Strings(keys)
	for _, k := range keys {
		vars := make([]string, temporal[k])
		for i := range vars {
			vars[i] = fmt.Sprintf("A%d", i)
		}
		fmt.Fprintf(&sb, "Decl p%s(%s) temporal.\n", k, strings.Join(vars, ", "))
	}
	unit, err := parse.Unit(strings.NewReader(sb.String()))
	if err != nil {
		return nil, err
	}
	return unit.Decls, nil
}

// evalOnce builds the store and program from the case and evaluates it with
// the real engine. The outcome is a map with "facts" or "aerr"/"eerr".
func evalOnce(c jProg) (map[string]any, error) {
	store := factstore.NewTemporalStore()
	preds := map[string]ast.PredicateSym{}
	for _, f := range c.Edb {
		a := mkAtom(f.P, f.Args)
		preds[a.Predicate.Symbol] = a.Predicate
		if _, err := store.Add(a, mkIv(f.Iv)); err != nil {
			return nil, fmt.Errorf("edb add: %v", err)
		}
	}
	out := map[string]any{}
	if c.Coalesce {
		for _, p := range preds {
			if err := store.Coalesce(p); err != nil {
				return nil, err
			}
		}
		all := map[string]int{}
		for _, p := range preds {
			all[p.Symbol] = p.Arity
		}
		out["edb"] = collect(store, nil, all)
	}
	decls, err := declsFor(c.Temporal)
	if err != nil {
		return nil, err
	}
	var clauses []ast.Clause
	heads := map[string]int{}
	for _, r := range c.Rules {
		cl := mkClause(r)
		clauses = append(clauses, cl)
		heads[cl.Head.Predicate.Symbol] = cl.Head.Predicate.Arity
	}
	info, err := analysis.AnalyzeOneUnit(parse.SourceUnit{Decls: decls, Clauses: clauses}, nil)
	if err != nil {
		out["aerr"] = err.Error()
		return out, nil
	}
	plain := factstore.NewSimpleInMemoryStore()
	opts := []engine.EvalOption{engine.WithTemporalStore(store), engine.WithEvaluationTime(time.Unix(0, c.Now))}
	if c.Limit > 0 {
		opts = append(opts, engine.WithCreatedFactLimit(c.Limit))
	}
	done := make(chan error, 1)
	go func() {
		defer func() {
			if p := recover(); p != nil {
				done <- fmt.Errorf("panic: %v", p)
			}
		}()
		done <- engine.EvalProgram(info, plain, opts...)
	}()
	select {
	case err := <-done:
		if err != nil {
			out["eerr"] = err.Error()
			return out, nil
		}
	case <-time.After(5 * time.Second):
		out["timeout"] = true
		return out, nil
	}
	out["facts"] = collect(store, plain, heads)
	out["count"] = store.EstimateFactCount()
	return out, nil
}

func init() {
	// one program; with "repeat" > 1 the evaluation is repeated and the distinct
	// outcomes are reported (map-order dependence probe)
	hlib.Register("c14_prog", func(in json.RawMessage) (any, error) {
		var c jProg
		if err := json.Unmarshal(in, &c); err != nil {
			return nil, err
		}
		if c.Repeat <= 1 {
			return evalOnce(c)
		}
		seen := map[string]bool{}
		var outs []any
		for i := 0; i < c.Repeat; i++ {
			o, err := evalOnce(c)
			if err != nil {
				return nil, err
			}
			b, _ := json.Marshal(o)
			if !seen[string(b)] {
				seen[string(b)] = true
				outs = append(outs, o)
			}
		}
		return map[string]any{"distinct": outs}, nil
	})

	// program text through the parser; facts are initial facts of the program
	hlib.Register("c14_text", func(in json.RawMessage) (any, error) {
		var c struct {
			Now   int64          `json:"now"`
			Src   string         `json:"src"`
			Heads map[string]int `json:"heads"`
		}
		if err := json.Unmarshal(in, &c); err != nil {
			return nil, err
		}
		out := map[string]any{}
		unit, err := parse.Unit(strings.NewReader(c.Src))
		if err != nil {
			out["perr"] = err.Error()
			return out, nil
		}
		info, err := analysis.AnalyzeOneUnit(unit, nil)
		if err != nil {
			out["aerr"] = err.Error()
			return out, nil
		}
		store := factstore.NewTemporalStore()
		plain := factstore.NewSimpleInMemoryStore()
		err = engine.EvalProgram(info, plain, engine.WithTemporalStore(store),
			engine.WithEvaluationTime(time.Unix(0, c.Now)))
		if err != nil {
			out["eerr"] = err.Error()
			return out, nil
		}
		out["facts"] = collect(store, plain, c.Heads)
		return out, nil
	})

	// interval relations through builtin.Decide: {"rel": ":interval:before",
	// "kind": "n"|"t", "pairs": [[s1,e1,s2,e2],...]} -> list of verdicts
	// (true/false, or an error text)
	hlib.Register("c14_allen", func(in json.RawMessage) (any, error) {
		var c struct {
			Rel   string    `json:"rel"`
			Kind  string    `json:"kind"`
			Pairs [][]int64 `json:"pairs"`
		}
		if err := json.Unmarshal(in, &c); err != nil {
			return nil, err
		}
		mk := func(z int64) ast.Constant {
			if c.Kind == "t" {
				return ast.Time(z)
			}
			return ast.Number(z)
		}
		var res []any
		for _, p := range c.Pairs {
			a, b, x, y := mk(p[0]), mk(p[1]), mk(p[2]), mk(p[3])
			atom := ast.NewAtom(c.Rel, ast.Pair(&a, &b), ast.Pair(&x, &y))
			uf := unionfind.New()
			ok, _, err := builtin.Decide(atom, &uf)
			if err != nil {
				res = append(res, err.Error())
			} else {
				res = append(res, ok)
			}
		}
		return res, nil
	})
}
