//go:build verif

package main

import (
	"encoding/json"
	"errors"
	"fmt"
	"sort"
	"time"

	"codeberg.org/TauCeti/mangle-go/ast"
	"codeberg.org/TauCeti/mangle-go/factstore"
	"mvharness/hlib"
)

// JSON shapes shared by the temporal runners.
type jBound []json.RawMessage // ["ts", n] | ["-inf"] | ["+inf"]
type jAtom struct {
	P    int   `json:"p"`
	Args []int `json:"args"`
}

func mkBound(b jBound) ast.TemporalBound {
	var k string
	json.Unmarshal(b[0], &k)
	switch k {
	case "ts":
		var n int64
		json.Unmarshal(b[1], &n)
		return ast.TemporalBound{Type: ast.TimestampBound, Timestamp: n}
	case "-inf":
		return ast.NegativeInfinity()
	case "+inf":
		return ast.PositiveInfinity()
	}
	panic("bad bound " + k)
}

func outBound(b ast.TemporalBound) []any {
	switch b.Type {
	case ast.TimestampBound:
		return []any{"ts", b.Timestamp}
	case ast.NegativeInfinityBound:
		return []any{"-inf"}
	case ast.PositiveInfinityBound:
		return []any{"+inf"}
	}
	return []any{fmt.Sprintf("other%d", b.Type)}
}

func mkIv(b []jBound) ast.Interval { return ast.Interval{Start: mkBound(b[0]), End: mkBound(b[1])} }
func outIv(i ast.Interval) []any   { return []any{outBound(i.Start), outBound(i.End)} }

func mkAtom(a jAtom) ast.Atom {
	args := make([]ast.BaseTerm, len(a.Args))
	for i, c := range a.Args {
		args[i] = ast.Number(int64(c))
	}
	return ast.NewAtom(fmt.Sprintf("p%d", a.P), args...)
}

// pattern: args nil-able
type jPat struct {
	P    int    `json:"p"`
	Args []*int `json:"args"`
}

func mkPat(a jPat) ast.Atom {
	args := make([]ast.BaseTerm, len(a.Args))
	for i, c := range a.Args {
		if c == nil {
			args[i] = ast.Variable{Symbol: fmt.Sprintf("X%d", i)}
		} else {
			args[i] = ast.Number(int64(*c))
		}
	}
	return ast.NewAtom(fmt.Sprintf("p%d", a.P), args...)
}

func outAtom(a ast.Atom) (jAtom, error) {
	var p int
	if _, err := fmt.Sscanf(a.Predicate.Symbol, "p%d", &p); err != nil {
		return jAtom{}, err
	}
	out := jAtom{P: p, Args: []int{}}
	for _, t := range a.Args {
		c, ok := t.(ast.Constant)
		if !ok {
			return jAtom{}, fmt.Errorf("non-constant arg %v", t)
		}
		n, err := c.NumberValue()
		if err != nil {
			return jAtom{}, err
		}
		out.Args = append(out.Args, int(n))
	}
	return out, nil
}

type c13Op struct {
	Op   string   `json:"op"`
	Atom *jAtom   `json:"atom,omitempty"`
	Pat  *jPat    `json:"pat,omitempty"`
	Iv   []jBound `json:"iv,omitempty"`
	T    int64    `json:"t,omitempty"`
	P    int      `json:"p,omitempty"`
}

type c13Case struct {
	Limit int     `json:"limit"`
	Ops   []c13Op `json:"ops"`
}

func collectTF(res *[]any) func(factstore.TemporalFact) error {
	return func(tf factstore.TemporalFact) error {
		a, err := outAtom(tf.Atom)
		if err != nil {
			return err
		}
		*res = append(*res, []any{a, outIv(tf.Interval)})
		return nil
	}
}

func init() {
	hlib.Register("c13", func(in json.RawMessage) (any, error) {
		var c c13Case
		if err := json.Unmarshal(in, &c); err != nil {
			return nil, err
		}
		st := factstore.NewTemporalStore(factstore.WithMaxIntervalsPerAtom(c.Limit))
		outs := make([]any, 0, len(c.Ops))
		for _, o := range c.Ops {
			switch o.Op {
			case "add":
				ok, err := st.Add(mkAtom(*o.Atom), mkIv(o.Iv))
				code := 1
				if err != nil {
					code = 2
					if errors.Is(err, factstore.ErrIntervalLimitExceeded) {
						code = 3
					}
					if ok {
						code = 99 // (true, err) is never a legal answer
					}
				} else if ok {
					code = 0
				}
				outs = append(outs, code)
			case "at":
				res := []any{}
				if err := st.GetFactsAt(mkPat(*o.Pat), time.Unix(0, o.T), collectTF(&res)); err != nil {
					return nil, err
				}
				outs = append(outs, res)
			case "during":
				res := []any{}
				if err := st.GetFactsDuring(mkPat(*o.Pat), mkIv(o.Iv), collectTF(&res)); err != nil {
					return nil, err
				}
				outs = append(outs, res)
			case "all":
				res := []any{}
				if err := st.GetAllFacts(mkPat(*o.Pat), collectTF(&res)); err != nil {
					return nil, err
				}
				outs = append(outs, res)
			case "contains_at":
				outs = append(outs, st.ContainsAt(mkAtom(*o.Atom), time.Unix(0, o.T)))
			case "count":
				outs = append(outs, st.EstimateFactCount())
			case "preds":
				ps := []int{}
				for _, p := range st.ListPredicates() {
					var n int
					fmt.Sscanf(p.Symbol, "p%d", &n)
					ps = append(ps, n)
				}
				sort.Ints(ps)
				outs = append(outs, ps)
			case "coalesce":
				// arity is part of the predicate symbol
				if err := st.Coalesce(ast.PredicateSym{Symbol: fmt.Sprintf("p%d", o.P), Arity: o.T2()}); err != nil {
					return nil, err
				}
				outs = append(outs, nil)
			default:
				return nil, fmt.Errorf("unknown op %q", o.Op)
			}
		}
		return outs, nil
	})
}

// T2 carries the arity for coalesce ops (field T reused).
func (o c13Op) T2() int { return int(o.T) }

func init() {
	// F8 probe: two distinct atoms with equal Atom.Hash() in one temporal store.
	hlib.Register("c13_f8", func(in json.RawMessage) (any, error) {
		a := ast.NewAtom("p", ast.Number(0))
		b := ast.NewAtom("p", ast.List(nil))
		if a.Equals(b) || a.Hash() != b.Hash() {
			return false, nil // no longer hash-equal: probe does not apply
		}
		st := factstore.NewTemporalStore()
		st.Add(a, ast.Interval{Start: ast.TemporalBound{Type: ast.TimestampBound, Timestamp: 1}, End: ast.TemporalBound{Type: ast.TimestampBound, Timestamp: 2}})
		st.Add(b, ast.Interval{Start: ast.TemporalBound{Type: ast.TimestampBound, Timestamp: 5}, End: ast.TemporalBound{Type: ast.TimestampBound, Timestamp: 6}})
		atoms := map[string]bool{}
		st.GetAllFacts(ast.NewQuery(a.Predicate), func(tf factstore.TemporalFact) error {
			atoms[tf.Atom.String()] = true
			return nil
		})
		return len(atoms) < 2, nil // true = conflated
	})
}
