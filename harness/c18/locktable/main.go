//go:build verif

// Mini-translator of C18: reads factstore/factstore.go with go/ast and prints, as
// JSON, for every method of ConcurrentFactStore which lock it takes first, how it
// releases it and which method of the base store it delegates to.
// checks/c18_locktable.py renders the JSON as coq/Conc/LockTable.v.
// Usage: locktable <path to factstore.go>
package main

import (
	"encoding/json"
	"fmt"
	"go/ast"
	"go/parser"
	"go/token"
	"os"
)

const typeName = "ConcurrentFactStore"

type entry struct {
	Name      string `json:"name"`
	Line      int    `json:"line"`
	Acquire   string `json:"acquire"`  // "Lock" | "RLock" | ""
	Release   string `json:"release"`  // "Unlock" | "RUnlock" | ""
	Deferred  bool   `json:"deferred"` // release is statement #2 and deferred
	Delegate  string `json:"delegate"`
	ArgsSame  bool   `json:"args_same"`
	Canonical bool   `json:"canonical"`
	PtrRecv   bool   `json:"ptr_recv"`
}

type result struct {
	MutexField   string  `json:"mutex_field"`
	MutexType    string  `json:"mutex_type"`
	MutexPointer bool    `json:"mutex_pointer"`
	BaseField    string  `json:"base_field"`
	Entries      []entry `json:"entries"`
}

// selCall matches <recv>.<field>.<method>(args...) and returns field, method, args.
func selCall(e ast.Expr, recv string) (field, method string, args []ast.Expr, ok bool) {
	c, isCall := e.(*ast.CallExpr)
	if !isCall {
		return
	}
	s1, isSel := c.Fun.(*ast.SelectorExpr)
	if !isSel {
		return
	}
	s2, isSel := s1.X.(*ast.SelectorExpr)
	if !isSel {
		return
	}
	id, isId := s2.X.(*ast.Ident)
	if !isId || id.Name != recv {
		return
	}
	return s2.Sel.Name, s1.Sel.Name, c.Args, true
}

func main() {
	if len(os.Args) != 2 {
		fmt.Fprintln(os.Stderr, "usage: locktable <factstore.go>")
		os.Exit(2)
	}
	fset := token.NewFileSet()
	f, err := parser.ParseFile(fset, os.Args[1], nil, 0)
	if err != nil {
		fmt.Fprintln(os.Stderr, err)
		os.Exit(1)
	}
	res := result{}
	// the struct: which field is the RWMutex, which the base store
	ast.Inspect(f, func(n ast.Node) bool {
		ts, ok := n.(*ast.TypeSpec)
		if !ok || ts.Name.Name != typeName {
			return true
		}
		st, ok := ts.Type.(*ast.StructType)
		if !ok {
			return false
		}
		for _, fld := range st.Fields.List {
			t := fld.Type
			ptr := false
			if star, ok := t.(*ast.StarExpr); ok {
				t, ptr = star.X, true
			}
			name := ""
			if len(fld.Names) > 0 {
				name = fld.Names[0].Name
			}
			if sel, ok := t.(*ast.SelectorExpr); ok {
				if pk, ok := sel.X.(*ast.Ident); ok && pk.Name == "sync" {
					res.MutexField, res.MutexType, res.MutexPointer = name, sel.Sel.Name, ptr
					continue
				}
			}
			if res.BaseField == "" {
				res.BaseField = name
			}
		}
		return false
	})
	for _, d := range f.Decls {
		fd, ok := d.(*ast.FuncDecl)
		if !ok || fd.Recv == nil || len(fd.Recv.List) != 1 || fd.Body == nil {
			continue
		}
		rt := fd.Recv.List[0].Type
		ptr := false
		if star, ok := rt.(*ast.StarExpr); ok {
			rt, ptr = star.X, true
		}
		id, ok := rt.(*ast.Ident)
		if !ok || id.Name != typeName {
			continue
		}
		recv := "_"
		if len(fd.Recv.List[0].Names) > 0 {
			recv = fd.Recv.List[0].Names[0].Name
		}
		var params []string
		for _, p := range fd.Type.Params.List {
			for _, n := range p.Names {
				params = append(params, n.Name)
			}
		}
		e := entry{Name: fd.Name.Name, Line: fset.Position(fd.Pos()).Line, PtrRecv: ptr}
		body := fd.Body.List
		// statement 1: acquire
		if len(body) > 0 {
			if es, ok := body[0].(*ast.ExprStmt); ok {
				if fld, m, args, ok := selCall(es.X, recv); ok && fld == res.MutexField && len(args) == 0 && (m == "Lock" || m == "RLock") {
					e.Acquire = m
				}
			}
		}
		// the release, wherever it is; deferred only if it is statement 2
		nRelease := 0
		for i, st := range body {
			var call ast.Expr
			deferred := false
			switch s := st.(type) {
			case *ast.DeferStmt:
				call, deferred = s.Call, true
			case *ast.ExprStmt:
				call = s.X
			}
			if call == nil {
				continue
			}
			if fld, m, args, ok := selCall(call, recv); ok && fld == res.MutexField && len(args) == 0 && (m == "Unlock" || m == "RUnlock") {
				nRelease++
				e.Release = m
				e.Deferred = deferred && i == 1
			}
		}
		// every call on the base store in the body
		var delegates []string
		argsSame := false
		ast.Inspect(fd.Body, func(n ast.Node) bool {
			c, ok := n.(*ast.CallExpr)
			if !ok {
				return true
			}
			if fld, m, args, ok := selCall(c, recv); ok && fld == res.BaseField {
				delegates = append(delegates, m)
				same := len(args) == len(params)
				for i := range args {
					if id, ok := args[i].(*ast.Ident); !ok || !same || id.Name != params[i] {
						same = false
					}
				}
				argsSame = same
			}
			return true
		})
		if len(delegates) == 1 {
			e.Delegate, e.ArgsSame = delegates[0], argsSame
		}
		// canonical shape: exactly three statements, the third being the delegate call
		if len(body) == 3 && e.Acquire != "" && nRelease == 1 && e.Deferred && len(delegates) == 1 {
			var last ast.Expr
			switch s := body[2].(type) {
			case *ast.ReturnStmt:
				if len(s.Results) == 1 {
					last = s.Results[0]
				}
			case *ast.ExprStmt:
				last = s.X
			}
			if last != nil {
				if fld, m, _, ok := selCall(last, recv); ok && fld == res.BaseField && m == e.Delegate {
					e.Canonical = true
				}
			}
		}
		res.Entries = append(res.Entries, e)
	}
	json.NewEncoder(os.Stdout).Encode(res)
}
