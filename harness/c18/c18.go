//go:build verif

package main

import (
	"encoding/json"
	"fmt"
	"runtime"
	"sort"
	"strings"
	"sync"
	"sync/atomic"

	"codeberg.org/TauCeti/mangle-go/analysis"
	"codeberg.org/TauCeti/mangle-go/ast"
	"codeberg.org/TauCeti/mangle-go/engine"
	"codeberg.org/TauCeti/mangle-go/factstore"
	"codeberg.org/TauCeti/mangle-go/parse"
	"mvharness/hlib"
)

// One store operation. K: add | remove | contains | getfacts | merge | preds | count.
// Atoms are p<P>(A); getfacts with A == nil asks p<P>(X); merge carries the atoms of
// the (private, single-threaded) other store.
type jOp struct {
	K  string   `json:"k"`
	P  int      `json:"p"`
	A  *int     `json:"a"`
	Ms [][2]int `json:"ms"`
}

func mkAtom(p, a int) ast.Atom {
	return ast.NewAtom(fmt.Sprintf("p%d", p), ast.Number(int64(a)))
}

func outAtom(a ast.Atom) [2]int {
	var p int
	fmt.Sscanf(a.Predicate.Symbol, "p%d", &p)
	n, err := a.Args[0].(ast.Constant).NumberValue()
	if err != nil {
		panic(err)
	}
	return [2]int{p, int(n)}
}

func newBase(kind string) factstore.FactStoreWithRemove {
	switch kind {
	case "simple":
		return factstore.NewSimpleInMemoryStore()
	case "indexed":
		return factstore.NewIndexedInMemoryStore()
	case "multi":
		return factstore.NewMultiIndexedInMemoryStore()
	case "multiarray":
		return factstore.NewMultiIndexedArrayInMemoryStore()
	}
	panic("unknown base store kind " + kind)
}

func sortAtoms(l [][2]int) {
	sort.Slice(l, func(i, j int) bool {
		if l[i][0] != l[j][0] {
			return l[i][0] < l[j][0]
		}
		return l[i][1] < l[j][1]
	})
}

// pause makes a critical section long enough for other goroutines to arrive at the lock:
// it is called from the GetFacts callback (runs under the read lock) and from the source
// store of a Merge (read under the write lock). Both are ordinary uses of the API.
func pause(slow bool) {
	if !slow {
		return
	}
	for d := 0; d < 300; d++ {
		sink.Add(1)
	}
	runtime.Gosched()
}

// slowStore is a read-only fact store that takes its time (the `other` of a Merge).
type slowStore struct {
	factstore.SimpleInMemoryStore
	slow bool
}

func (s slowStore) ListPredicates() []ast.PredicateSym {
	pause(s.slow)
	return s.SimpleInMemoryStore.ListPredicates()
}

func (s slowStore) GetFacts(a ast.Atom, fn func(ast.Atom) error) error {
	return s.SimpleInMemoryStore.GetFacts(a, func(f ast.Atom) error { pause(s.slow); return fn(f) })
}

// prepared operation: everything that can be built before the clock starts
type prepOp struct {
	slow  bool
	k     string
	atom  ast.Atom
	other factstore.ReadOnlyFactStore
}

func prepare(o jOp, slow bool) prepOp {
	p := prepOp{k: o.K, slow: slow}
	switch o.K {
	case "add", "remove", "contains":
		p.atom = mkAtom(o.P, *o.A)
	case "getfacts":
		if o.A == nil {
			p.atom = ast.NewQuery(ast.PredicateSym{Symbol: fmt.Sprintf("p%d", o.P), Arity: 1})
		} else {
			p.atom = mkAtom(o.P, *o.A)
		}
	case "merge":
		other := factstore.NewSimpleInMemoryStore()
		for _, m := range o.Ms {
			other.Add(mkAtom(m[0], m[1]))
		}
		p.other = slowStore{other, slow}
	}
	return p
}

// apply runs one operation on the concurrent store and returns its projected result:
// bool | sorted [][2]int | nil | sorted []int | int.
func apply(s factstore.ConcurrentFactStore, o prepOp) any {
	switch o.k {
	case "add":
		return s.Add(o.atom)
	case "remove":
		return s.Remove(o.atom)
	case "contains":
		return s.Contains(o.atom)
	case "getfacts":
		res := [][2]int{}
		if err := s.GetFacts(o.atom, func(a ast.Atom) error { pause(o.slow); res = append(res, outAtom(a)); return nil }); err != nil {
			panic(err)
		}
		sortAtoms(res)
		return res
	case "merge":
		s.Merge(o.other)
		return nil
	case "preds":
		res := []int{}
		for _, ps := range s.ListPredicates() {
			var p int
			fmt.Sscanf(ps.Symbol, "p%d", &p)
			res = append(res, p)
		}
		sort.Ints(res)
		return res
	case "count":
		return s.EstimateFactCount()
	}
	panic("unknown op " + o.k)
}

// ---- c18_seq: one thread, results in program order (ties the set machine to the code)
type seqCase struct {
	Base string `json:"base"`
	Ops  []jOp  `json:"ops"`
}

// ---- c18_conc: G goroutines on one store; Reps recorded histories
type concCase struct {
	Base    string  `json:"base"`
	Threads [][]jOp `json:"threads"`
	Reps    int     `json:"reps"`
	Yield   bool    `json:"yield"`
	Slow    bool    `json:"slow"`
}

type rec struct {
	Inv  int64 `json:"inv"`  // global sequence number taken before the call
	Resp int64 `json:"resp"` // global sequence number taken after the return
	Res  any   `json:"res"`
}

var sink atomic.Int64

func runConc(c concCase) [][][]rec {
	out := make([][][]rec, 0, c.Reps)
	for rep := 0; rep < c.Reps; rep++ {
		store := factstore.NewConcurrentFactStore(newBase(c.Base))
		g := len(c.Threads)
		prep := make([][]prepOp, g)
		recs := make([][]rec, g)
		for t := range c.Threads {
			prep[t] = make([]prepOp, len(c.Threads[t]))
			for k, o := range c.Threads[t] {
				prep[t][k] = prepare(o, c.Slow)
			}
			recs[t] = make([]rec, len(c.Threads[t]))
		}
		var clock atomic.Int64
		var ready atomic.Int32
		var wg sync.WaitGroup
		for t := 0; t < g; t++ {
			wg.Add(1)
			go func(t int) {
				defer wg.Done()
				ready.Add(1)
				for spins := 0; ready.Load() < int32(g); spins++ { // spin barrier: start together
					if spins > 20000 {
						runtime.Gosched()
					}
				}
				for k, o := range prep[t] {
					if c.Yield { // shift the phase between the threads a little
						for d := (k*7 + t*13 + rep*5) % 40; d > 0; d-- {
							sink.Add(1)
						}
					}
					inv := clock.Add(1)
					r := apply(store, o)
					resp := clock.Add(1)
					recs[t][k] = rec{inv, resp, r}
				}
			}(t)
		}
		wg.Wait()
		out = append(out, recs)
	}
	return out
}

// ---- c18_par: parse + analyse + evaluate unrelated programs, alone and in parallel
type parCase struct {
	Programs []string `json:"programs"`
	Reps     int      `json:"reps"`
	// ParFirst: run the parallel repetitions BEFORE the "alone" runs, so that process-wide lazily grown
	// state (memo tables, caches) is first touched by several goroutines at once (cold start).
	ParFirst bool `json:"par_first"`
}

func evalOne(src string) (res []string, err error) {
	defer func() {
		if p := recover(); p != nil {
			err = fmt.Errorf("panic: %v", p)
		}
	}()
	unit, err := parse.Unit(strings.NewReader(src))
	if err != nil {
		return nil, fmt.Errorf("parse: %v", err)
	}
	info, err := analysis.AnalyzeOneUnit(unit, nil)
	if err != nil {
		return nil, fmt.Errorf("analyze: %v", err)
	}
	store := factstore.NewSimpleInMemoryStore()
	if err := engine.EvalProgram(info, store); err != nil {
		return nil, fmt.Errorf("eval: %v", err)
	}
	res = []string{}
	factstore.GetAllFacts(store, func(a ast.Atom) error { res = append(res, a.String()); return nil })
	sort.Strings(res)
	return res, nil
}

type parOut struct {
	Alone    []any   `json:"alone"`
	Parallel [][]any `json:"parallel"` // per repetition, per program
}

func show(res []string, err error) any {
	if err != nil {
		return map[string]string{"err": err.Error()}
	}
	return res
}

func runPar(c parCase) parOut {
	out := parOut{}
	alone := func() {
		for _, p := range c.Programs {
			out.Alone = append(out.Alone, show(evalOne(p)))
		}
	}
	if !c.ParFirst {
		alone()
	}
	for rep := 0; rep < c.Reps; rep++ {
		g := len(c.Programs)
		row := make([]any, g)
		var ready atomic.Int32
		var wg sync.WaitGroup
		for t := 0; t < g; t++ {
			wg.Add(1)
			go func(t int) {
				defer wg.Done()
				ready.Add(1)
				for ready.Load() < int32(g) {
					runtime.Gosched()
				}
				row[t] = show(evalOne(c.Programs[t]))
			}(t)
		}
		wg.Wait()
		out.Parallel = append(out.Parallel, row)
	}
	if c.ParFirst {
		alone()
	}
	return out
}

func init() {
	hlib.Register("c18_seq", func(in json.RawMessage) (any, error) {
		var c seqCase
		if err := json.Unmarshal(in, &c); err != nil {
			return nil, err
		}
		store := factstore.NewConcurrentFactStore(newBase(c.Base))
		out := make([]any, len(c.Ops))
		for k, o := range c.Ops {
			out[k] = apply(store, prepare(o, false))
		}
		return out, nil
	})
	hlib.Register("c18_conc", func(in json.RawMessage) (any, error) {
		var c concCase
		if err := json.Unmarshal(in, &c); err != nil {
			return nil, err
		}
		return runConc(c), nil
	})
	hlib.Register("c18_par", func(in json.RawMessage) (any, error) {
		var c parCase
		if err := json.Unmarshal(in, &c); err != nil {
			return nil, err
		}
		return runPar(c), nil
	})
}
