//go:build verif

package main

import (
	"encoding/json"
	"fmt"
	"sort"
	"strings"

	"codeberg.org/TauCeti/mangle-go/analysis"
	"codeberg.org/TauCeti/mangle-go/ast"
	"codeberg.org/TauCeti/mangle-go/builtin"
	"codeberg.org/TauCeti/mangle-go/parse"
	"codeberg.org/TauCeti/mangle-go/symbols"
	"mvharness/hlib"
)

// A rule as far as stratification looks at it. Tags of body items:
// 0 ast.Atom, 1 ast.NegAtom, 2 ast.TemporalLiteral{Atom}, 3 ast.TemporalLiteral{NegAtom},
// 4 ast.TemporalAtom, 5 a premise without predicate (ast.Eq).
// K: 0 no transform, 1 let-transform, 2 do-transform.
type jRule struct {
	H int      `json:"h"`
	K int      `json:"k"`
	B [][2]int `json:"b"`
}

type jCase struct {
	Builtins []int   `json:"builtins"`
	Edb      []int   `json:"edb"`
	Rules    []jRule `json:"rules"`
	Runs     int     `json:"runs"`
}

// One distinct answer of analysis.Stratify with the number of runs that gave it.
type jAnswer struct {
	Err    bool     `json:"err"`
	Layers [][]int  `json:"layers,omitempty"`
	Map    [][2]int `json:"map,omitempty"`
	N      int      `json:"n"`
}

var builtinSyms = []ast.PredicateSym{symbols.Lt, symbols.Le, symbols.MatchPrefix, symbols.ListMember, symbols.Filter, symbols.MatchNil}

// symOf maps a predicate number to a predicate symbol. Two consecutive numbers
// share the name and differ in arity (a PredicateSym is name + arity).
func symOf(id int, builtins map[int]int) ast.PredicateSym {
	if k, ok := builtins[id]; ok {
		return builtinSyms[k%len(builtinSyms)]
	}
	return ast.PredicateSym{Symbol: fmt.Sprintf("p%d", id>>1), Arity: (id & 1) + 1}
}

func atomOf(sym ast.PredicateSym) ast.Atom {
	args := make([]ast.BaseTerm, sym.Arity)
	for i := range args {
		args[i] = ast.Variable{Symbol: fmt.Sprintf("X%d", i)}
	}
	return ast.Atom{Predicate: sym, Args: args}
}

func buildProgram(c jCase) (analysis.Program, map[ast.PredicateSym]int) {
	builtins := map[int]int{}
	for k, id := range c.Builtins {
		builtins[id] = k
	}
	ids := map[ast.PredicateSym]int{}
	sym := func(id int) ast.PredicateSym {
		s := symOf(id, builtins)
		if _, ok := builtin.Predicates[s]; ok != (func() bool { _, b := builtins[id]; return b })() {
			panic("harness: builtin table mismatch for " + s.Symbol)
		}
		ids[s] = id
		return s
	}
	prog := analysis.Program{
		EdbPredicates: map[ast.PredicateSym]struct{}{},
		IdbPredicates: map[ast.PredicateSym]struct{}{},
	}
	for _, id := range c.Edb {
		prog.EdbPredicates[sym(id)] = struct{}{}
	}
	t := ast.Variable{Symbol: "T"}
	iv := ast.NewInterval(ast.NewVariableBound(t), ast.NewVariableBound(t))
	for _, r := range c.Rules {
		head := atomOf(sym(r.H))
		prog.IdbPredicates[head.Predicate] = struct{}{}
		var premises []ast.Term
		for _, b := range r.B {
			a := atomOf(sym(b[1]))
			switch b[0] {
			case 0:
				premises = append(premises, a)
			case 1:
				premises = append(premises, ast.NegAtom{Atom: a})
			case 2:
				premises = append(premises, ast.TemporalLiteral{Literal: a, Interval: &iv})
			case 3:
				op := ast.TemporalOperator{Type: ast.DiamondMinus, Interval: iv}
				premises = append(premises, ast.TemporalLiteral{Literal: ast.NegAtom{Atom: a}, Operator: &op})
			case 4:
				premises = append(premises, ast.TemporalAtom{Atom: a, Interval: &iv})
			default:
				premises = append(premises, ast.Eq{Left: ast.Variable{Symbol: "X0"}, Right: ast.Number(int64(b[1]))})
			}
		}
		cl := ast.Clause{Head: head, Premises: premises}
		z := ast.Variable{Symbol: "Z"}
		switch r.K {
		case 1:
			cl.Transform = &ast.Transform{Statements: []ast.TransformStmt{{Var: &z, Fn: ast.ApplyFn{Function: symbols.Plus, Args: []ast.BaseTerm{ast.Number(1), ast.Number(1)}}}}}
		case 2:
			cl.Transform = &ast.Transform{Statements: []ast.TransformStmt{
				{Var: nil, Fn: ast.ApplyFn{Function: symbols.GroupBy, Args: nil}},
				{Var: &z, Fn: ast.ApplyFn{Function: symbols.Count, Args: nil}}}}
		}
		prog.Rules = append(prog.Rules, cl)
	}
	return prog, ids
}

// observe runs analysis.Stratify `runs` times and returns the distinct answers.
// Unknown predicates in the answer (never the case for a correct answer) get -1.
func observe(prog analysis.Program, ids map[ast.PredicateSym]int, runs int) []jAnswer {
	id := func(s ast.PredicateSym) int {
		if k, ok := ids[s]; ok {
			return k
		}
		return -1
	}
	seen := map[string]int{}
	var answers []jAnswer
	for i := 0; i < runs; i++ {
		strata, m, err := analysis.Stratify(prog)
		var a jAnswer
		if err != nil {
			a.Err = true
		} else {
			a.Layers = make([][]int, len(strata))
			for k, set := range strata {
				l := []int{}
				for s := range set {
					l = append(l, id(s))
				}
				sort.Ints(l)
				a.Layers[k] = l
			}
			a.Map = [][2]int{}
			for s, k := range m {
				a.Map = append(a.Map, [2]int{id(s), k})
			}
			sort.Slice(a.Map, func(x, y int) bool {
				if a.Map[x][0] != a.Map[y][0] {
					return a.Map[x][0] < a.Map[y][0]
				}
				return a.Map[x][1] < a.Map[y][1]
			})
		}
		key, _ := json.Marshal(a)
		if k, ok := seen[string(key)]; ok {
			answers[k].N++
			continue
		}
		seen[string(key)] = len(answers)
		a.N = 1
		answers = append(answers, a)
	}
	return answers
}

// c03: rule shapes -> ast.Clause values -> analysis.Stratify.
func runShapes(in json.RawMessage) (any, error) {
	var c jCase
	if err := json.Unmarshal(in, &c); err != nil {
		return nil, err
	}
	if c.Runs <= 0 {
		c.Runs = 1
	}
	prog, ids := buildProgram(c)
	return observe(prog, ids, c.Runs), nil
}

// c03_src: source text -> parse -> analysis (as the engine's callers do) ->
// analysis.Stratify on ProgramInfo's EDB/IDB/rules. The rule shapes are read off
// the analysed clauses and returned with the answers, so the model is evaluated on
// what the parser and the analysis really produce for temporal syntax.
type jSrc struct {
	Src  string `json:"src"`
	Runs int    `json:"runs"`
}

type jSrcOut struct {
	Rejected string    `json:"rejected,omitempty"` // parse / analysis error: no stratification happened
	Names    []string  `json:"names,omitempty"`    // predicate number -> name/arity
	Builtins []int     `json:"builtins"`
	Edb      []int     `json:"edb"`
	Rules    []jRule   `json:"rules"`
	Answers  []jAnswer `json:"answers"`
}

func runSource(in json.RawMessage) (any, error) {
	var c jSrc
	if err := json.Unmarshal(in, &c); err != nil {
		return nil, err
	}
	if c.Runs <= 0 {
		c.Runs = 1
	}
	unit, err := parse.Unit(strings.NewReader(c.Src))
	if err != nil {
		return jSrcOut{Rejected: "parse: " + err.Error()}, nil
	}
	info, err := analysis.AnalyzeOneUnit(unit, nil)
	if err != nil {
		return jSrcOut{Rejected: "analysis: " + err.Error()}, nil
	}
	// number the predicates
	symset := map[ast.PredicateSym]struct{}{}
	for s := range info.EdbPredicates {
		symset[s] = struct{}{}
	}
	type item struct {
		tag int
		sym *ast.PredicateSym
	}
	shape := func(t ast.Term) item {
		switch p := t.(type) {
		case ast.Atom:
			return item{0, &p.Predicate}
		case ast.NegAtom:
			return item{1, &p.Atom.Predicate}
		case ast.TemporalLiteral:
			switch l := p.Literal.(type) {
			case ast.Atom:
				return item{2, &l.Predicate}
			case ast.NegAtom:
				return item{3, &l.Atom.Predicate}
			}
			return item{5, nil}
		case ast.TemporalAtom:
			return item{4, &p.Atom.Predicate}
		}
		return item{5, nil}
	}
	for _, r := range info.Rules {
		symset[r.Head.Predicate] = struct{}{}
		for _, p := range r.Premises {
			if it := shape(p); it.sym != nil {
				symset[*it.sym] = struct{}{}
			}
		}
	}
	var syms []ast.PredicateSym
	for s := range symset {
		syms = append(syms, s)
	}
	sort.Slice(syms, func(i, j int) bool {
		if syms[i].Symbol != syms[j].Symbol {
			return syms[i].Symbol < syms[j].Symbol
		}
		return syms[i].Arity < syms[j].Arity
	})
	ids := map[ast.PredicateSym]int{}
	out := jSrcOut{Builtins: []int{}, Edb: []int{}, Rules: []jRule{}}
	for i, s := range syms {
		ids[s] = i
		out.Names = append(out.Names, fmt.Sprintf("%s/%d", s.Symbol, s.Arity))
		if _, ok := builtin.Predicates[s]; ok {
			out.Builtins = append(out.Builtins, i)
		}
		if _, ok := info.EdbPredicates[s]; ok {
			out.Edb = append(out.Edb, i)
		}
	}
	for _, r := range info.Rules {
		jr := jRule{H: ids[r.Head.Predicate], B: [][2]int{}}
		if r.Transform != nil {
			if r.Transform.IsLetTransform() {
				jr.K = 1
			} else {
				jr.K = 2
			}
		}
		for _, p := range r.Premises {
			it := shape(p)
			if it.sym == nil {
				jr.B = append(jr.B, [2]int{5, 0})
			} else {
				jr.B = append(jr.B, [2]int{it.tag, ids[*it.sym]})
			}
		}
		out.Rules = append(out.Rules, jr)
	}
	prog := analysis.Program{EdbPredicates: info.EdbPredicates, IdbPredicates: info.IdbPredicates, Rules: info.Rules}
	out.Answers = observe(prog, ids, c.Runs)
	return out, nil
}

func init() {
	hlib.Register("c03", runShapes)
	hlib.Register("c03_src", runSource)
}
