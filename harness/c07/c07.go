//go:build verif

package main

import (
	"encoding/hex"
	"encoding/json"
	"fmt"
	"math"
	"sort"
	"strings"

	"codeberg.org/TauCeti/mangle-go/analysis"
	"codeberg.org/TauCeti/mangle-go/ast"
	"codeberg.org/TauCeti/mangle-go/builtin"
	"codeberg.org/TauCeti/mangle-go/engine"
	"codeberg.org/TauCeti/mangle-go/factstore"
	"codeberg.org/TauCeti/mangle-go/functional"
	"codeberg.org/TauCeti/mangle-go/parse"
	"codeberg.org/TauCeti/mangle-go/unionfind"
	"mvharness/hlib"
)

// Constants travel as JSON arrays: ["n",int] number, ["f",bits] float64 (int64 of the bit
// pattern), ["t",int] time, ["d",int] duration, ["s",hex] string, ["b",hex] bytes,
// ["a",hex] name, ["P",a,b] pair, ["L",[..]] list, ["M",[[k,v]..]] map, ["S",[[k,v]..]] struct.
func dec(raw json.RawMessage) (ast.Constant, error) {
	var parts []json.RawMessage
	if err := json.Unmarshal(raw, &parts); err != nil {
		return ast.Constant{}, err
	}
	var tag string
	if err := json.Unmarshal(parts[0], &tag); err != nil {
		return ast.Constant{}, err
	}
	switch tag {
	case "n", "f", "t", "d":
		var n int64
		if err := json.Unmarshal(parts[1], &n); err != nil {
			return ast.Constant{}, err
		}
		switch tag {
		case "n":
			return ast.Number(n), nil
		case "f":
			return ast.Float64(math.Float64frombits(uint64(n))), nil
		case "t":
			return ast.Time(n), nil
		}
		return ast.Duration(n), nil
	case "s", "b", "a":
		var h string
		if err := json.Unmarshal(parts[1], &h); err != nil {
			return ast.Constant{}, err
		}
		b, err := hex.DecodeString(h)
		if err != nil {
			return ast.Constant{}, err
		}
		switch tag {
		case "s":
			return ast.String(string(b)), nil
		case "b":
			return ast.Bytes(b), nil
		}
		return ast.Name(string(b))
	case "P":
		a, err := dec(parts[1])
		if err != nil {
			return ast.Constant{}, err
		}
		b, err := dec(parts[2])
		if err != nil {
			return ast.Constant{}, err
		}
		return ast.Pair(&a, &b), nil
	case "L":
		var elems []json.RawMessage
		if err := json.Unmarshal(parts[1], &elems); err != nil {
			return ast.Constant{}, err
		}
		cs := make([]ast.Constant, 0, len(elems))
		for _, e := range elems {
			c, err := dec(e)
			if err != nil {
				return ast.Constant{}, err
			}
			cs = append(cs, c)
		}
		return ast.List(cs), nil
	case "M", "S":
		var ents [][]json.RawMessage
		if err := json.Unmarshal(parts[1], &ents); err != nil {
			return ast.Constant{}, err
		}
		kv := make(map[*ast.Constant]*ast.Constant)
		for _, e := range ents {
			k, err := dec(e[0])
			if err != nil {
				return ast.Constant{}, err
			}
			v, err := dec(e[1])
			if err != nil {
				return ast.Constant{}, err
			}
			kv[&k] = &v
		}
		if tag == "M" {
			return *ast.Map(kv), nil
		}
		return *ast.Struct(kv), nil
	}
	return ast.Constant{}, fmt.Errorf("bad constant tag %q", tag)
}

func enc(c ast.Constant) any {
	switch c.Type {
	case ast.NumberType:
		return []any{"n", c.NumValue}
	case ast.Float64Type:
		return []any{"f", c.NumValue}
	case ast.TimeType:
		return []any{"t", c.NumValue}
	case ast.DurationType:
		return []any{"d", c.NumValue}
	case ast.StringType:
		return []any{"s", hex.EncodeToString([]byte(c.Symbol))}
	case ast.BytesType:
		return []any{"b", hex.EncodeToString([]byte(c.Symbol))}
	case ast.NameType:
		return []any{"a", hex.EncodeToString([]byte(c.Symbol))}
	case ast.PairShape:
		a, b, _ := c.PairValue()
		return []any{"P", enc(a), enc(b)}
	case ast.ListShape:
		elems := []any{}
		c.ListValues(func(e ast.Constant) error { elems = append(elems, enc(e)); return nil }, func() error { return nil })
		return []any{"L", elems}
	case ast.MapShape:
		ents := []any{}
		c.MapValues(func(k, v ast.Constant) error { ents = append(ents, []any{enc(k), enc(v)}); return nil }, func() error { return nil })
		return []any{"M", ents}
	case ast.StructShape:
		ents := []any{}
		c.StructValues(func(k, v ast.Constant) error { ents = append(ents, []any{enc(k), enc(v)}); return nil }, func() error { return nil })
		return []any{"S", ents}
	}
	return []any{"?", int(c.Type)}
}

type jCase struct {
	K    string              `json:"k"`
	F    string              `json:"f"`
	Args []json.RawMessage   `json:"args"` // fn: constants; dec: constant or null (= variable)
	NV   int                 `json:"nv"`   // red: number of argument variables
	Rows [][]json.RawMessage `json:"rows"`
	Src  string              `json:"src"` // prog: source text
	Pred string              `json:"pred"`
	A    int64               `json:"a"`
	B    int64               `json:"b"`
}

// an argument is a constant (JSON array) or a nested application {"f":..,"args":[..]}
func decTerm(r json.RawMessage) (ast.BaseTerm, error) {
	if len(r) > 0 && r[0] == '{' {
		var app struct {
			F    string            `json:"f"`
			Args []json.RawMessage `json:"args"`
		}
		if err := json.Unmarshal(r, &app); err != nil {
			return nil, err
		}
		args, err := decAll(app.Args)
		if err != nil {
			return nil, err
		}
		return ast.ApplyFn{Function: ast.FunctionSym{Symbol: app.F, Arity: len(args)}, Args: args}, nil
	}
	return dec(r)
}

func decAll(raws []json.RawMessage) ([]ast.BaseTerm, error) {
	out := make([]ast.BaseTerm, len(raws))
	for i, r := range raws {
		c, err := decTerm(r)
		if err != nil {
			return nil, fmt.Errorf("harness: bad constant: %w", err)
		}
		out[i] = c
	}
	return out, nil
}

type jOut struct {
	V     any     `json:"v,omitempty"`
	E     string  `json:"e,omitempty"`
	R     *bool   `json:"r,omitempty"`
	Sols  [][]any `json:"sols,omitempty"`
	Facts [][]any `json:"facts,omitempty"`
	Hash  string  `json:"hash,omitempty"`
}

func runCase(in json.RawMessage) (any, error) {
	var c jCase
	if err := json.Unmarshal(in, &c); err != nil {
		return nil, err
	}
	switch c.K {
	case "fn":
		args, err := decAll(c.Args)
		if err != nil {
			return nil, err
		}
		res, err := functional.EvalApplyFn(ast.ApplyFn{Function: ast.FunctionSym{Symbol: c.F, Arity: len(args)}, Args: args}, ast.ConstSubstMap{})
		if err != nil {
			return jOut{E: err.Error()}, nil
		}
		return jOut{V: enc(res)}, nil
	case "hash":
		args, err := decAll(c.Args)
		if err != nil {
			return nil, err
		}
		return jOut{Hash: fmt.Sprintf("%d", args[0].(ast.Constant).Hash())}, nil
	case "red":
		vars := make([]ast.BaseTerm, c.NV)
		for i := range vars {
			vars[i] = ast.Variable{Symbol: fmt.Sprintf("V%d", i)}
		}
		rows := make([]ast.ConstSubstList, 0, len(c.Rows))
		for _, r := range c.Rows {
			vals, err := decAll(r)
			if err != nil {
				return nil, err
			}
			var row ast.ConstSubstList
			for i, v := range vals {
				row = row.Extend(ast.Variable{Symbol: fmt.Sprintf("V%d", i)}, v.(ast.Constant))
			}
			rows = append(rows, row)
		}
		res, err := functional.EvalReduceFn(ast.ApplyFn{Function: ast.FunctionSym{Symbol: c.F, Arity: c.NV}, Args: vars}, rows)
		if err != nil {
			return jOut{E: err.Error()}, nil
		}
		return jOut{V: enc(res)}, nil
	case "dec":
		args := make([]ast.BaseTerm, len(c.Args))
		var vars []ast.Variable
		for i, r := range c.Args {
			if string(r) == "null" {
				v := ast.Variable{Symbol: fmt.Sprintf("X%d", i)}
				args[i] = v
				vars = append(vars, v)
				continue
			}
			k, err := decTerm(r)
			if err != nil {
				return nil, fmt.Errorf("harness: bad constant: %w", err)
			}
			args[i] = k
		}
		uf := unionfind.New()
		ok, substs, err := builtin.Decide(ast.Atom{Predicate: ast.PredicateSym{Symbol: c.F, Arity: len(args)}, Args: args}, &uf)
		if err != nil {
			return jOut{E: err.Error()}, nil
		}
		if !ok {
			return jOut{R: &ok}, nil
		}
		sols := [][]any{}
		for _, s := range substs {
			row := []any{}
			for _, v := range vars {
				if k, isConst := s.Get(v).(ast.Constant); isConst {
					row = append(row, enc(k))
				} else {
					row = append(row, []any{"unbound"})
				}
			}
			sols = append(sols, row)
		}
		return jOut{R: &ok, Sols: sols}, nil
	case "prog":
		unit, err := parse.Unit(strings.NewReader(c.Src))
		if err != nil {
			return nil, fmt.Errorf("harness: parse: %w", err)
		}
		info, err := analysis.AnalyzeOneUnit(unit, nil)
		if err != nil {
			return jOut{E: "analysis: " + err.Error()}, nil
		}
		store := factstore.NewSimpleInMemoryStore()
		if err := engine.EvalProgram(info, store); err != nil {
			return jOut{E: "eval: " + err.Error()}, nil
		}
		type keyed struct {
			k string
			v []any
		}
		var ks []keyed
		for p := range info.Decls {
			if p.Symbol != c.Pred {
				continue
			}
			store.GetFacts(ast.NewQuery(p), func(a ast.Atom) error {
				row := []any{}
				for _, t := range a.Args {
					row = append(row, enc(t.(ast.Constant)))
				}
				b, _ := json.Marshal(row)
				ks = append(ks, keyed{string(b), row})
				return nil
			})
		}
		sort.Slice(ks, func(i, j int) bool { return ks[i].k < ks[j].k })
		facts := [][]any{}
		for _, k := range ks {
			facts = append(facts, k.v)
		}
		t := true
		return jOut{R: &t, Facts: facts}, nil
	case "fadd":
		// the law assumed about float64 addition by avg_perm_invariant: exact on integers
		// while operands and result stay within +-2^53
		ok := float64(c.A)+float64(c.B) == float64(c.A+c.B) && int64(float64(c.A+c.B)) == c.A+c.B
		return jOut{R: &ok}, nil
	}
	return nil, fmt.Errorf("harness: unknown case kind %q", c.K)
}

func init() { hlib.Register("c07", runCase) }
