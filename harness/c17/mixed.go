//go:build verif

// Runner "c17_mixed": programs with temporal predicates (declared `temporal`), alone or
// next to non-temporal recursion, through engine.EvalProgram with
// WithTemporalStore + WithEvaluationTime [+ WithCreatedFactLimit(limit)] under the same
// wall-clock guard as runner "c17". The Coq limit model covers the ordinary store only,
// so this runner reports what the property-level oracles of checks/c17.py need:
// error class, wall time, sizes of both stores before and at return, and both stores
// read back (ordinary facts printed, temporal facts printed with their interval).
//
// Case: {"src": declarations, rules and ordinary facts of the text,
//
//	"pre": ordinary ground facts put into the caller's store,
//	"tpre": [[pred, number], ..] temporal base facts (arity 1) put into the caller's
//	        temporal store at the point interval of the evaluation time,
//	"store": kind of the ordinary store, "det": bool,
//	"limit": created-fact limit, 0 = run without WithCreatedFactLimit (reference run),
//	"timeout_ms": guard}
//
// Out: {"stage", "msg", "rules", "err": ""|"limit"|"eval"|"timeout"|"panic", "emsg", "ms",
//
//	"plain_before", "plain_after", "temporal_before", "temporal_after",
//	"plain": [...], "temporal": [...]}   sorted printed facts (empty after timeout/panic)
package main

import (
	"encoding/json"
	"fmt"
	"sort"
	"strings"
	"time"

	"codeberg.org/TauCeti/mangle-go/analysis"
	"codeberg.org/TauCeti/mangle-go/ast"
	"codeberg.org/TauCeti/mangle-go/engine"
	"codeberg.org/TauCeti/mangle-go/factstore"
	"codeberg.org/TauCeti/mangle-go/parse"
	"mvharness/hlib"
)

type c17MCase struct {
	Src       string  `json:"src"`
	Pre       string  `json:"pre"`
	TPre      [][]any `json:"tpre"`
	Store     string  `json:"store"`
	Det       bool    `json:"det"`
	Limit     int     `json:"limit"`
	TimeoutMs int     `json:"timeout_ms"`
}

type c17MOut struct {
	Stage          string   `json:"stage"`
	Msg            string   `json:"msg,omitempty"`
	Rules          int      `json:"rules"`
	Err            string   `json:"err"`
	EMsg           string   `json:"emsg,omitempty"`
	Ms             int64    `json:"ms"`
	PlainBefore    int      `json:"plain_before"`
	PlainAfter     int      `json:"plain_after"`
	TemporalBefore int      `json:"temporal_before"`
	TemporalAfter  int      `json:"temporal_after"`
	Plain          []string `json:"plain"`
	Temporal       []string `json:"temporal"`
}

func runC17Mixed(in json.RawMessage) (any, error) {
	var c c17MCase
	if err := json.Unmarshal(in, &c); err != nil {
		return nil, err
	}
	if c.TimeoutMs == 0 {
		c.TimeoutMs = 10000
	}
	if breakerOpen() {
		return c17MOut{Stage: "skipped", Msg: "guard expired on earlier cases of this batch"}, nil
	}
	unit, err := parse.Unit(strings.NewReader(c.Src))
	if err != nil {
		return c17MOut{Stage: "parse", Msg: err.Error()}, nil
	}
	pre, err := parseFacts(c.Pre)
	if err != nil {
		return c17MOut{Stage: "parse", Msg: "pre: " + err.Error()}, nil
	}
	extra := map[ast.PredicateSym]ast.Decl{}
	inSrc := map[ast.PredicateSym]bool{}
	for _, cl := range unit.Clauses {
		inSrc[cl.Head.Predicate] = true
	}
	for _, d := range unit.Decls {
		inSrc[d.DeclaredAtom.Predicate] = true
	}
	for _, f := range pre {
		if !inSrc[f.Predicate] {
			extra[f.Predicate] = ast.NewSyntheticDeclFromSym(f.Predicate)
		}
	}
	info, err := analysis.AnalyzeOneUnit(unit, extra)
	if err != nil {
		return c17MOut{Stage: "analysis", Msg: err.Error()}, nil
	}
	store, err := newStore(c.Store)
	if err != nil {
		return nil, err
	}
	for _, f := range pre {
		store.Add(f)
	}
	ts := factstore.NewTemporalStore()
	for _, tp := range c.TPre {
		if len(tp) != 2 {
			return nil, fmt.Errorf("tpre entry must be [pred, number]")
		}
		name, ok1 := tp[0].(string)
		num, ok2 := tp[1].(float64)
		if !ok1 || !ok2 {
			return nil, fmt.Errorf("tpre entry must be [pred, number]")
		}
		if _, err := ts.Add(ast.NewAtom(name, ast.Number(int64(num))), ast.NewPointInterval(evalTime)); err != nil {
			return nil, err
		}
	}
	out := c17MOut{Stage: "ok", Rules: len(info.Rules), PlainBefore: store.EstimateFactCount(),
		TemporalBefore: ts.EstimateFactCount(), Plain: []string{}, Temporal: []string{}}
	opts := []engine.EvalOption{engine.WithTemporalStore(ts), engine.WithEvaluationTime(evalTime)}
	if c.Limit > 0 {
		opts = append(opts, engine.WithCreatedFactLimit(c.Limit))
	}
	if c.Det {
		opts = append(opts, engine.WithDeterministicOrder())
	}
	out.Err, out.EMsg, out.Ms = guarded(time.Duration(c.TimeoutMs)*time.Millisecond, func() error {
		return engine.EvalProgram(info, store, opts...)
	})
	if out.Err == "timeout" || out.Err == "panic" {
		// the abandoned goroutine may still be writing the stores: do not read them
		out.PlainAfter, out.TemporalAfter = -1, -1
		return out, nil
	}
	out.PlainAfter = store.EstimateFactCount()
	out.TemporalAfter = ts.EstimateFactCount()
	seen := map[string]bool{}
	factstore.GetAllFacts(store, func(a ast.Atom) error {
		seen[a.String()] = true
		return nil
	})
	for k := range seen {
		out.Plain = append(out.Plain, k)
	}
	sort.Strings(out.Plain)
	tseen := map[string]bool{}
	for _, p := range ts.ListPredicates() {
		args := make([]ast.BaseTerm, p.Arity)
		for i := range args {
			args[i] = ast.Variable{Symbol: fmt.Sprintf("V%d", i)}
		}
		ts.GetAllFacts(ast.Atom{Predicate: p, Args: args}, func(tf factstore.TemporalFact) error {
			tseen[tf.String()] = true
			return nil
		})
	}
	for k := range tseen {
		out.Temporal = append(out.Temporal, k)
	}
	sort.Strings(out.Temporal)
	return out, nil
}

func init() {
	hlib.Register("c17_mixed", runC17Mixed)
}
