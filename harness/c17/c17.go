//go:build verif

// Runner "c17": parse -> analysis.AnalyzeOneUnit -> analysis.Stratify ->
// engine.EvalStratifiedProgramWithStats(..., WithCreatedFactLimit(limit)) - the two
// calls engine.EvalProgramWithStats makes, split so that the stratum order the
// engine really used can be reported (Stratify depends on map iteration, and the
// store left behind by an error return depends on which strata ran before).
// Every evaluation runs under a wall-clock guard; a run that does not return is
// reported as err "timeout" (the goroutine is abandoned, the process goes on).
//
// Case: {"src": program text, "pre": ground facts put into the caller's store,
//
//	"store": "simple"|"indexed"|"multi"|"array", "det": bool,
//	"limit": created-fact limit (>= 1), "timeout_ms": guard, "nofacts": bool}
//
// Out:  {"stage": "ok"|"parse"|"analysis"|"stratify", "msg",
//
//	"layers": [["p1","p2"],..]  strata in evaluation order, symbols sorted,
//	"rules": number of rules of the analysed program,
//	"n_before": store count before the call, "n_after": store count at return,
//	"err": ""|"limit"|"eval"|"timeout"|"panic", "emsg", "ms": wall time,
//	"facts": the store read back at return (also after an error)}
//
// Runner "c17_temporal": the N15 probe - a temporal store, one temporal base fact, a
// recursive temporal rule, WithTemporalStore + WithEvaluationTime + limit, same guard.
package main

import (
	"encoding/json"
	"fmt"
	"sort"
	"strings"
	"time"

	"codeberg.org/TauCeti/mangle-go/analysis"
	"codeberg.org/TauCeti/mangle-go/ast"
	"codeberg.org/TauCeti/mangle-go/engine"
	"codeberg.org/TauCeti/mangle-go/factstore"
	"codeberg.org/TauCeti/mangle-go/functional"
	"codeberg.org/TauCeti/mangle-go/parse"
	"mvharness/hlib"
)

type c17Case struct {
	Src       string `json:"src"`
	Pre       string `json:"pre"`
	Store     string `json:"store"`
	Det       bool   `json:"det"`
	Limit     int    `json:"limit"`
	TimeoutMs int    `json:"timeout_ms"`
	NoFacts   bool   `json:"nofacts"` // do not read the store back (sizing runs)
	// TStore: also configure engine.WithTemporalStore(factstore.NewTemporalStore()) and
	// WithEvaluationTime, as the interpreter always does. The program stays non-temporal:
	// the ordinary store must be limited exactly as without the option.
	TStore bool `json:"tstore"`
}

type c17Out struct {
	Stage   string     `json:"stage"`
	Msg     string     `json:"msg,omitempty"`
	Layers  [][]string `json:"layers"`
	Rules   int        `json:"rules"`
	NBefore int        `json:"n_before"`
	NAfter  int        `json:"n_after"`
	Err     string     `json:"err"`
	EMsg    string     `json:"emsg,omitempty"`
	Ms      int64      `json:"ms"`
	Facts   []any      `json:"facts"`
	// facts in the configured temporal store at return (tstore runs; 0 for plain programs)
	Temporal int `json:"temporal"`
}

func constJSON(c ast.Constant) any {
	switch c.Type {
	case ast.NumberType:
		return []any{"n", c.NumValue}
	case ast.NameType:
		return []any{"name", c.Symbol}
	case ast.StringType:
		return []any{"s", c.Symbol}
	case ast.PairShape:
		a, b, err := c.PairValue()
		if err != nil {
			return []any{"other", c.String()}
		}
		return []any{"pair", constJSON(a), constJSON(b)}
	case ast.ListShape:
		elems := []any{}
		c.ListValues(func(e ast.Constant) error {
			elems = append(elems, constJSON(e))
			return nil
		}, func() error { return nil })
		return []any{"list", elems}
	}
	return []any{"other", c.String()}
}

func factJSON(a ast.Atom) any {
	args := []any{}
	for _, t := range a.Args {
		if c, ok := t.(ast.Constant); ok {
			args = append(args, constJSON(c))
		} else {
			args = append(args, []any{"other", t.String()})
		}
	}
	return map[string]any{"p": a.Predicate.Symbol, "args": args}
}

func errClass(err error) string {
	if strings.Contains(err.Error(), "fact size limit") {
		return "limit"
	}
	return "eval"
}

func newStore(kind string) (factstore.FactStore, error) {
	switch kind {
	case "", "simple":
		x := factstore.NewSimpleInMemoryStore()
		return &x, nil
	case "indexed":
		x := factstore.NewIndexedInMemoryStore()
		return &x, nil
	case "multi":
		x := factstore.NewMultiIndexedInMemoryStore()
		return &x, nil
	case "array":
		return factstore.NewMultiIndexedArrayInMemoryStore(), nil
	}
	return nil, fmt.Errorf("unknown store kind %q", kind)
}

func readBack(store factstore.FactStore) []any {
	seen := map[string]any{}
	factstore.GetAllFacts(store, func(a ast.Atom) error {
		seen[a.String()] = factJSON(a)
		return nil
	})
	keys := make([]string, 0, len(seen))
	for k := range seen {
		keys = append(keys, k)
	}
	sort.Strings(keys)
	facts := make([]any, len(keys))
	for i, k := range keys {
		facts[i] = seen[k]
	}
	return facts
}

// evalTime is the fixed evaluation time of every run with a temporal store.
var evalTime = time.Date(2024, 1, 1, 0, 0, 0, 0, time.UTC)

// guardExpiries counts the evaluations of this process that did not return within the
// guard. Each of them is a verdict (b) and leaves a goroutine behind that keeps computing;
// after maxGuardExpiries the remaining cases of the batch are answered with stage
// "skipped" (the check has its verdict; the unchanged tree never gets here).
var guardExpiries int

const maxGuardExpiries = 3

func breakerOpen() bool { return guardExpiries >= maxGuardExpiries }

// guarded runs f under the wall-clock guard: ("", nil-or-error) | ("timeout") | ("panic")
func guarded(timeout time.Duration, f func() error) (class string, msg string, ms int64) {
	type res struct {
		err error
		pan string
	}
	ch := make(chan res, 1)
	start := time.Now()
	go func() {
		defer func() {
			if p := recover(); p != nil {
				ch <- res{pan: fmt.Sprint(p)}
			}
		}()
		ch <- res{err: f()}
	}()
	select {
	case r := <-ch:
		ms = time.Since(start).Milliseconds()
		if r.pan != "" {
			return "panic", r.pan, ms
		}
		if r.err != nil {
			return errClass(r.err), r.err.Error(), ms
		}
		return "", "", ms
	case <-time.After(timeout):
		guardExpiries++
		return "timeout", "", time.Since(start).Milliseconds()
	}
}

func parseFacts(text string) ([]ast.Atom, error) {
	var out []ast.Atom
	if strings.TrimSpace(text) == "" {
		return nil, nil
	}
	pu, err := parse.Unit(strings.NewReader(text))
	if err != nil {
		return nil, err
	}
	for _, cl := range pu.Clauses {
		if len(cl.Premises) != 0 {
			return nil, fmt.Errorf("pre must contain facts only: %v", cl)
		}
		f, err := functional.EvalAtom(cl.Head, nil)
		if err != nil {
			return nil, err
		}
		out = append(out, f)
	}
	return out, nil
}

func runC17(in json.RawMessage) (any, error) {
	var c c17Case
	if err := json.Unmarshal(in, &c); err != nil {
		return nil, err
	}
	if c.TimeoutMs == 0 {
		c.TimeoutMs = 10000
	}
	if c.Limit < 1 {
		return nil, fmt.Errorf("limit must be >= 1")
	}
	if breakerOpen() {
		return c17Out{Stage: "skipped", Msg: "guard expired on earlier cases of this batch"}, nil
	}
	unit, err := parse.Unit(strings.NewReader(c.Src))
	if err != nil {
		return c17Out{Stage: "parse", Msg: err.Error()}, nil
	}
	pre, err := parseFacts(c.Pre)
	if err != nil {
		return c17Out{Stage: "parse", Msg: "pre: " + err.Error()}, nil
	}
	extra := map[ast.PredicateSym]ast.Decl{}
	inSrc := map[ast.PredicateSym]bool{}
	for _, cl := range unit.Clauses {
		inSrc[cl.Head.Predicate] = true
	}
	declare := func(p ast.PredicateSym) {
		if !inSrc[p] && !p.IsBuiltin() {
			if _, ok := extra[p]; !ok {
				extra[p] = ast.NewSyntheticDeclFromSym(p)
			}
		}
	}
	for _, f := range pre {
		declare(f.Predicate)
	}
	for _, cl := range unit.Clauses {
		for _, pr := range cl.Premises {
			switch a := pr.(type) {
			case ast.Atom:
				declare(a.Predicate)
			case ast.NegAtom:
				declare(a.Atom.Predicate)
			}
		}
	}
	info, err := analysis.AnalyzeOneUnit(unit, extra)
	if err != nil {
		return c17Out{Stage: "analysis", Msg: err.Error()}, nil
	}
	// exactly what engine.EvalProgramWithStats does (:171-179)
	strata, predToStratum, err := analysis.Stratify(analysis.Program{
		EdbPredicates: info.EdbPredicates,
		IdbPredicates: info.IdbPredicates,
		Rules:         info.Rules,
	})
	if err != nil {
		return c17Out{Stage: "stratify", Msg: err.Error()}, nil
	}
	layers := make([][]string, len(strata))
	for sym, i := range predToStratum {
		layers[i] = append(layers[i], sym.Symbol)
	}
	for i := range layers {
		sort.Strings(layers[i])
		if layers[i] == nil {
			layers[i] = []string{}
		}
	}
	store, err := newStore(c.Store)
	if err != nil {
		return nil, err
	}
	for _, f := range pre {
		store.Add(f)
	}
	out := c17Out{Stage: "ok", Layers: layers, Rules: len(info.Rules), NBefore: store.EstimateFactCount()}
	opts := []engine.EvalOption{engine.WithCreatedFactLimit(c.Limit)}
	if c.Det {
		opts = append(opts, engine.WithDeterministicOrder())
	}
	var ts *factstore.TemporalStore
	if c.TStore {
		ts = factstore.NewTemporalStore()
		opts = append(opts, engine.WithTemporalStore(ts), engine.WithEvaluationTime(evalTime))
	}
	out.Err, out.EMsg, out.Ms = guarded(time.Duration(c.TimeoutMs)*time.Millisecond, func() error {
		_, err := engine.EvalStratifiedProgramWithStats(info, strata, predToStratum, store, opts...)
		return err
	})
	if out.Err == "timeout" || out.Err == "panic" {
		// the abandoned goroutine may still be writing the store: do not read it
		out.Facts = []any{}
		return out, nil
	}
	out.NAfter = store.EstimateFactCount()
	if ts != nil {
		out.Temporal = ts.EstimateFactCount()
	}
	if c.NoFacts {
		out.Facts = []any{}
	} else {
		out.Facts = readBack(store)
	}
	return out, nil
}

type c17TCase struct {
	Src       string `json:"src"`   // declarations and rules
	Pred      string `json:"pred"`  // predicate of the temporal base fact (arity 1)
	Value     int64  `json:"value"` // its argument
	Limit     int    `json:"limit"`
	TimeoutMs int    `json:"timeout_ms"`
}

type c17TOut struct {
	Stage    string `json:"stage"`
	Msg      string `json:"msg,omitempty"`
	Err      string `json:"err"`
	EMsg     string `json:"emsg,omitempty"`
	Ms       int64  `json:"ms"`
	Plain    int    `json:"plain"`    // facts in the plain store at return
	Temporal int    `json:"temporal"` // facts in the temporal store at return (-1 after a timeout)
}

func runC17Temporal(in json.RawMessage) (any, error) {
	var c c17TCase
	if err := json.Unmarshal(in, &c); err != nil {
		return nil, err
	}
	if c.TimeoutMs == 0 {
		c.TimeoutMs = 5000
	}
	unit, err := parse.Unit(strings.NewReader(c.Src))
	if err != nil {
		return c17TOut{Stage: "parse", Msg: err.Error()}, nil
	}
	info, err := analysis.AnalyzeOneUnit(unit, nil)
	if err != nil {
		return c17TOut{Stage: "analysis", Msg: err.Error()}, nil
	}
	t := time.Date(2024, 1, 1, 0, 0, 0, 0, time.UTC)
	ts := factstore.NewTemporalStore()
	if _, err := ts.Add(ast.NewAtom(c.Pred, ast.Number(c.Value)), ast.NewPointInterval(t)); err != nil {
		return nil, err
	}
	plain := factstore.NewSimpleInMemoryStore()
	out := c17TOut{Stage: "ok"}
	out.Err, out.EMsg, out.Ms = guarded(time.Duration(c.TimeoutMs)*time.Millisecond, func() error {
		return engine.EvalProgram(info, &plain, engine.WithTemporalStore(ts), engine.WithEvaluationTime(t),
			engine.WithCreatedFactLimit(c.Limit))
	})
	if out.Err == "timeout" || out.Err == "panic" {
		out.Temporal = -1
		return out, nil
	}
	out.Plain = plain.EstimateFactCount()
	out.Temporal = ts.EstimateFactCount()
	return out, nil
}

func init() {
	hlib.Register("c17", runC17)
	hlib.Register("c17_temporal", runC17Temporal)
}
