//go:build verif

package main

import (
	"fmt"
	"time"

	"codeberg.org/TauCeti/mangle-go/ast"
	"codeberg.org/TauCeti/mangle-go/factstore"
)

// Adapter configurations of C06: temporal stores that are written directly with
// (atom, interval) pairs and observed through TemporalFactStoreAdapter, unpinned
// (NewTemporalFactStoreAdapter) or pinned at an instant
// (NewTemporalFactStoreAdapterAt).

// A temporal store of the case: "tstore" = NewTemporalStore(), "ttee" =
// NewTeeingTemporalStore over an earlier temporal store (what the interpreter
// pushes for every loaded fragment).
type jTStore struct {
	K    string `json:"k"`
	Base int    `json:"base,omitempty"`
}

func mkTStores(defs []jTStore) ([]factstore.TemporalFactStore, error) {
	ts := make([]factstore.TemporalFactStore, len(defs))
	for i, d := range defs {
		switch d.K {
		case "tstore":
			ts[i] = factstore.NewTemporalStore()
		case "ttee":
			if d.Base < 0 || d.Base >= i {
				return nil, fmt.Errorf("temporal store %d: bad base %d", i, d.Base)
			}
			ts[i] = factstore.NewTeeingTemporalStore(ts[d.Base])
		default:
			return nil, fmt.Errorf("bad temporal store kind %q", d.K)
		}
	}
	return ts, nil
}

// mkAdapter builds the adapter of a "tadapter" slot: pinned iff at != nil
// (Unix nanoseconds).
func mkAdapter(ts []factstore.TemporalFactStore, idx int, at *int64) (factstore.FactStore, error) {
	if idx < 0 || idx >= len(ts) {
		return nil, fmt.Errorf("adapter over unknown temporal store %d", idx)
	}
	if at != nil {
		return factstore.NewTemporalFactStoreAdapterAt(ts[idx], time.Unix(0, *at)), nil
	}
	return factstore.NewTemporalFactStoreAdapter(ts[idx]), nil
}

// mkInterval: nil = unbounded on that side, otherwise Unix nanoseconds.
func mkInterval(lo, hi *int64) ast.Interval {
	iv := ast.Interval{Start: ast.NegativeInfinity(), End: ast.PositiveInfinity()}
	if lo != nil {
		iv.Start = ast.TemporalBound{Type: ast.TimestampBound, Timestamp: *lo}
	}
	if hi != nil {
		iv.End = ast.TemporalBound{Type: ast.TimestampBound, Timestamp: *hi}
	}
	return iv
}

// tAdd is the direct write TemporalFactStore.Add(atom, [lo, hi]): true/false as
// returned, "err" if the store rejected the interval.
func tAdd(ts []factstore.TemporalFactStore, idx int, a ast.Atom, lo, hi *int64) (any, error) {
	if idx < 0 || idx >= len(ts) {
		return nil, fmt.Errorf("tadd on unknown temporal store %d", idx)
	}
	added, err := ts[idx].Add(a, mkInterval(lo, hi))
	if err != nil {
		return "err", nil
	}
	return added, nil
}
