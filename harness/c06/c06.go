//go:build verif

package main

import (
	"encoding/hex"
	"encoding/json"
	"fmt"
	"math"
	"strconv"
	"strings"

	"codeberg.org/TauCeti/mangle-go/ast"
	"codeberg.org/TauCeti/mangle-go/factstore"
	"mvharness/hlib"
)

// A constant of any kind. Maps and structs are built with MapCons/StructCons in
// the order given, so the JSON text determines the structure.
type jConst struct {
	K string          `json:"k"`
	V json.RawMessage `json:"v,omitempty"`
	C []jConst        `json:"c,omitempty"`
}

func mkConst(j jConst) ast.Constant {
	switch j.K {
	case "name":
		var s string
		json.Unmarshal(j.V, &s)
		c, err := ast.Name(s)
		if err != nil {
			panic(err)
		}
		return c
	case "str":
		var s string
		json.Unmarshal(j.V, &s)
		return ast.String(s)
	case "bytes":
		var s string
		json.Unmarshal(j.V, &s)
		b, err := hex.DecodeString(s)
		if err != nil {
			panic(err)
		}
		return ast.Bytes(b)
	case "num":
		var n int64
		json.Unmarshal(j.V, &n)
		return ast.Number(n)
	case "f64":
		var n uint64
		json.Unmarshal(j.V, &n)
		return ast.Float64(math.Float64frombits(n))
	case "time":
		var n int64
		json.Unmarshal(j.V, &n)
		return ast.Time(n)
	case "dur":
		var n int64
		json.Unmarshal(j.V, &n)
		return ast.Duration(n)
	case "pair":
		a, b := mkConst(j.C[0]), mkConst(j.C[1])
		return ast.Pair(&a, &b)
	case "list":
		cs := make([]ast.Constant, len(j.C))
		for i, e := range j.C {
			cs[i] = mkConst(e)
		}
		return ast.List(cs)
	case "map":
		m := &ast.MapNil
		for i := len(j.C) - 2; i >= 0; i -= 2 {
			k, v := mkConst(j.C[i]), mkConst(j.C[i+1])
			next := ast.MapCons(&k, &v, m)
			m = &next
		}
		return *m
	case "struct":
		m := &ast.StructNil
		for i := len(j.C) - 2; i >= 0; i -= 2 {
			k, v := mkConst(j.C[i]), mkConst(j.C[i+1])
			next := ast.StructCons(&k, &v, m)
			m = &next
		}
		return *m
	}
	panic("bad constant kind " + j.K)
}

type jAtom struct {
	Sym  int   `json:"sym"`
	Args []int `json:"args"`
}
type jStore struct {
	K     string `json:"k"`
	Reads []int  `json:"reads,omitempty"`
	W     int    `json:"w,omitempty"`
	Base  int    `json:"base,omitempty"`
	TS    int    `json:"ts,omitempty"` // "tadapter": index into tstores
	At    *int64 `json:"at,omitempty"` // "tadapter": pinned instant (Unix ns), nil = unpinned
}
type jOp struct {
	S    int    `json:"s"`
	Op   string `json:"op"`
	A    int    `json:"a,omitempty"`
	Sym  int    `json:"sym,omitempty"`
	Args []*int `json:"args,omitempty"`
	From int    `json:"from,omitempty"`
	TS   int    `json:"ts,omitempty"` // "tadd": temporal store written directly
	Lo   *int64 `json:"lo,omitempty"` // "tadd": interval bounds, nil = unbounded
	Hi   *int64 `json:"hi,omitempty"`
}
type jCase struct {
	Consts  []jConst  `json:"consts"`
	Atoms   []jAtom   `json:"atoms"`
	Stores  []jStore  `json:"stores"`
	TStores []jTStore `json:"tstores,omitempty"` // adapter configurations (adapter.go)
	Ops     []jOp     `json:"ops"`
}
type jOut struct {
	AHash []uint64 `json:"ahash"`
	CHash []uint64 `json:"chash"`
	CEq   []int    `json:"ceq"` // smallest j with consts[j].Equals(consts[i])
	AEq   []int    `json:"aeq"`
	Res   []any    `json:"res"`
}

func symName(i int) string { return fmt.Sprintf("p%d", i) }
func symIdx(s string) int {
	n, err := strconv.Atoi(strings.TrimPrefix(s, "p"))
	if err != nil {
		return -1
	}
	return n
}

func runC06(in json.RawMessage) (any, error) {
	var c jCase
	if err := json.Unmarshal(in, &c); err != nil {
		return nil, err
	}
	consts := make([]ast.Constant, len(c.Consts))
	out := jOut{Res: []any{}}
	for i, j := range c.Consts {
		consts[i] = mkConst(j)
		out.CHash = append(out.CHash, consts[i].Hash())
		eq := i
		for k := 0; k < i; k++ {
			if consts[k].Equals(consts[i]) {
				eq = k
				break
			}
		}
		out.CEq = append(out.CEq, eq)
	}
	atoms := make([]ast.Atom, len(c.Atoms))
	for i, a := range c.Atoms {
		args := make([]ast.BaseTerm, len(a.Args))
		for k, x := range a.Args {
			args[k] = consts[x]
		}
		atoms[i] = ast.NewAtom(symName(a.Sym), args...)
		out.AHash = append(out.AHash, atoms[i].Hash())
		eq := i
		for k := 0; k < i; k++ {
			if atoms[k].Equals(atoms[i]) {
				eq = k
				break
			}
		}
		out.AEq = append(out.AEq, eq)
	}
	// identify an atom handed back by a store: the first atom of the case that
	// Equals it and prints the same
	ident := func(a ast.Atom) any {
		for i := range atoms {
			if atoms[i].Equals(a) && atoms[i].String() == a.String() {
				return i
			}
		}
		return "foreign:" + a.String()
	}
	tstores, err := mkTStores(c.TStores)
	if err != nil {
		return nil, err
	}
	stores := make([]factstore.FactStore, len(c.Stores))
	for i, d := range c.Stores {
		switch d.K {
		case "simple":
			stores[i] = factstore.NewSimpleInMemoryStore()
		case "indexed":
			stores[i] = factstore.NewIndexedInMemoryStore()
		case "multi":
			stores[i] = factstore.NewMultiIndexedInMemoryStore()
		case "array":
			stores[i] = factstore.NewMultiIndexedArrayInMemoryStore()
		case "temporal":
			stores[i] = factstore.NewTemporalFactStoreAdapter(factstore.NewTemporalStore())
		case "tadapter":
			ad, err := mkAdapter(tstores, d.TS, d.At)
			if err != nil {
				return nil, err
			}
			stores[i] = ad
		case "merged":
			var rs []factstore.ReadOnlyFactStore
			for _, r := range d.Reads {
				rs = append(rs, stores[r])
			}
			stores[i] = factstore.NewMergedStore(rs, stores[d.W])
		case "tee":
			stores[i] = factstore.NewTeeingStore(stores[d.Base])
		case "conc":
			b, ok := stores[d.Base].(factstore.FactStoreWithRemove)
			if !ok {
				return nil, fmt.Errorf("slot %d cannot be the base of a concurrent store", d.Base)
			}
			stores[i] = factstore.NewConcurrentFactStore(b)
		default:
			return nil, fmt.Errorf("bad store kind %q", d.K)
		}
	}
	for _, o := range c.Ops {
		if o.Op == "tadd" {
			r, err := tAdd(tstores, o.TS, atoms[o.A], o.Lo, o.Hi)
			if err != nil {
				return nil, err
			}
			out.Res = append(out.Res, r)
			continue
		}
		st := stores[o.S]
		switch o.Op {
		case "add":
			out.Res = append(out.Res, st.Add(atoms[o.A]))
		case "remove":
			if r, ok := st.(factstore.FactStoreWithRemove); ok {
				out.Res = append(out.Res, r.Remove(atoms[o.A]))
			} else {
				out.Res = append(out.Res, "unsupported")
			}
		case "contains":
			out.Res = append(out.Res, st.Contains(atoms[o.A]))
		case "get":
			args := make([]ast.BaseTerm, len(o.Args))
			for k, x := range o.Args {
				if x == nil {
					args[k] = ast.Variable{Symbol: fmt.Sprintf("X%d", k)}
				} else {
					args[k] = consts[*x]
				}
			}
			got := []any{}
			err := st.GetFacts(ast.NewAtom(symName(o.Sym), args...), func(a ast.Atom) error {
				got = append(got, ident(a))
				return nil
			})
			if err != nil {
				return nil, err
			}
			out.Res = append(out.Res, got)
		case "preds":
			ps := [][]int{}
			for _, p := range st.ListPredicates() {
				ps = append(ps, []int{symIdx(p.Symbol), p.Arity})
			}
			out.Res = append(out.Res, ps)
		case "count":
			out.Res = append(out.Res, st.EstimateFactCount())
		case "merge":
			st.Merge(stores[o.From])
			out.Res = append(out.Res, nil)
		default:
			return nil, fmt.Errorf("bad op %q", o.Op)
		}
	}
	return out, nil
}

func init() { hlib.Register("c06", runC06) }
