//go:build verif

package main

import (
	"encoding/hex"
	"encoding/json"
	"math"
	"regexp"
	"strconv"
	"strings"
	"time"

	"codeberg.org/TauCeti/mangle-go/ast"
	"mvharness/hlib"
)

type c08Atom struct {
	Sym  string            `json:"sym"` // hex
	Args []json.RawMessage `json:"args"`
}

type c08Case struct {
	Consts []json.RawMessage `json:"consts"`
	Atoms  []c08Atom         `json:"atoms"`
}

type c08Obs struct {
	S string `json:"s"` // hex of String()
	H string `json:"h"` // Hash() as decimal text
}

type c08Out struct {
	Tables *LibTables `json:"tables"`
	// the constants built directly (n entries) followed by the same constants
	// built through functional.EvalExpr (n entries)
	Consts []c08Obs `json:"consts"`
	CMat   [][]bool `json:"cmat"`
	Atoms  []c08Obs `json:"atoms"`
	AMat   [][]bool `json:"amat"`
}

func init() {
	hlib.Register("c08", func(in json.RawMessage) (any, error) {
		var c c08Case
		if err := json.Unmarshal(in, &c); err != nil {
			return nil, err
		}
		out := c08Out{Tables: NewLibTables(), Consts: []c08Obs{}, CMat: [][]bool{}, Atoms: []c08Obs{}, AMat: [][]bool{}}
		var direct, evald []ast.Constant
		for _, raw := range c.Consts {
			jt, err := parseJTerm(raw)
			if err != nil {
				return nil, err
			}
			out.Tables.Collect(jt)
			d, err := jt.Const()
			if err != nil {
				return nil, err
			}
			e, err := jt.Eval()
			if err != nil {
				return nil, err
			}
			direct = append(direct, d)
			evald = append(evald, e)
		}
		all := append(append([]ast.Constant{}, direct...), evald...)
		for _, k := range all {
			out.Consts = append(out.Consts, c08Obs{hex.EncodeToString([]byte(k.String())), strconv.FormatUint(k.Hash(), 10)})
		}
		for i, k := range all {
			row := make([]bool, len(all))
			for j, u := range all {
				if (i+j)%2 == 0 {
					row[j] = k.Equals(u) // value argument
				} else {
					u := u
					row[j] = k.Equals(&u) // pointer argument (the other branch of Equals)
				}
			}
			out.CMat = append(out.CMat, row)
		}
		var atoms []ast.Atom
		for _, a := range c.Atoms {
			sym, err := hex.DecodeString(a.Sym)
			if err != nil {
				return nil, err
			}
			var args []ast.BaseTerm
			for _, raw := range a.Args {
				jt, err := parseJTerm(raw)
				if err != nil {
					return nil, err
				}
				if jt.Kind == "var" {
					b, err := hex.DecodeString(jt.Text)
					if err != nil {
						return nil, err
					}
					args = append(args, ast.Variable{Symbol: string(b)})
					continue
				}
				out.Tables.Collect(jt)
				k, err := jt.Const()
				if err != nil {
					return nil, err
				}
				args = append(args, k)
			}
			atoms = append(atoms, ast.NewAtom(string(sym), args...))
		}
		for _, a := range atoms {
			out.Atoms = append(out.Atoms, c08Obs{hex.EncodeToString([]byte(a.String())), strconv.FormatUint(a.Hash(), 10)})
		}
		for _, a := range atoms {
			row := make([]bool, len(atoms))
			for j, b := range atoms {
				row[j] = a.Equals(b)
			}
			out.AMat = append(out.AMat, row)
		}
		return out, nil
	})

	// does ast.Name accept the symbol (hex)?
	hlib.Register("c08_name", func(in json.RawMessage) (any, error) {
		var h string
		if err := json.Unmarshal(in, &h); err != nil {
			return nil, err
		}
		b, err := hex.DecodeString(h)
		if err != nil {
			return nil, err
		}
		_, err = ast.Name(string(b))
		return err == nil, nil
	})

	// N9 probe: a map / struct whose keys are equal: the element order follows
	// Go's map iteration. Returns the distinct printed forms over 200 builds.
	hlib.Register("c08_n9", func(in json.RawMessage) (any, error) {
		seen := map[string]bool{}
		for i := 0; i < 200; i++ {
			k1, _ := ast.Name("/a")
			k2, _ := ast.Name("/a")
			v1, v2 := ast.Number(1), ast.Number(2)
			m := ast.Map(map[*ast.Constant]*ast.Constant{&k1: &v1, &k2: &v2})
			seen[m.String()] = true
		}
		var res []string
		for s := range seen {
			res = append(res, s)
		}
		return res, nil
	})

	// Laws assumed of the formatting library, sampled on the real library:
	// float: finite x -> text matches -?[0-9]+(\.[0-9]+)? and parses back to the same bits;
	// time / duration: text has no '"' or '\' and parses back to the same int64.
	floatRe := regexp.MustCompile(`^-?[0-9]+(\.[0-9]+)?$`)
	hlib.Register("c08_lib", func(in json.RawMessage) (any, error) {
		var c struct {
			F []string `json:"f"`
			T []string `json:"t"`
			D []string `json:"d"`
		}
		if err := json.Unmarshal(in, &c); err != nil {
			return nil, err
		}
		bad := []string{}
		for _, s := range c.F {
			u, err := strconv.ParseUint(s, 10, 64)
			if err != nil {
				return nil, err
			}
			x := math.Float64frombits(u)
			if math.IsInf(x, 0) || math.IsNaN(x) {
				continue
			}
			txt := strconv.FormatFloat(x, 'f', -1, 64)
			y, err := strconv.ParseFloat(txt, 64)
			if !floatRe.MatchString(txt) || err != nil || math.Float64bits(y) != u {
				bad = append(bad, "f64 "+s+" -> "+txt)
			}
		}
		for _, s := range c.T {
			n, err := strconv.ParseInt(s, 10, 64)
			if err != nil {
				return nil, err
			}
			txt := time.Unix(0, n).UTC().Format(time.RFC3339Nano)
			back, err := time.Parse(time.RFC3339Nano, txt)
			if strings.ContainsAny(txt, "\"\\") || err != nil || back.UnixNano() != n {
				bad = append(bad, "time "+s+" -> "+txt)
			}
		}
		for _, s := range c.D {
			n, err := strconv.ParseInt(s, 10, 64)
			if err != nil {
				return nil, err
			}
			txt := time.Duration(n).String()
			back, err := time.ParseDuration(txt)
			if strings.ContainsAny(txt, "\"\\") || err != nil || int64(back) != n {
				bad = append(bad, "dur "+s+" -> "+txt)
			}
		}
		return bad, nil
	})
}
