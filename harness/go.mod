module mvharness

go 1.25.0

require (
	codeberg.org/TauCeti/mangle-go v0.0.0
	github.com/klauspost/compress v1.18.6
)

require (
	bitbucket.org/creachadair/stringset v0.0.14 // indirect
	github.com/antlr4-go/antlr/v4 v4.13.1 // indirect
	github.com/chzyer/readline v1.5.1 // indirect
	go.uber.org/multierr v1.11.0 // indirect
	golang.org/x/exp v0.0.0-20260611194520-c48552f49976 // indirect
)

replace codeberg.org/TauCeti/mangle-go => /repo
