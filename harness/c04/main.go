//go:build verif

package main

import "mvharness/hlib"

func main() { hlib.Main() }
