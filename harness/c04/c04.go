//go:build verif

// Runner "c04": parse -> analysis.AnalyzeOneUnit -> engine.EvalProgram for a program
// that consists of base facts and ONE rule. Observations:
//   - the verdict of analysis (accepted / rejected + message),
//   - the rewritten rule as analysis hands it to the engine: its printed form and, for
//     each of its premises, the index of the premise of the rule as written that prints
//     the same (-1 if there is none left: a premise was duplicated or invented),
//   - evaluation under recover(), a created-fact limit and a wall-clock guard: error class
//     and message, or the facts of the rule's head predicate,
//   - a groundness scan over the whole store.
//
// Case: {"src": text, "extra": [["p1",1],..] predicates to declare to the analysis
//        although no clause defines them, "limit": n, "timeout_ms": n}
// Out:  {"stage": "parse"|"analysis"|"apanic"|"ok", "msg", "rule", "perm": [..], "nprem": n,
//        "err": ""|"eval"|"limit"|"panic"|"timeout", "emsg", "facts": [..], "nonground": [..]}
package main

import (
	"encoding/json"
	"fmt"
	"runtime/debug"
	"sort"
	"strings"
	"time"

	"codeberg.org/TauCeti/mangle-go/analysis"
	"codeberg.org/TauCeti/mangle-go/ast"
	"codeberg.org/TauCeti/mangle-go/engine"
	"codeberg.org/TauCeti/mangle-go/factstore"
	"codeberg.org/TauCeti/mangle-go/parse"
	"mvharness/hlib"
)

type c04Case struct {
	Src       string  `json:"src"`
	Extra     [][]any `json:"extra"`
	Limit     int     `json:"limit"`
	TimeoutMs int     `json:"timeout_ms"`
}

type c04Out struct {
	Stage     string   `json:"stage"`
	Msg       string   `json:"msg,omitempty"`
	Rule      string   `json:"rule,omitempty"`
	Perm      []int    `json:"perm"`
	NPrem     int      `json:"nprem"`
	Err       string   `json:"err"`
	EMsg      string   `json:"emsg,omitempty"`
	Facts     []any    `json:"facts"`
	NonGround []string `json:"nonground"`
}

func constJSON(c ast.Constant) any {
	switch c.Type {
	case ast.NumberType:
		return []any{"n", c.NumValue}
	case ast.NameType:
		return []any{"name", c.Symbol}
	case ast.StringType:
		return []any{"s", c.Symbol}
	case ast.PairShape:
		a, b, err := c.PairValue()
		if err != nil {
			return []any{"other", c.String()}
		}
		return []any{"pair", constJSON(a), constJSON(b)}
	case ast.ListShape:
		elems := []any{}
		c.ListValues(func(e ast.Constant) error {
			elems = append(elems, constJSON(e))
			return nil
		}, func() error { return nil })
		return []any{"list", elems}
	case ast.MapShape:
		// built-in stream (:match_entry): entries in the order of the constant
		ents := []any{}
		c.MapValues(func(k, v ast.Constant) error {
			ents = append(ents, []any{constJSON(k), constJSON(v)})
			return nil
		}, func() error { return nil })
		return []any{"map", ents}
	case ast.StructShape:
		ents := []any{}
		c.StructValues(func(k, v ast.Constant) error {
			ents = append(ents, []any{constJSON(k), constJSON(v)})
			return nil
		}, func() error { return nil })
		return []any{"struct", ents}
	}
	return []any{"other", c.String()}
}

func runC04(in json.RawMessage) (any, error) {
	var c c04Case
	if err := json.Unmarshal(in, &c); err != nil {
		return nil, err
	}
	if c.TimeoutMs == 0 {
		c.TimeoutMs = 10000
	}
	out := c04Out{Perm: []int{}, Facts: []any{}, NonGround: []string{}}
	unit, err := parse.Unit(strings.NewReader(c.Src))
	if err != nil {
		out.Stage, out.Msg = "parse", err.Error()
		return out, nil
	}
	var rule *ast.Clause
	for i := range unit.Clauses {
		if len(unit.Clauses[i].Premises) > 0 {
			if rule != nil {
				return nil, fmt.Errorf("more than one rule in the case")
			}
			rule = &unit.Clauses[i]
		}
	}
	if rule == nil {
		return nil, fmt.Errorf("no rule in the case")
	}
	var orig []string
	for _, p := range rule.Premises {
		orig = append(orig, p.String())
	}
	out.NPrem = len(orig)
	head := rule.Head.Predicate
	extra := map[ast.PredicateSym]ast.Decl{}
	for _, e := range c.Extra {
		name, _ := e[0].(string)
		ar, _ := e[1].(float64)
		sym := ast.PredicateSym{Symbol: name, Arity: int(ar)}
		extra[sym] = ast.NewSyntheticDeclFromSym(sym)
	}
	for _, cl := range unit.Clauses {
		delete(extra, cl.Head.Predicate)
	}
	// a panic inside analysis is reported as its own stage (known finding N24 lives in
	// the bounds checker); the property speaks about evaluation
	info, err, apanic := func() (pi *analysis.ProgramInfo, e error, pan string) {
		defer func() {
			if p := recover(); p != nil {
				pan = fmt.Sprintf("%v\n%s", p, debug.Stack())
			}
		}()
		pi, e = analysis.AnalyzeOneUnit(unit, extra)
		return
	}()
	if apanic != "" {
		out.Stage, out.Msg = "apanic", apanic
		return out, nil
	}
	if err != nil {
		out.Stage, out.Msg = "analysis", err.Error()
		return out, nil
	}
	out.Stage = "ok"
	for _, r := range info.Rules {
		if r.Head.Predicate != head {
			continue
		}
		out.Rule = r.String()
		used := make([]bool, len(orig))
		for _, p := range r.Premises {
			s := p.String()
			idx := -1
			for i, o := range orig {
				if !used[i] && o == s {
					idx = i
					used[i] = true
					break
				}
			}
			out.Perm = append(out.Perm, idx)
		}
	}
	store := factstore.NewSimpleInMemoryStore()
	opts := []engine.EvalOption{}
	if c.Limit > 0 {
		opts = append(opts, engine.WithCreatedFactLimit(c.Limit))
	}
	type res struct {
		err error
		pan string
	}
	ch := make(chan res, 1)
	go func() {
		defer func() {
			if p := recover(); p != nil {
				ch <- res{pan: fmt.Sprint(p)}
			}
		}()
		ch <- res{err: engine.EvalProgram(info, &store, opts...)}
	}()
	select {
	case r := <-ch:
		if r.pan != "" {
			out.Err, out.EMsg = "panic", r.pan
			return out, nil
		}
		if r.err != nil {
			out.Err, out.EMsg = "eval", r.err.Error()
			if strings.Contains(out.EMsg, "fact size limit") {
				out.Err = "limit"
			}
			return out, nil
		}
	case <-time.After(time.Duration(c.TimeoutMs) * time.Millisecond):
		out.Err = "timeout"
		return out, nil
	}
	seen := map[string]any{}
	factstore.GetAllFacts(&store, func(a ast.Atom) error {
		ground := true
		args := []any{}
		for _, t := range a.Args {
			if k, ok := t.(ast.Constant); ok {
				args = append(args, constJSON(k))
			} else {
				ground = false
			}
		}
		if !ground {
			out.NonGround = append(out.NonGround, a.String())
			return nil
		}
		if a.Predicate == head {
			seen[a.String()] = map[string]any{"p": a.Predicate.Symbol, "args": args}
		}
		return nil
	})
	keys := make([]string, 0, len(seen))
	for k := range seen {
		keys = append(keys, k)
	}
	sort.Strings(keys)
	for _, k := range keys {
		out.Facts = append(out.Facts, seen[k])
	}
	sort.Strings(out.NonGround)
	return out, nil
}

func init() { hlib.Register("c04", runC04) }
