//go:build verif

// Package hlib runs the real mangle implementation (module replaced by
// /repo's current working tree) on cases read from stdin, one JSON value per
// line, and writes one JSON value per line. Each property registers a runner
// in its own file (cNN.go) from an init function.
package hlib

import (
	"bufio"
	"encoding/json"
	"fmt"
	"os"
	"runtime/debug"
	"sort"
)

// Runner executes one case and returns a JSON-serialisable observation.
type Runner func(in json.RawMessage) (any, error)

var runners = map[string]Runner{}

func Register(name string, r Runner) { runners[name] = r }

type outcome struct {
	Out   any    `json:"out,omitempty"`
	Err   string `json:"err,omitempty"`
	Panic string `json:"panic,omitempty"`
}

func runOne(r Runner, in json.RawMessage) (o outcome) {
	defer func() {
		if p := recover(); p != nil {
			o = outcome{Panic: fmt.Sprintf("%v\n%s", p, debug.Stack())}
		}
	}()
	out, err := r(in)
	if err != nil {
		return outcome{Err: err.Error()}
	}
	return outcome{Out: out}
}

func Main() {
	if len(os.Args) < 2 {
		names := []string{}
		for n := range runners {
			names = append(names, n)
		}
		sort.Strings(names)
		fmt.Fprintln(os.Stderr, "usage: harness <runner>; runners:", names)
		os.Exit(2)
	}
	r, ok := runners[os.Args[1]]
	if !ok {
		fmt.Fprintln(os.Stderr, "unknown runner", os.Args[1])
		os.Exit(2)
	}
	sc := bufio.NewScanner(os.Stdin)
	sc.Buffer(make([]byte, 1<<20), 1<<28)
	w := bufio.NewWriter(os.Stdout)
	defer w.Flush()
	enc := json.NewEncoder(w)
	for sc.Scan() {
		line := sc.Bytes()
		if len(line) == 0 {
			continue
		}
		cp := make([]byte, len(line))
		copy(cp, line)
		if err := enc.Encode(runOne(r, cp)); err != nil {
			fmt.Fprintln(os.Stderr, "encode:", err)
			os.Exit(3)
		}
	}
}
