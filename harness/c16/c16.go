//go:build verif

package main

import (
	"bytes"
	"encoding/json"
	"errors"
	"fmt"
	"io/fs"
	"os"
	"path/filepath"
	"sort"
	"strings"

	"codeberg.org/TauCeti/mangle-go/interpreter"
	"mvharness/hlib"
)

// C16: command histories on the real interpreter (M), on fresh interpreters replaying
// only the live commands (F, the property's oracle), and the parse/analyse/eval tables
// observed on F for the Coq model.

type c16Cmd struct {
	Op   string `json:"op"` // define | load | pop | query
	Text string `json:"text,omitempty"`
	Path string `json:"path,omitempty"`
	Q    string `json:"q,omitempty"`
}

type c16Case struct {
	Files    map[string]string `json:"files"`
	Universe []string          `json:"universe"`
	Cmds     []c16Cmd          `json:"cmds"`
}

// src of a fragment: {"f": pathset} or {"i": [chunk texts]}
type c16Src struct {
	F *string  `json:"f,omitempty"`
	I []string `json:"i,omitempty"`
}

type c16Decl struct {
	Name string `json:"name"`
	Src  c16Src `json:"src"`
}

type c16Obs struct {
	Preds map[string][]string `json:"preds"` // name -> sorted fact strings; absent name = not found
	Show  []string            `json:"show"`  // Show("all") lines
}

type c16Step struct {
	Res  int    `json:"res"`
	Obs  c16Obs `json:"obs"`
	FRes int    `json:"fres"`
	FObs c16Obs `json:"fobs"`
	Live []int  `json:"live"`
}

type c16P struct {
	Src c16Src `json:"src"`
	Ok  bool   `json:"ok"`
}
type c16A struct {
	Src   c16Src    `json:"src"`
	Known []c16Decl `json:"known"`
	Ok    bool      `json:"ok"`
	Prog  int       `json:"prog"`
	Decls []c16Decl `json:"decls"`
}
type c16E struct {
	Prog    int         `json:"prog"`
	Visible [][2]string `json:"visible"`
	Facts   [][2]string `json:"facts"`
	Ok      bool        `json:"ok"`
}

type c16Out struct {
	Steps []c16Step `json:"steps"`
	PTab  []c16P    `json:"ptab"`
	ATab  []c16A    `json:"atab"`
	ETab  []c16E    `json:"etab"`
}

const (
	rOk = iota
	rParse
	rAnalysis
	rEval
	rUnknown
)

type c16Interp struct {
	i   *interpreter.Interpreter
	out *bytes.Buffer
}

func newInterp(root string) *c16Interp {
	out := &bytes.Buffer{}
	return &c16Interp{interpreter.New(out, root, nil), out}
}

func (m *c16Interp) exec(c c16Cmd) int {
	m.out.Reset()
	switch c.Op {
	case "define":
		err := m.i.Define(c.Text)
		switch {
		case err == nil:
			return rOk
		case strings.HasPrefix(err.Error(), "parsing failed"):
			return rParse
		case strings.HasPrefix(err.Error(), "analysis failed"):
			return rAnalysis
		case strings.HasPrefix(err.Error(), "evaluation failed"):
			return rEval
		}
		panic("unclassified Define error: " + err.Error())
	case "load":
		err := m.i.Load(c.Path)
		switch {
		case err == nil:
			return rOk
		case strings.HasPrefix(err.Error(), "evaluation failed") || strings.Contains(m.out.String(), "loaded "):
			// analysis passed, evaluation failed (a tree before fix N32 printed "loaded" first
			// and returned the bare error)
			return rEval
		case errors.Is(err, fs.ErrNotExist) || strings.HasPrefix(err.Error(), "error parsing"):
			return rParse
		}
		return rAnalysis
	case "pop":
		m.i.Pop()
		return rOk
	case "query":
		if err := m.i.QueryInteractive(c.Q); err != nil {
			return rUnknown
		}
		return rOk
	}
	panic("bad op " + c.Op)
}

func (m *c16Interp) observe(universe []string) c16Obs {
	o := c16Obs{Preds: map[string][]string{}}
	for _, name := range universe {
		q, err := m.i.ParseQuery(name)
		if err != nil {
			continue
		}
		res, err := m.i.Query(q)
		if err != nil {
			panic(err)
		}
		facts := []string{}
		for _, t := range res {
			facts = append(facts, t.String())
		}
		sort.Strings(facts)
		o.Preds[name] = facts
	}
	m.out.Reset()
	if err := m.i.Show("all"); err != nil {
		panic(err)
	}
	for _, l := range strings.Split(m.out.String(), "\n") {
		if l != "" {
			o.Show = append(o.Show, l)
		}
	}
	m.out.Reset()
	return o
}

func visibleOf(o c16Obs) [][2]string {
	v := [][2]string{}
	names := []string{}
	for n := range o.Preds {
		names = append(names, n)
	}
	sort.Strings(names)
	for _, n := range names {
		for _, f := range o.Preds[n] {
			v = append(v, [2]string{n, f})
		}
	}
	return v
}

// multiset difference a - b
func minus(a, b [][2]string) [][2]string {
	cnt := map[[2]string]int{}
	for _, x := range b {
		cnt[x]++
	}
	r := [][2]string{}
	for _, x := range a {
		if cnt[x] > 0 {
			cnt[x]--
			continue
		}
		r = append(r, x)
	}
	return r
}

// fresh is the oracle interpreter plus what the harness knows about its base
// (the state under the interactive fragment).
type fresh struct {
	m           *c16Interp
	baseKnown   []c16Decl
	baseVisible [][2]string
	chunks      []string
	stack       []string // the loaded fragments under the interactive one (JSON of their src)
}

// keyKnown is the known-predicate table as the analysis key of the model sees it: the
// declarations known below the new fragment, plus one pseudo entry (empty name) that
// identifies the whole stack of loaded fragments. What a declaration says (bounds,
// synthetic or not, overridden by a later Decl) is a function of that stack, so two
// analysis calls with equal keys have equal results.
func (f *fresh) keyKnown(extra ...string) []c16Decl {
	st := append(append([]string{}, f.stack...), extra...)
	if len(st) == 0 { // interpreter.New: the table is empty
		return append([]c16Decl{}, f.baseKnown...)
	}
	return append([]c16Decl{{"", c16Src{I: st}}}, f.baseKnown...)
}

type tabs struct {
	out   *c16Out
	akeys map[string]int
	pkeys map[string]bool
	ekeys map[string]bool
}

func jkey(v ...any) string { b, _ := json.Marshal(v); return string(b) }

func (t *tabs) record(f *fresh, c c16Cmd, res int, universe []string) {
	var src c16Src
	if c.Op == "define" {
		src = c16Src{I: append(append([]string{}, f.chunks...), c.Text)}
	} else {
		p := c.Path
		src = c16Src{F: &p}
	}
	if k := jkey(src); !t.pkeys[k] {
		t.pkeys[k] = true
		t.out.PTab = append(t.out.PTab, c16P{src, res != rParse})
	}
	if res == rParse {
		return
	}
	ak := jkey(src, f.keyKnown())
	prog, seen := t.akeys[ak]
	after := f.m.observe(universe)
	decls := f.keyKnown(jkey(src))
	if res == rOk { // a rejected define / load pushes nothing: what its program declares is never seen
		have := map[string]bool{}
		for _, d := range f.baseKnown {
			have[d.Name] = true
		}
		names := []string{}
		for n := range after.Preds {
			if !have[n] {
				names = append(names, n)
			}
		}
		sort.Strings(names)
		for _, n := range names {
			decls = append(decls, c16Decl{n, src})
		}
	}
	if !seen {
		prog = len(t.akeys) + 1
		t.akeys[ak] = prog
		t.out.ATab = append(t.out.ATab, c16A{src, f.keyKnown(), res != rAnalysis, prog, decls})
	}
	if res == rAnalysis {
		return
	}
	ek := jkey(prog, f.baseVisible)
	if !t.ekeys[ek] {
		t.ekeys[ek] = true
		facts := [][2]string{}
		if res == rOk {
			facts = minus(visibleOf(after), f.baseVisible)
		}
		t.out.ETab = append(t.out.ETab, c16E{prog, f.baseVisible, facts, res == rOk})
	}
}

// apply runs c on the oracle, recording the tables, and updates the base bookkeeping.
func (f *fresh) apply(t *tabs, c c16Cmd, universe []string) int {
	res := f.m.exec(c)
	switch c.Op {
	case "define":
		t.record(f, c, res, universe)
		if res == rOk {
			f.chunks = append(f.chunks, c.Text)
		}
	case "load":
		t.record(f, c, res, universe)
		f.chunks = nil
		if res == rOk {
			o := f.m.observe(universe)
			have := map[string]bool{}
			for _, d := range f.baseKnown {
				have[d.Name] = true
			}
			p := c.Path
			names := []string{}
			for n := range o.Preds {
				if !have[n] {
					names = append(names, n)
				}
			}
			sort.Strings(names)
			for _, n := range names {
				f.baseKnown = append(f.baseKnown, c16Decl{n, c16Src{F: &p}})
			}
			sort.Slice(f.baseKnown, func(a, b int) bool { return f.baseKnown[a].Name < f.baseKnown[b].Name })
			f.baseVisible = visibleOf(o)
			f.stack = append(f.stack, jkey(c16Src{F: &p}))
		}
	}
	return res
}

func rebuild(root string, t *tabs, cs c16Case, live []int) *fresh {
	f := &fresh{m: newInterp(root), baseKnown: []c16Decl{}, baseVisible: [][2]string{}}
	for _, k := range live {
		f.apply(t, cs.Cmds[k], cs.Universe)
	}
	return f
}

func stripDefs(cs c16Case, live []int) []int {
	n := len(live)
	for n > 0 && cs.Cmds[live[n-1]].Op == "define" {
		n--
	}
	return append([]int{}, live[:n]...)
}

func runC16(in json.RawMessage) (any, error) {
	var cs c16Case
	if err := json.Unmarshal(in, &cs); err != nil {
		return nil, err
	}
	root, err := os.MkdirTemp("", "verif-c16-")
	if err != nil {
		return nil, err
	}
	defer os.RemoveAll(root)
	for name, text := range cs.Files {
		if err := os.WriteFile(filepath.Join(root, name), []byte(text), 0o644); err != nil {
			return nil, err
		}
	}
	out := &c16Out{Steps: []c16Step{}, PTab: []c16P{}, ATab: []c16A{}, ETab: []c16E{}}
	t := &tabs{out, map[string]int{}, map[string]bool{}, map[string]bool{}}
	m := newInterp(root)
	live := []int{}
	f := rebuild(root, t, cs, live)
	for k, c := range cs.Cmds {
		hasInter := len(live) > 0 && cs.Cmds[live[len(live)-1]].Op == "define"
		res := m.exec(c)
		obs := m.observe(cs.Universe)
		fres := rOk
		var next []int
		keep := false
		switch c.Op {
		case "define":
			fres = f.apply(t, c, cs.Universe)
			if res == rOk {
				next = append(append([]int{}, live...), k)
				keep = fres == rOk
			} else {
				next = live
			}
		case "load":
			fres = f.apply(t, c, cs.Universe)
			next = stripDefs(cs, live)
			if res == rOk { // only a load that succeeded is live (fix N32)
				next = append(next, k)
				keep = fres == res && !hasInter
			}
		case "pop":
			if hasInter {
				next = stripDefs(cs, live)
			} else if len(live) > 0 {
				next = append([]int{}, live[:len(live)-1]...)
			} else {
				next = live
			}
		case "query":
			fres = f.m.exec(c)
			next = live
			keep = true
		default:
			return nil, fmt.Errorf("bad op %q", c.Op)
		}
		if !keep {
			f = rebuild(root, t, cs, next)
		}
		live = next
		out.Steps = append(out.Steps, c16Step{res, obs, fres, f.m.observe(cs.Universe), append([]int{}, live...)})
	}
	return out, nil
}

func init() { hlib.Register("c16", runC16) }
