//go:build verif

// Runner "c05": one PRESENTATION of a program (one or several source units, possibly
// with Package / Use declarations, possibly with temporal annotations) is taken through
// parse.Unit -> analysis.Analyze -> engine.EvalProgram once per requested configuration
// (fact-store kind x WithDeterministicOrder x repetition). Parsing and analysis are
// repeated for every single evaluation: the maps iterated by the package merge, the
// stratification and the engine are re-randomised by Go on every `range`.
// The observable per evaluation is the set of facts read back from the caller's store
// (and from the temporal store, with their intervals), internal predicates removed,
// sorted by printed form; evaluations with identical observables are grouped, so the
// normal output has exactly one group.
//
// Case: {"units": [text, ...], "pre": text of ground facts put into the caller's store,
//        "stores": [kind | "rerun:"kind | "tee-over:"kind | "merged-over:"kind, ...], "det": [false,true], "repeat": n, "temporal": bool,
//        "now": evaluation time (ns), "limit": created-fact limit, "timeout_ms": guard}
// Out:  {"stage": "ok"|"parse"|"analysis", "msg": .., "runs": n,
//        "groups": [{"configs": [...], "n": k, "err": "", "facts": [{"p","args","iv"}]}]}
package main

import (
	"encoding/json"
	"fmt"
	"sort"
	"strings"
	"time"

	"codeberg.org/TauCeti/mangle-go/analysis"
	"codeberg.org/TauCeti/mangle-go/ast"
	"codeberg.org/TauCeti/mangle-go/engine"
	"codeberg.org/TauCeti/mangle-go/factstore"
	"codeberg.org/TauCeti/mangle-go/functional"
	"codeberg.org/TauCeti/mangle-go/parse"
	"mvharness/hlib"
)

type c05Case struct {
	Units     []string `json:"units"`
	Pre       string   `json:"pre"`
	Stores    []string `json:"stores"`
	Det       []bool   `json:"det"`
	Repeat    int      `json:"repeat"`
	Temporal  bool     `json:"temporal"`
	Now       int64    `json:"now"`
	Limit     int      `json:"limit"`
	TimeoutMs int      `json:"timeout_ms"`
}

type c05Group struct {
	Configs []string `json:"configs"`
	N       int      `json:"n"`
	Err     string   `json:"err"`
	Msg     string   `json:"msg,omitempty"`
	Facts   []any    `json:"facts"`
	key     string
}

type c05Out struct {
	Stage  string     `json:"stage"`
	Msg    string     `json:"msg,omitempty"`
	Runs   int        `json:"runs"`
	Groups []c05Group `json:"groups"`
}

// constJSON: ["n",5] | ["name","/a"] | ["s","txt"] | ["pair",a,b] | ["list",[..]] | ["other",printed]
func constJSON(c ast.Constant) any {
	switch c.Type {
	case ast.NumberType:
		return []any{"n", c.NumValue}
	case ast.NameType:
		return []any{"name", c.Symbol}
	case ast.StringType:
		return []any{"s", c.Symbol}
	case ast.PairShape:
		a, b, err := c.PairValue()
		if err != nil {
			return []any{"other", c.String()}
		}
		return []any{"pair", constJSON(a), constJSON(b)}
	case ast.ListShape:
		elems := []any{}
		c.ListValues(func(e ast.Constant) error {
			elems = append(elems, constJSON(e))
			return nil
		}, func() error { return nil })
		return []any{"list", elems}
	}
	return []any{"other", c.String()}
}

func boundJSON(b ast.TemporalBound) any {
	switch b.Type {
	case ast.TimestampBound:
		return []any{"ts", b.Timestamp}
	case ast.NegativeInfinityBound:
		return []any{"-inf"}
	case ast.PositiveInfinityBound:
		return []any{"+inf"}
	}
	return []any{"other", b.String()}
}

func factJSON(a ast.Atom, iv *ast.Interval) any {
	args := []any{}
	for _, t := range a.Args {
		if c, ok := t.(ast.Constant); ok {
			args = append(args, constJSON(c))
		} else {
			args = append(args, []any{"other", t.String()})
		}
	}
	m := map[string]any{"p": a.Predicate.Symbol, "args": args}
	if iv != nil {
		m["iv"] = []any{boundJSON(iv.Start), boundJSON(iv.End)}
	}
	return m
}

func errClass(err error) string {
	m := err.Error()
	switch {
	case strings.Contains(m, "fact size limit"):
		return "limit"
	case strings.Contains(m, "stratification"):
		return "stratification"
	}
	return "eval"
}

func newStore(kind string, pre []ast.Atom) (factstore.FactStore, error) {
	var s factstore.FactStore
	switch kind {
	case "simple":
		x := factstore.NewSimpleInMemoryStore()
		s = &x
	case "indexed":
		x := factstore.NewIndexedInMemoryStore()
		s = &x
	case "multi":
		x := factstore.NewMultiIndexedInMemoryStore()
		s = &x
	case "array":
		s = factstore.NewMultiIndexedArrayInMemoryStore()
	case "merged":
		r := factstore.NewSimpleInMemoryStore()
		for _, f := range pre {
			r.Add(f)
		}
		w := factstore.NewSimpleInMemoryStore()
		return factstore.NewMergedStore([]factstore.ReadOnlyFactStore{&r}, &w), nil
	case "teeing":
		b := factstore.NewSimpleInMemoryStore()
		for _, f := range pre {
			b.Add(f)
		}
		return factstore.NewTeeingStore(&b), nil
	case "concurrent":
		x := factstore.NewSimpleInMemoryStore()
		s = factstore.NewConcurrentFactStore(&x)
	default:
		return nil, fmt.Errorf("unknown store kind %q", kind)
	}
	for _, f := range pre {
		s.Add(f)
	}
	return s, nil
}

func parseUnits(texts []string) ([]parse.SourceUnit, error) {
	var units []parse.SourceUnit
	for i, t := range texts {
		u, err := parse.Unit(strings.NewReader(t))
		if err != nil {
			return nil, fmt.Errorf("unit %d: %v", i, err)
		}
		units = append(units, u)
	}
	return units, nil
}

// extraDecls declares the predicates that occur only in the caller's store or only in
// rule bodies (extensional predicates without a fact in the text), under the names they
// have AFTER the package rewriting (packages.Package.Clauses).
func extraDecls(texts []string, pre []ast.Atom) (map[ast.PredicateSym]ast.Decl, error) {
	units, err := parseUnits(texts) // a private copy: Clauses() rewrites premises in place
	if err != nil {
		return nil, err
	}
	pkgs, err := analysis.ExtractPackages(units)
	if err != nil {
		return nil, err
	}
	var clauses []ast.Clause
	for _, p := range pkgs {
		cs, err := p.Clauses()
		if err != nil {
			return nil, err
		}
		clauses = append(clauses, cs...)
	}
	extra := map[ast.PredicateSym]ast.Decl{}
	inSrc := map[ast.PredicateSym]bool{}
	for _, cl := range clauses {
		inSrc[cl.Head.Predicate] = true
	}
	declare := func(p ast.PredicateSym) {
		if !inSrc[p] && !p.IsBuiltin() {
			if _, ok := extra[p]; !ok {
				extra[p] = ast.NewSyntheticDeclFromSym(p)
			}
		}
	}
	for _, f := range pre {
		declare(f.Predicate)
	}
	for _, cl := range clauses {
		for _, pr := range cl.Premises {
			switch a := pr.(type) {
			case ast.Atom:
				declare(a.Predicate)
			case ast.NegAtom:
				declare(a.Atom.Predicate)
			}
		}
	}
	return extra, nil
}

type runRes struct {
	stage string // "" ok | parse | analysis
	g     c05Group
}

func runOnce(c *c05Case, kind string, det bool, pre []ast.Atom) runRes {
	units, err := parseUnits(c.Units)
	if err != nil {
		return runRes{stage: "parse", g: c05Group{Msg: err.Error()}}
	}
	extra, err := extraDecls(c.Units, pre)
	if err != nil {
		return runRes{stage: "analysis", g: c05Group{Msg: "packages: " + err.Error()}}
	}
	info, err := analysis.Analyze(units, extra)
	if err != nil {
		return runRes{stage: "analysis", g: c05Group{Msg: err.Error()}}
	}
	// Store configurations in which the caller's store already holds what the program is
	// going to derive: "rerun:K" (EvalProgram twice on the same store K), "tee-over:K" /
	// "merged-over:K" (after a first evaluation on K, K becomes the read-only base of a
	// TeeingStore / the read part of a MergedStore and the program is evaluated again on
	// that store; the facts are read back from the stacked store).
	wrap := ""
	if i := strings.Index(kind, ":"); i >= 0 {
		wrap, kind = kind[:i], kind[i+1:]
	}
	store, err := newStore(kind, pre)
	if err != nil {
		return runRes{g: c05Group{Err: "harness", Msg: err.Error()}}
	}
	opts := []engine.EvalOption{}
	if c.Limit > 0 {
		opts = append(opts, engine.WithCreatedFactLimit(c.Limit))
	}
	if det {
		opts = append(opts, engine.WithDeterministicOrder())
	}
	var tstore *factstore.TemporalStore
	if c.Temporal {
		tstore = factstore.NewTemporalStore()
		opts = append(opts, engine.WithTemporalStore(tstore), engine.WithEvaluationTime(time.Unix(0, c.Now)))
	}
	type res struct {
		err error
		pan string
	}
	ch := make(chan res, 1)
	go func() {
		defer func() {
			if p := recover(); p != nil {
				ch <- res{pan: fmt.Sprint(p)}
			}
		}()
		err := engine.EvalProgram(info, store, opts...)
		if err == nil && wrap != "" {
			switch wrap {
			case "rerun":
			case "tee-over":
				store = factstore.NewTeeingStore(store)
			case "merged-over":
				w := factstore.NewSimpleInMemoryStore()
				store = factstore.NewMergedStore([]factstore.ReadOnlyFactStore{store}, &w)
			default:
				err = fmt.Errorf("harness: unknown store wrapper %q", wrap)
			}
			if err == nil {
				err = engine.EvalProgram(info, store, opts...)
			}
		}
		ch <- res{err: err}
	}()
	select {
	case r := <-ch:
		if r.pan != "" {
			return runRes{g: c05Group{Err: "panic", Msg: r.pan}}
		}
		if r.err != nil {
			return runRes{g: c05Group{Err: errClass(r.err), Msg: r.err.Error()}}
		}
	case <-time.After(time.Duration(c.TimeoutMs) * time.Millisecond):
		return runRes{g: c05Group{Err: "timeout"}}
	}
	seen := map[string]any{}
	factstore.GetAllFacts(store, func(a ast.Atom) error {
		if a.Predicate.IsInternalPredicate() {
			return nil
		}
		seen[a.String()] = factJSON(a, nil)
		return nil
	})
	if tstore != nil {
		for _, p := range tstore.ListPredicates() {
			if p.IsInternalPredicate() {
				continue
			}
			tstore.GetAllFacts(ast.NewQuery(p), func(tf factstore.TemporalFact) error {
				iv := tf.Interval
				seen[tf.String()] = factJSON(tf.Atom, &iv)
				return nil
			})
		}
	}
	keys := make([]string, 0, len(seen))
	for k := range seen {
		keys = append(keys, k)
	}
	sort.Strings(keys)
	facts := make([]any, len(keys))
	for i, k := range keys {
		facts[i] = seen[k]
	}
	return runRes{g: c05Group{Facts: facts, key: strings.Join(keys, "\n")}}
}

func runC05(in json.RawMessage) (any, error) {
	var c c05Case
	if err := json.Unmarshal(in, &c); err != nil {
		return nil, err
	}
	if len(c.Stores) == 0 {
		c.Stores = []string{"simple"}
	}
	if len(c.Det) == 0 {
		c.Det = []bool{false}
	}
	if c.Repeat <= 0 {
		c.Repeat = 1
	}
	if c.TimeoutMs == 0 {
		c.TimeoutMs = 10000
	}
	var pre []ast.Atom
	if strings.TrimSpace(c.Pre) != "" {
		pu, err := parse.Unit(strings.NewReader(c.Pre))
		if err != nil {
			return c05Out{Stage: "parse", Msg: "pre: " + err.Error()}, nil
		}
		for _, cl := range pu.Clauses {
			if len(cl.Premises) != 0 {
				return nil, fmt.Errorf("pre must contain facts only: %v", cl)
			}
			f, err := functional.EvalAtom(cl.Head, nil)
			if err != nil {
				return nil, fmt.Errorf("pre fact %v: %v", cl.Head, err)
			}
			pre = append(pre, f)
		}
	}
	out := c05Out{Stage: "ok"}
	for _, kind := range c.Stores {
		for _, det := range c.Det {
			for rep := 0; rep < c.Repeat; rep++ {
				r := runOnce(&c, kind, det, pre)
				out.Runs++
				g := r.g
				if r.stage != "" {
					// rejected before evaluation: an observable too (must not depend on the run)
					g.Err = r.stage
				}
				name := kind
				if det {
					name += "/det"
				}
				k := g.Err + "\x00" + g.key
				if g.Err == "parse" || g.Err == "analysis" {
					k = g.Err
				}
				found := false
				for i := range out.Groups {
					gi := &out.Groups[i]
					ki := gi.Err + "\x00" + gi.key
					if gi.Err == "parse" || gi.Err == "analysis" {
						ki = gi.Err
					}
					if ki == k {
						gi.N++
						has := false
						for _, cn := range gi.Configs {
							has = has || cn == name
						}
						if !has {
							gi.Configs = append(gi.Configs, name)
						}
						found = true
						break
					}
				}
				if !found {
					g.Configs = []string{name}
					g.N = 1
					if g.Facts == nil {
						g.Facts = []any{}
					}
					out.Groups = append(out.Groups, g)
				}
			}
		}
	}
	if len(out.Groups) == 1 && (out.Groups[0].Err == "parse" || out.Groups[0].Err == "analysis") {
		out.Stage = out.Groups[0].Err
		out.Msg = out.Groups[0].Msg
	}
	return out, nil
}

func init() { hlib.Register("c05", runC05) }
