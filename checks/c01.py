"""C01 - evaluation yields exactly the stratified least model.

Theorems: coq/Props/C01.v (the model's result IS the least model, for every program,
base-fact set, rule order and fuel). Correspondence: generated stratifiable programs are
evaluated by engine.EvalProgram on every fact-store kind (Go harness `c01`) and by the
model `eval_program` inside Coq; the fact sets must be equal. A disagreement on a program
accepted by the analysis is a property violation on that input.
Alias stream: variable-variable aliasing is outside the model Solve.v; every program is
also run against variants of itself that differ only by aliasing equalities (Go vs Go, equal
results required), see notes/C01.md "Alias stream". Alias-aware model: Datalog/SolveUF.v keeps
the union-find substitutions (variable -> variable chains); every variant is ALSO compared
with it (Run.C01.judge_uf), every original goes through both models, see notes/C01.md
"Alias-aware model".
"""
import glob
import itertools
import json
import os
import random
import re

from vlib.core import C, Raw, coq
from checks import datalog_common as dc

ALL_STORES = ["simple", "indexed", "multi", "array", "merged", "teeing"]
FUEL = 80
LIMIT = 3000


# ------------------------------------------------------------------ case encoding
def go_case(prog, stores, det, shuffle_rng=None):
    return {"src": dc.to_mangle(prog, shuffle_rng), "pre": dc.facts_text(prog.get("pre", [])),
            "stores": stores, "det": det, "limit": LIMIT, "timeout_ms": 20000}


def cq_obs(group):
    if group["err"] == "":
        return C("OFacts", [dc.cq_fact(f) for f in dc.facts_from_go(group["facts"])])
    if group["err"] in ("limit", "timeout"):
        return Raw("OLimit")
    return Raw("OEvalErr")


def cq_case(prog, group, fuel=FUEL):
    return coq(C("mkCase", dc.cq_program(prog), dc.cq_layers(prog),
                 [dc.cq_fact(f) for f in prog.get("pre", [])],
                 [dc.cq_fact(f) for f in prog.get("init", [])], fuel, cq_obs(group)))


def cq_alias_term(prog, group, vlist):
    """Term for Run.C01.judge_alias: the original's case and its alias variants, each as
    the list of replaced clauses (position, clause) + what Go observed on the variant
    (None = the same observation as on the original)."""
    vs = []
    for var, vgroup in vlist:
        chg = [(k, dc.cq_clause(c)) for k, c in enumerate(var["clauses"]) if c != prog["clauses"][k]]
        vs.append((chg, Raw("VSame") if vgroup is None else C("VObs", cq_obs(vgroup))))
    return "(%s, %s)" % (cq_case(prog, group), coq(vs) if vs else "[]")


def decode_alias_verdict(v, nvar):
    """judge_alias -> (judge code, judge_uf code of the original, [judge_uf code per variant])"""
    both, rest = v % 1000, v // 1000
    a, b = (both, both) if both < 100 else ((both - 100) // 10, (both - 100) % 10)
    ds = []
    for _ in range(nvar):
        ds.append(rest % 7)
        rest //= 7
    return a, b, ds


def model_facts(ck, prog, group, fn="model_tokens"):
    """Model outcome for a replay: ("ok", facts) | ("error", None) | ("fuel", None)."""
    out = ck.coq_show("C01", fn + " " + cq_case(prog, group))
    m = re.search(r"=\s*\[(.*?)\]\s*:\s*list Z", out, re.S)
    if not m:
        return "unparsed", out[-500:]
    toks = [int(x) for x in re.findall(r"-?\d+", m.group(1))]
    return dc.parse_model_tokens(toks)


VERDICT = {1: "both finished, fact sets differ",
           2: "Go returned an evaluation error, the least model exists (model finished)",
           3: "Go finished although a premise/function evaluation must fail (model reports an error)",
           4: "model out of fuel (inconclusive)",
           5: "Go hit the fact limit (inconclusive)",
           6: "Go agrees with the union-find model, but a negated atom or != was evaluated on an unbound variable "
              "(outside the hypothesis of the order-independence theorem)"}


# ------------------------------------------------------------------ exhaustive block
def exhaustive_programs():
    """Every program of two rules over the schema: p0/2 and p1/1 extensional (fixed
    facts), p2/1 and p3/1 derived; fixed seed rule p2(X) :- p1(X); each of the two free
    rules has head p2(X) or p3(X) and a body of one or two literals from p1(V), p2(V),
    p3(V), p0(V,W), !p1(V), !p2(V), !p3(V) over the variables X, Y. Kept: safe rules (head
    variable and every negated variable bound by an earlier positive literal) and
    stratifiable programs."""
    X, Y = dc.var(1), dc.var(2)
    vs = [X, Y]
    pos = [["atom", dc.atom(p, v)] for p in (1, 2, 3) for v in vs]
    pos += [["atom", dc.atom(0, v, w)] for v in vs for w in vs]
    neg = [["neg", dc.atom(p, v)] for p in (1, 2, 3) for v in vs]

    def vars_of(l):
        return set(t[1] for t in l[1]["args"])
    bodies = [[l] for l in pos]
    bodies += [[a, b] for a in pos for b in pos + neg]
    rules = []
    for h in (2, 3):
        for b in bodies:
            bound = set()
            ok = True
            for l in b:
                if l[0] == "neg":
                    ok = ok and vars_of(l) <= bound
                else:
                    bound |= vars_of(l)
            if ok and 1 in bound:
                rules.append(dc.clause(dc.atom(h, X), b))
    seed = dc.clause(dc.atom(2, X), [["atom", dc.atom(1, X)]])
    init = [dc.fact(0, dc.num(1), dc.num(2)), dc.fact(0, dc.num(2), dc.num(3)), dc.fact(0, dc.num(3), dc.num(3)),
            dc.fact(1, dc.num(1)), dc.fact(3, dc.num(2))]
    for r1, r2 in itertools.combinations_with_replacement(rules, 2):
        cl = [seed, r1, r2]
        layers = dc.stratify(cl)
        if layers is None:
            continue
        yield {"clauses": cl, "layers": layers, "init": init, "pre": [], "features": ["exhaustive"]}


# ------------------------------------------------------------------ alias stream
# The Coq model has no variable-variable aliasing (Solve.v: `X = Y` with both sides unbound
# is an error of the model), so the main stream never writes such clauses and the union-find
# chains of the real engine (Var -> Var -> constant) stay untouched by it. The alias stream
# covers them without the model: an alias-free original (compared with the model as every
# other program) and a declaratively equivalent variant in which occurrences of a variable
# are handed to fresh variables tied to it by equalities (dc.alias_step) are both evaluated
# by Go; results must be equal. Only variants whose changed clauses the real analysis
# accepts (runner c01an) are used.
ALIAS_CLAUSES = 3       # clauses of one original that get candidates
ALIAS_CANDS = 5         # candidates per clause


def alias_pick_clauses(arng, prog):
    idx = [i for i, c in enumerate(prog["clauses"]) if c["body"]]
    if not idx:
        return []
    w = [4 if prog["clauses"][i].get("let") else 1 for i in idx]
    out = []
    for _ in range(ALIAS_CLAUSES):
        i = arng.choices(idx, w)[0]
        if i not in out:
            out.append(i)
    return out


MODE_WEIGHT = {"let": 6, "neg": 4, "cmp": 4, "ineq": 4, "fn": 4, "atom": 2, "random": 2, "head": 1}


def alias_weight(infos):
    """Choice among the accepted candidates of a clause: rarer kinds and equalities placed
    before the binder (the union-find chain Var -> Var -> constant) are preferred."""
    return max(MODE_WEIGHT[x["mode"]] for x in infos) * (3 if any(x["placement"] == "before" for x in infos) else 1)


def alias_build_variants(arng, prog, cands, accepted, nvar):
    """cands: {clause index: [(clause, infos)]}, accepted: {clause index: [bool]}.
    Returns [(variant program, {clause index: infos})]: first one clause aliased, then all."""
    ok = {i: [c for c, a in zip(cands[i], accepted[i]) if a] for i in cands}
    ok = {i: l for i, l in ok.items() if l}
    if not ok:
        return []
    out, seen = [], set()
    for k in range(nvar):
        which = [arng.choice(sorted(ok))] if k == 0 else sorted(ok)
        cl = list(prog["clauses"])
        ops = {}
        for i in which:
            c, infos = arng.choices(ok[i], [alias_weight(x[1]) for x in ok[i]])[0]
            cl[i] = c
            ops[i] = infos
        v = dict(prog, clauses=cl)
        t = dc.to_mangle(v)
        if t not in seen:
            seen.add(t)
            out.append((v, ops))
    return out


def obs_const_text(c):
    """As dc.const_text; a value outside the representation (a non-ground argument, a float,
    ...: the harness's ["other", printed]) is kept visible instead of raising."""
    if c[0] == "other":
        return "<other %s>" % c[1]
    if c[0] == "pair":
        return "fn:pair(%s, %s)" % (obs_const_text(c[1]), obs_const_text(c[2]))
    if c[0] == "list":
        return "[%s]" % ", ".join(obs_const_text(x) for x in c[1])
    return dc.const_text(c)


def f8_in_groups(groups):
    """Collisions of Atom.Hash() (known finding F8) among all facts of the given result groups."""
    fs = []
    for g in groups:
        if g["err"] == "":
            try:
                fs += dc.facts_from_go(g["facts"])
            except ValueError:
                return []
    return dc.f8_collisions(fs)


def group_obs(g):
    """Comparable observable of one result group: (error class, canonical fact list)."""
    if g["err"] != "":
        return (g["err"], None)
    return ("", sorted(set("%s(%s)." % (f["p"], ", ".join(obs_const_text(c) for c in f["args"])) for f in g["facts"])))


def alias_compare(orig_out, var_out):
    """-> (verdict, detail). verdict: equal | inconclusive | rejected | differ | stores-differ"""
    if var_out["stage"] != "ok":
        return "rejected", var_out.get("msg", "")
    og, vg = orig_out["groups"], var_out["groups"]
    if len(og) != 1:
        return "inconclusive", "original already disagrees between store kinds"
    if any(g["err"] in ("limit", "timeout") for g in og + vg):
        return "inconclusive", "fact limit / time guard"
    if len(vg) != 1:
        return "stores-differ", ""
    a, b = group_obs(og[0]), group_obs(vg[0])
    return ("equal", a[0] or "ok") if a == b else ("differ", "")


def alias_replay_dict(prog, var, ops, src, vsrc, pre, orig_out, var_out, origin):
    def show(o):
        if o["stage"] != "ok":
            return {"stage": o["stage"], "msg": o.get("msg")}
        return [{"configs": g["configs"], "err": g["err"], "msg": g.get("msg"),
                 "facts": group_obs(g)[1]} for g in o["groups"]]
    rep = {"property": "C01", "alias": True, "origin": origin,
           "kind": "alias stream: the variant with variable-variable equalities and the alias-free original "
                   "(same declarative reading) evaluate differently",
           "program": prog, "variant": var, "ops": {str(k): v for k, v in ops.items()},
           "src": src, "variant_src": vsrc, "pre": pre,
           "changed_clauses": [{"original": dc.clause_text(prog["clauses"][i]), "variant": dc.clause_text(var["clauses"][i])}
                               for i in sorted(ops)],
           "original_result": show(orig_out), "variant_result": show(var_out)}
    if orig_out["stage"] == "ok" and var_out["stage"] == "ok" and len(orig_out["groups"]) == 1 and len(var_out["groups"]) == 1:
        a, b = group_obs(orig_out["groups"][0]), group_obs(var_out["groups"][0])
        if a[1] is not None and b[1] is not None:
            rep["missing_in_variant"] = sorted(set(a[1]) - set(b[1]))
            rep["extra_in_variant"] = sorted(set(b[1]) - set(a[1]))
    return rep


# ------------------------------------------------------------------ wildcard-negation stream
# (added after seeded change C01-6 was missed.) `!r(X, _)` = "there is no fact r(X, anything)":
# the wildcard stays in the atom after substitution and premiseNegAtom must scan and UNIFY; a
# membership test on the substituted atom never finds `r(c, _)`, the negation always succeeds and
# facts outside the stratified least model are derived. dc.Gen never writes a wildcard into a
# negated atom (trigger of the old defect F3a, fixed since), so the stream has its own template
# dc.add_wild_neg. Verdict: the Coq model (Run.C01.judge; Solve.v `step` on PNeg fails iff some
# stored fact unifies, every `_` is encoded as its own fresh variable, so it is read
# existentially; Lfp.holds_neg is the same reading, hence strata_exact covers these programs;
# Datalog/WildNeg.v states the reading declaratively). The stream is judged by `judge` only:
# Run.C01.run_model_uf applies RuleCheck.rewrite, which knows the wildcard as the variable -1 and
# would treat the encoder's fresh variables as unbound NAMED variables (atom delayed to the end
# of the body, the strict run reports an error), so judge_uf is not meaningful on this shape.
def wildneg_strip(prog):
    """The program without the negated atoms that contain a wildcard (= what an engine whose
    negation test cannot see through `_` computes); used to measure how many generated programs
    are sensitive to the reading of the wildcard."""
    cl = []
    for c in prog["clauses"]:
        cl.append(dict(c, body=[p for p in c["body"] if not (p[0] == "neg" and any(t == ["wild"] for t in p[1]["args"]))]))
    return dict(prog, clauses=cl)


def wildneg_stream(ck):
    """Runs the stream, reports violations, returns its coverage dict."""
    wrng = random.Random("%s/wildneg/%d" % (ck.pid, ck.seed))
    here = os.path.dirname(os.path.abspath(__file__))
    progs, origin, gstats = [], [], {}
    for path in sorted(glob.glob(os.path.join(here, "..", "corpus", "C01", "wildneg", "*.json"))):
        progs.append(json.load(open(path))["program"])
        origin.append("corpus:wildneg/" + os.path.basename(path))
    ncorpus = len(progs)
    want, tries = ck.n(60, 800), 0
    while len(progs) - ncorpus < want and tries < 3 * want:
        tries += 1
        p, sig = dc.gen_program_sig(wrng, big=(not ck.quick) and wrng.random() < 0.3)
        if wrng.random() < 0.25:
            dc.add_lets(wrng, p, sig)
        st = dc.add_wild_neg(wrng, p, sig)
        if not st:
            continue
        for k, n in st.items():
            gstats[k] = gstats.get(k, 0) + n
        progs.append(p)
        origin.append("wildneg-template")
    go_cases = []
    for i, p in enumerate(progs):
        if origin[i].startswith("corpus"):
            stores, det = ALL_STORES, [False, True]
        elif ck.quick:
            stores, det = wrng.sample(ALL_STORES, 2), [wrng.random() < 0.5]
        else:
            stores, det = wrng.sample(ALL_STORES, 3), [False, True]
        go_cases.append(go_case(p, stores, det, shuffle_rng=wrng if wrng.random() < 0.5 else None))
    # sensitivity: the same programs without their wildcard negations, one store kind
    strip_cases = [go_case(wildneg_strip(p), ["simple"], [False]) for p in progs]
    all_outs = ck.run_go("c01", go_cases + strip_cases, timeout=3000)
    outs, strip_outs = all_outs[:len(progs)], all_outs[len(progs):]
    terms, where = [], []
    stage_counts, evaluations, f8 = {}, 0, 0
    rejected = []
    for i, o in enumerate(outs):
        if "out" not in o:
            ck.violation({"property": "C01", "stream": "wildneg", "kind": "harness error/panic", "program": progs[i],
                          "src": go_cases[i]["src"], "impl": o})
            continue
        st = o["out"]["stage"]
        stage_counts[st] = stage_counts.get(st, 0) + 1
        if st != "ok":
            rejected.append((go_cases[i]["src"], o["out"].get("msg", "")))
            continue
        groups = o["out"]["groups"]
        evaluations += sum(len(g["configs"]) for g in groups)
        if len(groups) > 1 and f8_in_groups(groups):
            f8 += 1
            ck.known("F8 a generated program produced two facts with equal Atom.Hash(): %s / %s" % f8_in_groups(groups)[0])
            continue
        # a run that did not finish (wall-clock guard or fact limit) is inconclusive, not an answer:
        # only configurations that FINISHED with different results disagree
        conclusive = [g for g in groups if g["err"] not in ("timeout", "limit")]
        if len(conclusive) > 1 and len(ck.violations) < 5:
            ck.violation({"property": "C01", "stream": "wildneg",
                          "kind": "fact-store kinds / rule orders disagree on one program (wildcards in negated atoms)",
                          "program": progs[i], "src": go_cases[i]["src"], "pre": go_cases[i]["pre"],
                          "groups": [{"configs": g["configs"], "err": g["err"], "msg": g.get("msg"),
                                      "facts": group_obs(g)[1]} for g in groups]})
        for g in groups:
            try:
                terms.append(cq_case(progs[i], g))
                where.append((i, g))
            except ValueError as e:
                ck.violation({"property": "C01", "stream": "wildneg",
                              "kind": "Go produced a value outside the modelled fragment: %s" % e,
                              "program": progs[i], "src": go_cases[i]["src"], "go": g})
    # few shards: every coqc process first loads Run.C01 (a few CPU-seconds)
    verdicts = ck.run_coq("C01", "judge", terms, shard=max(16, len(terms) // 16 + 1), tag="wildneg")
    vc, errs = {}, {}
    for (i, g), v in zip(where, verdicts):
        vc[v] = vc.get(v, 0) + 1
        errs[g["err"] or "ok"] = errs.get(g["err"] or "ok", 0) + 1
        if v in (0, 4, 5) or len(ck.violations) >= 5:
            continue
        prog = progs[i]
        kind, mf = model_facts(ck, prog, g)
        gof = dc.facts_from_go(g["facts"]) if g["err"] == "" else None
        rep = {"property": "C01", "stream": "wildneg", "verdict": v, "kind": VERDICT[v], "origin": origin[i], "program": prog,
               "src": go_cases[i]["src"], "pre": go_cases[i]["pre"], "configs": g["configs"],
               "go": {"err": g["err"], "msg": g.get("msg"), "facts": dc.canon(gof) if gof is not None else None},
               "model": {"outcome": kind, "facts": dc.canon(mf) if kind == "ok" else mf},
               "clauses_with_wildcard_negation": [dc.clause_text(c) for c in prog["clauses"]
                                                  if any(p[0] == "neg" and ["wild"] in p[1]["args"] for p in c["body"])]}
        if kind == "ok" and gof is not None:
            ms, gs = set(dc.canon(mf)), set(dc.canon(gof))
            rep["missing_in_go"] = sorted(ms - gs)
            rep["extra_in_go"] = sorted(gs - ms)
            coll = dc.f8_collisions(mf + gof)
            if coll:
                f8 += 1
                ck.known("F8 a generated program produced two facts with equal Atom.Hash(): %s / %s" % coll[0])
                continue
        rep["why_violation"] = ("Props/C01.v strata_exact: the model outcome is the stratified least model, a negated atom "
                                "holding iff NO fact of the completed lower strata unifies with it (Lfp.holds_neg; a wildcard "
                                "is a variable of its own that nothing binds: Datalog/WildNeg.v neg_wild_existential); the Go "
                                "store differs from it on this accepted program")
        ck.violation(rep)
    # how many programs would show an engine that lets every wildcard negation succeed
    sensitive = comparable = 0
    for o, so in zip(outs, strip_outs):
        if "out" in o and "out" in so and o["out"]["stage"] == "ok" and so["out"]["stage"] == "ok" and len(o["out"]["groups"]) == 1:
            comparable += 1
            if group_obs(o["out"]["groups"][0]) != group_obs(so["out"]["groups"][0]):
                sensitive += 1
    ngen = len(progs) - ncorpus
    if len(rejected) > 0.1 * max(1, len(progs)):
        ck.violation({"property": "C01", "stream": "wildneg",
                      "kind": "generator: more than 10% of the wildcard-negation programs rejected by analysis",
                      "no_longer_checks": "correspondence Run.C01.judge (input distribution broken)",
                      "samples": rejected[:3]}, "no-failing-input-found")
    ck.log("wildcard-negation stream: %d programs (%d sensitive to the reading of `_`), %d comparisons, verdicts %s"
           % (len(progs), sensitive, len(terms), {str(k): n for k, n in sorted(vc.items())}))
    return {"programs": len(progs), "corpus": ncorpus, "generated": ngen, "evaluations": evaluations,
            "comparisons": len(terms), "verdicts": {str(k): n for k, n in sorted(vc.items())},
            "inconclusive": vc.get(4, 0) + vc.get(5, 0), "go_outcomes": errs, "analysis_stage": stage_counts,
            "rejected_samples": rejected[:3], "f8_trigger_skipped": f8, "generator": gstats,
            "sensitive_programs": sensitive, "sensitivity_comparable": comparable,
            "rule": "generated programs (dc.gen_program_sig, a quarter with dc.add_lets) whose clauses got wildcards inside "
                    "negated atoms by dc.add_wild_neg (`_` put into existing negated atoms; new negated atoms over lower-layer / "
                    "extensional predicates with 1..arity wildcards, bound variables possibly repeated, constants; inserted "
                    "anywhere behind the binders of their variables, also in recursive clauses and clauses with a transform), "
                    "evaluated by Go and compared with the Coq model (Run.C01.judge) as the main stream; sensitive_programs = "
                    "programs whose Go result changes when every negated atom containing a wildcard is deleted (an engine "
                    "whose negation test cannot see through `_` would differ from the model on exactly those)",
            "samples": [go_cases[min(len(go_cases) - 1, ncorpus)]["src"]] if go_cases else []}


# ------------------------------------------------------------------ the check
def run(ck):
    ck.obligations()
    ck.build_harness()
    rng = ck.rng
    # the alias stream draws from its own generator (derived from the seed only), so the
    # main stream of a given seed is the same with and without it
    arng = random.Random("%s/alias/%d" % (ck.pid, ck.seed))
    progs, origin = [], []
    corpus_variants = {}      # program index -> [(variant program, note)] (corpus/C01/alias_*.json)
    here = os.path.dirname(os.path.abspath(__file__))
    for path in sorted(glob.glob(os.path.join(here, "..", "corpus", "C01", "*.json"))):
        doc = json.load(open(path))
        if doc.get("alias_variants"):
            corpus_variants[len(progs)] = doc["alias_variants"]
        progs.append(doc["program"])
        origin.append("corpus:" + os.path.basename(path))
    ncorpus = len(progs)
    for _ in range(ck.n(200, 4000)):
        progs.append(dc.gen_program(rng, big=(not ck.quick) and rng.random() < 0.5))
        origin.append("random")
    nrandom = len(progs) - ncorpus
    # templates of the alias stream: generated programs whose non-recursive clauses got
    # let-transforms (dc.add_lets); ordinary members of the main stream as well
    ntemplate = 0
    for _ in range(ck.n(40, 400)):
        p, sig = dc.gen_program_sig(arng, big=(not ck.quick) and arng.random() < 0.3)
        if dc.add_lets(arng, p, sig):
            progs.append(p)
            origin.append("alias-template")
            ntemplate += 1
    nexh = 0
    if not ck.quick:
        ex = list(exhaustive_programs())
        nexh = len(ex)
        progs += ex
        origin += ["exhaustive"] * nexh
    coqchk = None
    if not ck.quick and not ck.proof_broken:
        import subprocess
        from vlib.core import COQ
        p = subprocess.run(["coqchk", "-silent", "-o", "-Q", ".", "MV", "MV.Props.C01"], cwd=COQ,
                           stdout=subprocess.PIPE, stderr=subprocess.STDOUT, text=True, timeout=3000)
        coqchk = "ok, Axioms: <none>" if p.returncode == 0 and "Axioms: <none>" in p.stdout else "FAILED"
        if coqchk == "FAILED":
            ck.proof_broken = "coqchk -o MV.Props.C01 failed:\n" + p.stdout[-2000:]
        ck.log("coqchk: " + coqchk)
    # store kinds: quick = 2 random kinds per program (+ all six on the corpus), thorough = all six
    go_cases = []
    for i, p in enumerate(progs):
        r = arng if origin[i] == "alias-template" else rng
        generated = origin[i] in ("random", "alias-template")
        if origin[i] == "exhaustive":
            stores, det = ["simple", "array"], [False]
        elif ck.quick and generated:
            stores, det = r.sample(ALL_STORES, 2), [r.random() < 0.5]
        else:
            stores, det = ALL_STORES, [False, True]
        go_cases.append(go_case(p, stores, det, shuffle_rng=r if generated and r.random() < 0.5 else None))

    # ---- alias stream: candidates -> real analysis -> variant programs
    al = {"originals": 0, "clauses_tried": 0, "candidates": 0, "candidates_accepted": 0, "variants": 0,
          "accepted_by": {}, "used_by": {}, "analysis_rejections": {}}

    def tally(d, infos):
        for x in infos:
            for key in ("mode:" + x["mode"], "placement:" + x["placement"], "chain:%d" % x["chain"],
                        "binder:" + x["binder"], "eq_before_binder:%s" % x["eq_before_binder"]):
                d[key] = d.get(key, 0) + 1
            for o in x["orient"]:
                d["orient:" + o] = d.get("orient:" + o, 0) + 1
            for k in x["moved"]:
                d["moved:" + k] = d.get("moved:" + k, 0) + 1
            if x["only"]:
                d["only:" + x["only"]] = d.get("only:" + x["only"], 0) + 1
        if len(infos) > 1:
            d["two_variables"] = d.get("two_variables", 0) + 1
    alias_orig = [i for i in range(len(progs)) if origin[i] != "exhaustive" and i not in corpus_variants]
    cands, an_cases = {}, []
    for i in alias_orig:
        cands[i] = {}
        for ci in alias_pick_clauses(arng, progs[i]):
            cc = dc.alias_candidates(arng, progs[i]["clauses"][ci], ALIAS_CANDS)
            if cc:
                cands[i][ci] = cc
        an_cases.append({"clauses": [dc.clause_text(c) for ci in sorted(cands[i]) for c, _ in cands[i][ci]]})
    an_outs = ck.run_go("c01an", an_cases, timeout=3000)
    ck.log("alias stream: %d candidate clauses judged by the analysis" % sum(len(c["clauses"]) for c in an_cases))
    variants = []          # (original index, variant program, ops, go case)
    for i in sorted(corpus_variants):
        al["originals"] += 1
        for v in corpus_variants[i]:
            variants.append((i, v["program"], {}, go_case(v["program"], ALL_STORES, [False, True])))
    for i, o in zip(alias_orig, an_outs):
        if "out" not in o:
            raise RuntimeError("runner c01an failed: %s" % json.dumps(o)[:500])
        flags, msgs = list(o["out"]["ok"]), list(o["out"]["msg"])
        accepted = {}
        for ci in sorted(cands[i]):
            k = len(cands[i][ci])
            accepted[ci], flags = flags[:k], flags[k:]
            mm, msgs = msgs[:k], msgs[k:]
            al["clauses_tried"] += 1
            al["candidates"] += k
            for (c, infos), a, m in zip(cands[i][ci], accepted[ci], mm):
                if a:
                    al["candidates_accepted"] += 1
                    tally(al["accepted_by"], infos)
                else:
                    key = re.sub(r"V\d+|p\d+\(.*|\".*|:\w+\(.*", "_", m)[:60]
                    al["analysis_rejections"][key] = al["analysis_rejections"].get(key, 0) + 1
        vs = alias_build_variants(arng, progs[i], cands[i], accepted, ck.n(2, 2))
        if vs:
            al["originals"] += 1
        for v, ops in vs:
            gc = go_cases[i]
            # quick: the configurations of the original; thorough: three store kinds x both orders
            stores, det = (gc["stores"], gc["det"]) if ck.quick else (arng.sample(ALL_STORES, 3), [False, True])
            variants.append((i, v, ops, go_case(v, stores, det, shuffle_rng=arng if arng.random() < 0.5 else None)))
            for infos in ops.values():
                tally(al["used_by"], infos)
    al["variants"] = len(variants)
    al["corpus_variants"] = sum(len(v) for v in corpus_variants.values())
    all_outs = ck.run_go("c01", go_cases + [v[3] for v in variants], timeout=3000)
    outs, var_outs = all_outs[:len(go_cases)], all_outs[len(go_cases):]
    ck.log("go side done: %d programs, %d alias variants of %d originals (%d/%d candidate clauses accepted by analysis)"
           % (len(progs), len(variants), al["originals"], al["candidates_accepted"], al["candidates"]))

    # alias variants the union-find model (Run.C01.judge_uf) judges as well: evaluated by Go,
    # one result group, encodable observation. They ride on the original's term (only the
    # replaced clauses and, if it differs from the original's, the observation are written out).
    uf_attach = {}
    for vidx, ((i, v, ops, gc), o) in enumerate(zip(variants, var_outs)):
        if "out" not in o or o["out"]["stage"] != "ok" or len(o["out"]["groups"]) != 1:
            continue
        if len(v["clauses"]) != len(progs[i]["clauses"]):
            continue
        try:
            cq_obs(o["out"]["groups"][0])
        except ValueError:
            continue
        uf_attach.setdefault(i, []).append((vidx, v, o["out"]["groups"][0]))
    terms, where, attached = [], [], []
    f8_stores = 0
    rejected, stage_counts = [], {}
    evaluations = 0
    for i, o in enumerate(outs):
        if "out" not in o:
            ck.violation({"property": "C01", "kind": "harness error/panic", "program": progs[i],
                          "src": go_cases[i]["src"], "impl": o})
            continue
        st = o["out"]["stage"]
        stage_counts[st] = stage_counts.get(st, 0) + 1
        if st != "ok":
            rejected.append((i, st, o["out"].get("msg", "")))
            continue
        groups = o["out"]["groups"]
        evaluations += sum(len(g["configs"]) for g in groups)
        if len(groups) > 1 and f8_in_groups(groups):
            # hash-keyed stores conflate the colliding facts, each kind keeps another one
            f8_stores += 1
            ck.known("F8 a generated program produced two facts with equal Atom.Hash(): %s / %s" % f8_in_groups(groups)[0])
            continue
        # unfinished runs (wall-clock guard, fact limit) are inconclusive; only finished runs can disagree
        if len([g for g in groups if g["err"] not in ("timeout", "limit")]) > 1 and len(ck.violations) < 5:
            ck.violation({"property": "C01", "kind": "fact-store kinds / rule orders disagree on one program",
                          "program": progs[i], "src": go_cases[i]["src"], "pre": go_cases[i]["pre"],
                          "groups": [{"configs": g["configs"], "err": g["err"], "msg": g.get("msg"),
                                      "facts": [a["p"] + json.dumps(a["args"]) for a in g["facts"]]} for g in groups]})
        for gi, g in enumerate(groups):
            try:
                vl = uf_attach.get(i, [])[:6] if gi == 0 else []
                terms.append(cq_alias_term(progs[i], g, [(v, None if group_obs(vg) == group_obs(g) else vg)
                                                          for _, v, vg in vl]))
                where.append((i, g))
                attached.append([vidx for vidx, _, _ in vl])
            except ValueError as e:
                ck.violation({"property": "C01", "kind": "Go produced a value outside the modelled fragment: %s" % e,
                              "program": progs[i], "src": go_cases[i]["src"], "go": g})
    # corpus and generated programs must be accepted by the analysis (the exhaustive block
    # may contain rules the analysis rejects; those are outside the property)
    rej_random = [r for r in rejected if origin[r[0]] != "exhaustive"]
    # judge_alias = judge (Solve.v) and judge_uf (SolveUF.v) on the original + judge_uf on every attached variant
    raw_verdicts = ck.run_coq("C01", "judge_alias", terms, shard=max(25, len(terms) // 16 + 1))
    verdicts, uf_code = [], {}
    ufj = {"originals_by_both_models": len(terms), "models_disagree": 0, "variants": 0, "verdicts": {},
           "original_uf_verdicts": {}, "strict_run_differs": 0, "strict_samples": []}
    for k, rv in enumerate(raw_verdicts):
        a, b, ds = decode_alias_verdict(rv, len(attached[k]))
        verdicts.append(a)
        ufj["original_uf_verdicts"][str(b)] = ufj["original_uf_verdicts"].get(str(b), 0) + 1
        for vidx, d in zip(attached[k], ds):
            uf_code[vidx] = d
        if b == 6:
            ufj["strict_run_differs"] += 1
        if b != a and b != 6:
            # Props/C01.v solve_uf_conservative: on alias-free programs both models compute the same
            ufj["models_disagree"] += 1
            if len(ck.violations) < 5:
                i, g = where[k]
                ck.violation({"property": "C01", "kind": "the two Coq models (Solve.v / SolveUF.v) judge one alias-free program differently",
                              "judge": a, "judge_uf": b, "origin": origin[i], "program": progs[i], "src": go_cases[i]["src"],
                              "pre": go_cases[i]["pre"], "configs": g["configs"],
                              "no_longer_checks": "correspondence Run.C01.judge_uf / theorem solve_uf_conservative "
                                                  "(its hypothesis uf_alias_free or the encoding must be broken)"},
                             "no-failing-input-found")
    ck.log("model side done: %d comparisons by both models, %d alias variants judged by the union-find model"
           % (len(terms), len(uf_code)))
    vc = {}
    f8_skipped = 0
    for (i, g), v in zip(where, verdicts):
        vc[v] = vc.get(v, 0) + 1
        if v in (0, 4, 5):
            continue
        if len(ck.violations) >= 5:
            continue
        prog = progs[i]
        kind, mf = model_facts(ck, prog, g)
        gof = dc.facts_from_go(g["facts"]) if g["err"] == "" else None
        rep = {"property": "C01", "verdict": v, "kind": VERDICT[v], "origin": origin[i], "program": prog,
               "src": go_cases[i]["src"], "pre": go_cases[i]["pre"], "configs": g["configs"],
               "go": {"err": g["err"], "msg": g.get("msg"), "facts": dc.canon(gof) if gof is not None else None},
               "model": {"outcome": kind, "facts": dc.canon(mf) if kind == "ok" else mf}}
        if kind == "ok" and gof is not None:
            ms, gs = set(dc.canon(mf)), set(dc.canon(gof))
            rep["missing_in_go"] = sorted(ms - gs)
            rep["extra_in_go"] = sorted(gs - ms)
            coll = dc.f8_collisions(mf + gof)
            if coll:
                # the input contains the trigger of known finding F8 (hash-keyed stores)
                f8_skipped += 1
                ck.known("F8 a generated program produced two facts with equal Atom.Hash(): %s / %s" % coll[0])
                continue
        rep["why_violation"] = ("Props/C01.v proves that the model outcome is the stratified least model "
                                "(strata_exact); the Go store differs from it on this accepted program")
        ck.violation(rep)
    # ---- alias stream verdicts: decided on Go's own outputs (original vs variant); the
    # original's agreement with the model (above) ties the common result to the least model
    model_verdict = {}
    for (i, g), v in zip(where, verdicts):
        model_verdict.setdefault(i, []).append(v)
    al["results"] = {}
    al["samples"] = []
    al_evals = 0
    for vidx, ((i, v, ops, gc), o) in enumerate(zip(variants, var_outs)):
        oo = outs[i]
        d = uf_code.get(vidx)
        if d is not None:
            ufj["variants"] += 1
            ufj["verdicts"][str(d)] = ufj["verdicts"].get(str(d), 0) + 1
            if d == 6:
                ufj["strict_run_differs"] += 1
                if len(ufj["strict_samples"]) < 3:
                    ufj["strict_samples"].append({"original": [dc.clause_text(progs[i]["clauses"][k]) for k in sorted(ops)],
                                                  "variant": [dc.clause_text(v["clauses"][k]) for k in sorted(ops)]})
        if "out" not in o:
            ck.violation({"property": "C01", "alias": True, "kind": "harness error/panic on an alias variant",
                          "program": progs[i], "variant": v, "variant_src": gc["src"], "impl": o})
            continue
        if "out" not in oo or oo["out"]["stage"] != "ok":
            al["results"]["original not evaluated"] = al["results"].get("original not evaluated", 0) + 1
            continue
        if o["out"]["stage"] == "ok":
            al_evals += sum(len(g["configs"]) for g in o["out"]["groups"])
        verdict, detail = alias_compare(oo["out"], o["out"])
        key = verdict + (":" + detail if verdict == "equal" else "")
        al["results"][key] = al["results"].get(key, 0) + 1
        if verdict == "equal" and len(al["samples"]) < 3 and ops:
            al["samples"].append({"original": [dc.clause_text(progs[i]["clauses"][k]) for k in sorted(ops)],
                                  "variant": [dc.clause_text(v["clauses"][k]) for k in sorted(ops)],
                                  "result": detail})
        if verdict in ("equal", "inconclusive", "rejected"):
            # "rejected": every changed clause passed the analysis alone, the whole text did not
            if d in (1, 2, 3) and verdict == "equal" and model_verdict.get(i) == [0] and len(ck.violations) < 5:
                # Go gives the variant the original's result, which IS the least model; the union-find
                # model evaluates the variant to something else: the model (or the clause-level
                # equivalence theorem's reach) is off, not the engine
                rep = alias_replay_dict(progs[i], v, ops, go_cases[i]["src"], gc["src"], gc["pre"], oo["out"], o["out"], origin[i])
                rep["kind"] = "alias variant: Go agrees with the alias-free original, the union-find model of the variant does not"
                rep["variant_vs_uf_model"] = {"code": d, "meaning": VERDICT[d]}
                kind, mf = model_facts(ck, v, o["out"]["groups"][0], "model_tokens_uf")
                rep["uf_model"] = {"outcome": kind, "facts": dc.canon(mf) if kind == "ok" else mf}
                rep["no_longer_checks"] = ("correspondence Run.C01.judge_uf on alias variants / theorem alias_elimination_sound "
                                           "(the variant may leave its hypotheses)")
                ck.violation(rep, "no-failing-input-found")
            continue
        if len(ck.violations) >= 5:
            continue
        rep = alias_replay_dict(progs[i], v, ops, go_cases[i]["src"], gc["src"], gc["pre"], oo["out"], o["out"], origin[i])
        rep["original_vs_model"] = model_verdict.get(i)
        if d is not None:
            # the variant judged directly: Go's result on it against the union-find model's
            rep["variant_vs_uf_model"] = {"code": d, "meaning": VERDICT.get(d, "agree")}
            if d in (1, 2, 3):
                kind, mf = model_facts(ck, v, o["out"]["groups"][0], "model_tokens_uf")
                rep["uf_model"] = {"outcome": kind, "facts": dc.canon(mf) if kind == "ok" else mf}
        if verdict in ("differ", "stores-differ"):
            coll = f8_in_groups(oo["out"]["groups"] + o["out"]["groups"])
            if coll:
                f8_skipped += 1
                ck.known("F8 a generated program produced two facts with equal Atom.Hash(): %s / %s" % coll[0])
                continue
        rep["why_violation"] = ("both texts have the same declarative reading (the variant only renames occurrences of a "
                                "variable to fresh variables and adds equalities that tie them to it) and both are accepted "
                                "by the analysis, so both have the same stratified least model; Go's results differ, hence "
                                "at least one of them is not that model (the original's comparison with the Coq model, "
                                "judge codes %s, says which)" % model_verdict.get(i))
        ck.violation(rep)
    evaluations += al_evals
    al["evaluations"] = al_evals
    ufj["rule"] = ("every alias variant that Go evaluated (one result group) is ALSO compared with the union-find model "
                   "(Run.C01.judge_uf = eval_program_uf of Datalog/SolveUF.v on the variant's text, codes as judge; 6 = the "
                   "strict run differs); every original goes through judge and judge_uf (judge_both), which must agree")
    al["judged_by_uf_model"] = ufj
    al["rule"] = ("per original up to %d clauses x %d candidate variants (dc.alias_step: 1-3 fresh variables per aliased "
                  "variable, equalities in both orientations at random body positions, half of them before the premise "
                  "that first mentions the variable; occurrences moved by kind: let / head / negated atom / comparison / "
                  "!= / function argument / positive atom / random); candidates judged by the real analysis one clause "
                  "at a time; up to 2 variant programs per original; results compared as (error class, canonical fact "
                  "set) with the original's" % (ALIAS_CLAUSES, ALIAS_CANDS))
    wn = wildneg_stream(ck)         # wildcards in negated atoms (own generator stream, own Go / Coq runs)
    evaluations += wn["evaluations"]
    inconclusive = vc.get(4, 0) + vc.get(5, 0)
    feats = {}
    for p in progs:
        for f in p.get("features", ["corpus"]):
            feats[f] = feats.get(f, 0) + 1
    nontrivial = set()
    for i, p in enumerate(progs):
        fs = set(p.get("features", []))
        if fs & {"recursive", "neg", "cmp", "same-round", "exhaustive"} or origin[i].startswith("corpus"):
            nontrivial.add(go_cases[i]["src"] + "#" + go_cases[i]["pre"])
    errs = {}
    for (i, g) in where:
        errs[g["err"] or "ok"] = errs.get(g["err"] or "ok", 0) + 1
    sizes = [len(g["facts"]) for (_, g) in where if g["err"] == ""]
    cov = {"evaluations": evaluations, "programs": len(progs), "comparisons": len(terms),
           "distinct_nontrivial": len(nontrivial),
           "rule": "programs through parse -> AnalyzeOneUnit -> EvalProgram per store kind x WithDeterministicOrder "
                   "(corpus %d, random %d, let-templates of the alias stream %d, exhaustive %d) and compared with the Coq "
                   "model; plus the alias stream (coverage.alias_stream: Go on an alias-free original vs Go on its "
                   "variable-aliasing variants); evaluations = engine runs of both; non-trivial = recursion, "
                   "negation, comparison or same-round join present; distinct by program text"
                   % (ncorpus, nrandom, ntemplate, nexh),
           "exhaustive": nexh > 0,
           "exhaustive_scope": ("all stratifiable safe programs of 2 free rules (+1 seed rule) with bodies of <=2 literals "
                                "over 2 extensional and 2 derived unary/binary predicates, 2 variables, negation included"
                                if nexh else ""),
           "features": feats, "analysis_stage": stage_counts,
           "rejected_by_analysis_random": len(rej_random),
           "go_outcomes": errs, "verdicts": {str(k): n for k, n in sorted(vc.items())},
           "inconclusive": inconclusive, "f8_trigger_skipped": f8_skipped + f8_stores,
           "facts_per_result": {"max": max(sizes or [0]), "mean": round(sum(sizes) / max(1, len(sizes)), 1)},
           "coqchk": coqchk, "alias_stream": al, "wildneg_stream": wn,
           "samples": [go_cases[ncorpus]["src"], go_cases[min(len(go_cases) - 1, ncorpus + 1)]["src"]]}
    if rej_random:
        cov["rejected_samples"] = [(go_cases[i]["src"], m) for i, _, m in rej_random[:3]]
    # the generator must stay inside what the analysis accepts, otherwise the run proves little
    if len(rej_random) > 0.1 * max(1, ncorpus + nrandom + ntemplate):
        ck.violation({"property": "C01", "kind": "generator: more than 10% of the generated programs rejected by analysis",
                      "no_longer_checks": "correspondence Run.C01.judge (input distribution broken)",
                      "samples": cov["rejected_samples"]}, "no-failing-input-found")
    return ck.finish(cov, assumptions=[
        "model hand-written (coq/Datalog/*.v); tied to engine/seminaivebottomup.go, premise.go, transformer.go, "
        "functional.go by differential evaluation only",
        "two models: Solve.v (union-find abstracted to association lists, no variable-variable aliasing; the least-model "
        "theorems are about it) and SolveUF.v (union-find with aliasing, proved conservative over Solve.v; the least-model "
        "theorem transfers to programs on which Solve.v reports no error, i.e. alias-free ones). Aliasing clauses are covered "
        "by the alias stream: the variant is compared with the alias-free original on Go AND with SolveUF.v "
        "(judge_uf, after analysis.RewriteClause as modelled by Analysis/RuleCheck.v rewrite); that variant and original derive "
        "the same facts is machine-checked per clause (alias_elimination_sound: one alias variable eliminated, any "
        "placement/orientation, hypotheses: both strict runs finish, transform variables not in the body), not for the whole "
        "semi-naive loop",
        "fragment: names, strings, int64 numbers, pairs, lists; fn:plus/minus/mult/div/pair/cons/list/len; "
        "= != < <= > >=; let-transforms; no floats, maps, structs, temporal facts, external/deferred/merge predicates, do-transforms (C02)",
        "wildcards inside negated atoms: each `_` is encoded as a fresh variable (Syntax.v has no wildcard term); the wildcard-negation "
        "stream is judged by the first model only (judge) - Run.C01.run_model_uf applies RuleCheck.rewrite, which knows the wildcard "
        "as variable -1 and would delay the encoded atom to the end of the body",
        "programs are safe by construction: != , comparisons and negated atoms after their binders (findings N19, F3 belong to C04), "
        "typed columns so that no two facts of a predicate have equal Atom.Hash() (finding F8)",
        "independence of the result from the choice of a valid stratification is tested (Go stratifies itself), not proved"])


def replay(ck, path):
    ck.build_harness()
    rep = json.load(open(path))
    prog = rep["program"]
    gc = go_case(prog, ALL_STORES, [False, True])
    if "src" in rep:
        gc["src"] = rep["src"]
    out = ck.run_go("c01", [gc])[0]
    if "out" not in out or out["out"]["stage"] != "ok":
        print("replay: program not evaluated: %s" % json.dumps(out)[:300])
        print("VIOLATION property=C01 replay=%s" % path)
        return 1
    bad = len(out["out"]["groups"]) > 1
    for g in out["out"]["groups"]:
        v = ck.run_coq("C01", "judge", [cq_case(prog, g)])[0]
        print("replay: configs %s: verdict %d %s" % (g["configs"], v, VERDICT.get(v, "agree")))
        bad = bad or v in (1, 2, 3)
    if rep.get("alias") and "variant" in rep:
        # alias stream: the variant's result on Go must equal the original's
        vc = go_case(rep["variant"], ALL_STORES, [False, True])
        if "variant_src" in rep:
            vc["src"] = rep["variant_src"]
        vo = ck.run_go("c01", [vc])[0]
        if "out" not in vo:
            print("replay: alias variant: harness error %s" % json.dumps(vo)[:300])
            bad = True
        else:
            verdict, detail = alias_compare(out["out"], vo["out"])
            print("replay: alias variant vs original on Go: %s %s" % (verdict, detail))
            for g in (vo["out"].get("groups") or []):
                print("replay:   variant configs %s: err=%r %s" % (g["configs"], g["err"], (g.get("msg") or "")[:200]))
                try:
                    d = ck.run_coq("C01", "judge_uf", [cq_case(rep["variant"], g)])[0]
                    print("replay:   variant against the union-find model: verdict %d %s" % (d, VERDICT.get(d, "agree")))
                    bad = bad or d in (1, 2, 3)
                except ValueError as e:
                    print("replay:   variant result outside the modelled fragment: %s" % e)
            bad = bad or verdict in ("differ", "stores-differ")
    if bad:
        print("VIOLATION property=C01 replay=%s" % path)
        return 1
    return 0


META = {
    "text": "Machine-checked theorems (coq/Props/C01.v) about a Gallina model of the semi-naive engine (left-to-right join with "
            "unification, negation against the store, equalities/inequalities/comparisons, function evaluation, let-transforms, "
            "first round + delta rules per body position + merge, stratum driver): for every program whose negated predicates "
            "are not derived in the stratum, every base-fact set, every rule order and every fuel, a finished evaluation holds "
            "exactly the facts of the least model (soundness and completeness), lifted to every valid stratification; the "
            "pre-fix loop order is refuted on the F1 witness. The model is tied to engine.EvalProgram on every run by "
            "evaluating generated stratifiable programs (same-round joins, non-linear and mutual recursion, negation, "
            "comparisons, arithmetic, pairs/lists, let) on all six fact-store kinds with and without deterministic order and "
            "comparing the complete fact sets with the model evaluated inside Coq; thorough adds an exhaustive block over a "
            "small rule schema. Variable-variable aliasing (equalities between unbound variables, union-find chains "
            "Var -> Var -> constant), which that model does not have, is covered by an alias stream: each generated program and "
            "declaratively equivalent variants (occurrences of a variable handed to fresh variables tied to it by equalities "
            "written before or after its binder, chains of up to 3, aliases used in the let-transform / head / negated atom / "
            "comparison / != / function argument; only variants the real analysis accepts) are evaluated by Go and must give "
            "the same error class and fact set. A second, alias-aware model (Datalog/SolveUF.v: union-find substitutions with "
            "variable -> variable chains, unification as UnifyTermsExtend, the let path through AsConstSubstList) judges every "
            "variant directly (judge_uf) and every original next to the first model; theorems: it is conservative over the "
            "first model (same solutions, facts and program outcome wherever that one answers, so the least-model theorem "
            "transfers; on programs passing a syntactic test - no variable = variable equality with both sides possibly "
            "unbound, implied by CheckRule acceptance plus C04's alias_free - the two models have the same outcome "
            "including errors, so the least-model theorem holds for the union-find model with no hypothesis about the "
            "first), every solution resolves the variables of positive atoms and everything aliased to them through any "
            "chain, its one-pass lookup equals the chain-following find, a strict run derives exactly the head instances of "
            "the valuations satisfying every premise (order-independent), and eliminating an alias variable (equality "
            "anywhere in the body, either orientation) does not change the facts a clause derives, nor does removing the "
            "premise V = V it leaves behind. Wildcards inside negated "
            "atoms (`!r(X, _)`, `!r(_, _)`, `!r(X, _, X)`; the generator of the main stream never writes them) have a stream of "
            "their own: generated programs get `_` into existing negated atoms and new negated atoms with wildcards over "
            "lower-layer / extensional predicates at any body position behind their binders, and are compared with the first "
            "model as the main stream; theorems neg_wildcard_reading / neg_wildcard_step (Datalog/WildNeg.v) state the reading "
            "the least-model theorems use: such an atom holds iff no valuation of its unbound variables (each `_` a variable "
            "of its own) makes it a fact of the completed lower strata.",
    "note": "Trusted: Coq kernel + vm_compute; the hand-written models are tied to the Go code only by differential evaluation "
            "(sampled; exhaustive on the 2-rule schema). The least-model theorems are about the alias-free model and, for "
            "programs passing the no-alias test (strata_exact_uf_static / strata_exact_uf_checked), the union-find model; for aliasing "
            "clauses the machine-checked part is per clause (alias_elimination_sound, under the hypotheses that both strict "
            "runs finish and transform variables do not occur in the body), the whole-program equality of variant and "
            "original is tested (Go vs Go, Go vs alias-aware model), not proved. Safety of clauses (C04), do-transforms "
            "(C02), hash collisions in stores (F8) and temporal facts are outside; stratification independence is tested, "
            "not proved.",
}
