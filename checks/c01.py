"""C01 - evaluation yields exactly the stratified least model.

Theorems: coq/Props/C01.v (the model's result IS the least model, for every program,
base-fact set, rule order and fuel). Correspondence: generated stratifiable programs are
evaluated by engine.EvalProgram on every fact-store kind (Go harness `c01`) and by the
model `eval_program` inside Coq; the fact sets must be equal. A disagreement on a program
accepted by the analysis is a property violation on that input.
"""
import glob
import itertools
import json
import os
import re

from vlib.core import C, Raw, coq
from checks import datalog_common as dc

ALL_STORES = ["simple", "indexed", "multi", "array", "merged", "teeing"]
FUEL = 80
LIMIT = 3000


# ------------------------------------------------------------------ case encoding
def go_case(prog, stores, det, shuffle_rng=None):
    return {"src": dc.to_mangle(prog, shuffle_rng), "pre": dc.facts_text(prog.get("pre", [])),
            "stores": stores, "det": det, "limit": LIMIT, "timeout_ms": 20000}


def cq_obs(group):
    if group["err"] == "":
        return C("OFacts", [dc.cq_fact(f) for f in dc.facts_from_go(group["facts"])])
    if group["err"] in ("limit", "timeout"):
        return Raw("OLimit")
    return Raw("OEvalErr")


def cq_case(prog, group, fuel=FUEL):
    return coq(C("mkCase", dc.cq_program(prog), dc.cq_layers(prog),
                 [dc.cq_fact(f) for f in prog.get("pre", [])],
                 [dc.cq_fact(f) for f in prog.get("init", [])], fuel, cq_obs(group)))


def model_facts(ck, prog, group):
    """Model outcome for a replay: ("ok", facts) | ("error", None) | ("fuel", None)."""
    out = ck.coq_show("C01", "model_tokens " + cq_case(prog, group))
    m = re.search(r"=\s*\[(.*?)\]\s*:\s*list Z", out, re.S)
    if not m:
        return "unparsed", out[-500:]
    toks = [int(x) for x in re.findall(r"-?\d+", m.group(1))]
    return dc.parse_model_tokens(toks)


VERDICT = {1: "both finished, fact sets differ",
           2: "Go returned an evaluation error, the least model exists (model finished)",
           3: "Go finished although a premise/function evaluation must fail (model reports an error)",
           4: "model out of fuel (inconclusive)",
           5: "Go hit the fact limit (inconclusive)"}


# ------------------------------------------------------------------ exhaustive block
def exhaustive_programs():
    """Every program of two rules over the schema: p0/2 and p1/1 extensional (fixed
    facts), p2/1 and p3/1 derived; fixed seed rule p2(X) :- p1(X); each of the two free
    rules has head p2(X) or p3(X) and a body of one or two literals from p1(V), p2(V),
    p3(V), p0(V,W), !p1(V), !p2(V), !p3(V) over the variables X, Y. Kept: safe rules (head
    variable and every negated variable bound by an earlier positive literal) and
    stratifiable programs."""
    X, Y = dc.var(1), dc.var(2)
    vs = [X, Y]
    pos = [["atom", dc.atom(p, v)] for p in (1, 2, 3) for v in vs]
    pos += [["atom", dc.atom(0, v, w)] for v in vs for w in vs]
    neg = [["neg", dc.atom(p, v)] for p in (1, 2, 3) for v in vs]

    def vars_of(l):
        return set(t[1] for t in l[1]["args"])
    bodies = [[l] for l in pos]
    bodies += [[a, b] for a in pos for b in pos + neg]
    rules = []
    for h in (2, 3):
        for b in bodies:
            bound = set()
            ok = True
            for l in b:
                if l[0] == "neg":
                    ok = ok and vars_of(l) <= bound
                else:
                    bound |= vars_of(l)
            if ok and 1 in bound:
                rules.append(dc.clause(dc.atom(h, X), b))
    seed = dc.clause(dc.atom(2, X), [["atom", dc.atom(1, X)]])
    init = [dc.fact(0, dc.num(1), dc.num(2)), dc.fact(0, dc.num(2), dc.num(3)), dc.fact(0, dc.num(3), dc.num(3)),
            dc.fact(1, dc.num(1)), dc.fact(3, dc.num(2))]
    for r1, r2 in itertools.combinations_with_replacement(rules, 2):
        cl = [seed, r1, r2]
        layers = dc.stratify(cl)
        if layers is None:
            continue
        yield {"clauses": cl, "layers": layers, "init": init, "pre": [], "features": ["exhaustive"]}


# ------------------------------------------------------------------ the check
def run(ck):
    ck.obligations()
    ck.build_harness()
    rng = ck.rng
    progs, origin = [], []
    here = os.path.dirname(os.path.abspath(__file__))
    for path in sorted(glob.glob(os.path.join(here, "..", "corpus", "C01", "*.json"))):
        progs.append(json.load(open(path))["program"])
        origin.append("corpus:" + os.path.basename(path))
    ncorpus = len(progs)
    for _ in range(ck.n(200, 4000)):
        progs.append(dc.gen_program(rng, big=(not ck.quick) and rng.random() < 0.5))
        origin.append("random")
    nrandom = len(progs) - ncorpus
    nexh = 0
    if not ck.quick:
        ex = list(exhaustive_programs())
        nexh = len(ex)
        progs += ex
        origin += ["exhaustive"] * nexh
    coqchk = None
    if not ck.quick and not ck.proof_broken:
        import subprocess
        from vlib.core import COQ
        p = subprocess.run(["coqchk", "-silent", "-o", "-Q", ".", "MV", "MV.Props.C01"], cwd=COQ,
                           stdout=subprocess.PIPE, stderr=subprocess.STDOUT, text=True, timeout=3000)
        coqchk = "ok, Axioms: <none>" if p.returncode == 0 and "Axioms: <none>" in p.stdout else "FAILED"
        if coqchk == "FAILED":
            ck.proof_broken = "coqchk -o MV.Props.C01 failed:\n" + p.stdout[-2000:]
        ck.log("coqchk: " + coqchk)
    # store kinds: quick = 2 random kinds per program (+ all six on the corpus), thorough = all six
    go_cases = []
    for i, p in enumerate(progs):
        if origin[i] == "exhaustive":
            stores, det = ["simple", "array"], [False]
        elif ck.quick and origin[i] == "random":
            stores, det = rng.sample(ALL_STORES, 2), [rng.random() < 0.5]
        else:
            stores, det = ALL_STORES, [False, True]
        go_cases.append(go_case(p, stores, det, shuffle_rng=rng if origin[i] == "random" and rng.random() < 0.5 else None))
    outs = ck.run_go("c01", go_cases, timeout=3000)
    ck.log("go side done: %d programs" % len(progs))

    terms, where = [], []
    rejected, stage_counts = [], {}
    evaluations = 0
    for i, o in enumerate(outs):
        if "out" not in o:
            ck.violation({"property": "C01", "kind": "harness error/panic", "program": progs[i],
                          "src": go_cases[i]["src"], "impl": o})
            continue
        st = o["out"]["stage"]
        stage_counts[st] = stage_counts.get(st, 0) + 1
        if st != "ok":
            rejected.append((i, st, o["out"].get("msg", "")))
            continue
        groups = o["out"]["groups"]
        evaluations += sum(len(g["configs"]) for g in groups)
        if len(groups) > 1 and len(ck.violations) < 5:
            ck.violation({"property": "C01", "kind": "fact-store kinds / rule orders disagree on one program",
                          "program": progs[i], "src": go_cases[i]["src"], "pre": go_cases[i]["pre"],
                          "groups": [{"configs": g["configs"], "err": g["err"], "msg": g.get("msg"),
                                      "facts": [a["p"] + json.dumps(a["args"]) for a in g["facts"]]} for g in groups]})
        for g in groups:
            try:
                terms.append(cq_case(progs[i], g))
                where.append((i, g))
            except ValueError as e:
                ck.violation({"property": "C01", "kind": "Go produced a value outside the modelled fragment: %s" % e,
                              "program": progs[i], "src": go_cases[i]["src"], "go": g})
    # corpus and generated programs must be accepted by the analysis (the exhaustive block
    # may contain rules the analysis rejects; those are outside the property)
    rej_random = [r for r in rejected if origin[r[0]] != "exhaustive"]
    verdicts = ck.run_coq("C01", "judge", terms, shard=max(25, len(terms) // 16 + 1))
    ck.log("model side done: %d comparisons" % len(terms))
    vc = {}
    f8_skipped = 0
    for (i, g), v in zip(where, verdicts):
        vc[v] = vc.get(v, 0) + 1
        if v in (0, 4, 5):
            continue
        if len(ck.violations) >= 5:
            continue
        prog = progs[i]
        kind, mf = model_facts(ck, prog, g)
        gof = dc.facts_from_go(g["facts"]) if g["err"] == "" else None
        rep = {"property": "C01", "verdict": v, "kind": VERDICT[v], "origin": origin[i], "program": prog,
               "src": go_cases[i]["src"], "pre": go_cases[i]["pre"], "configs": g["configs"],
               "go": {"err": g["err"], "msg": g.get("msg"), "facts": dc.canon(gof) if gof is not None else None},
               "model": {"outcome": kind, "facts": dc.canon(mf) if kind == "ok" else mf}}
        if kind == "ok" and gof is not None:
            ms, gs = set(dc.canon(mf)), set(dc.canon(gof))
            rep["missing_in_go"] = sorted(ms - gs)
            rep["extra_in_go"] = sorted(gs - ms)
            coll = dc.f8_collisions(mf + gof)
            if coll:
                # the input contains the trigger of known finding F8 (hash-keyed stores)
                f8_skipped += 1
                ck.known("F8 a generated program produced two facts with equal Atom.Hash(): %s / %s" % coll[0])
                continue
        rep["why_violation"] = ("Props/C01.v proves that the model outcome is the stratified least model "
                                "(strata_exact); the Go store differs from it on this accepted program")
        ck.violation(rep)
    inconclusive = vc.get(4, 0) + vc.get(5, 0)
    feats = {}
    for p in progs:
        for f in p.get("features", ["corpus"]):
            feats[f] = feats.get(f, 0) + 1
    nontrivial = set()
    for i, p in enumerate(progs):
        fs = set(p.get("features", []))
        if fs & {"recursive", "neg", "cmp", "same-round", "exhaustive"} or origin[i].startswith("corpus"):
            nontrivial.add(go_cases[i]["src"] + "#" + go_cases[i]["pre"])
    errs = {}
    for (i, g) in where:
        errs[g["err"] or "ok"] = errs.get(g["err"] or "ok", 0) + 1
    sizes = [len(g["facts"]) for (_, g) in where if g["err"] == ""]
    cov = {"evaluations": evaluations, "programs": len(progs), "comparisons": len(terms),
           "distinct_nontrivial": len(nontrivial),
           "rule": "programs through parse -> AnalyzeOneUnit -> EvalProgram per store kind x WithDeterministicOrder "
                   "(corpus %d, random %d, exhaustive %d); evaluations = engine runs; non-trivial = recursion, "
                   "negation, comparison or same-round join present; distinct by program text" % (ncorpus, nrandom, nexh),
           "exhaustive": nexh > 0,
           "exhaustive_scope": ("all stratifiable safe programs of 2 free rules (+1 seed rule) with bodies of <=2 literals "
                                "over 2 extensional and 2 derived unary/binary predicates, 2 variables, negation included"
                                if nexh else ""),
           "features": feats, "analysis_stage": stage_counts,
           "rejected_by_analysis_random": len(rej_random),
           "go_outcomes": errs, "verdicts": {str(k): n for k, n in sorted(vc.items())},
           "inconclusive": inconclusive, "f8_trigger_skipped": f8_skipped,
           "facts_per_result": {"max": max(sizes or [0]), "mean": round(sum(sizes) / max(1, len(sizes)), 1)},
           "coqchk": coqchk,
           "samples": [go_cases[ncorpus]["src"], go_cases[min(len(go_cases) - 1, ncorpus + 1)]["src"]]}
    if rej_random:
        cov["rejected_samples"] = [(go_cases[i]["src"], m) for i, _, m in rej_random[:3]]
    # the generator must stay inside what the analysis accepts, otherwise the run proves little
    if len(rej_random) > 0.1 * max(1, ncorpus + nrandom):
        ck.violation({"property": "C01", "kind": "generator: more than 10% of the generated programs rejected by analysis",
                      "no_longer_checks": "correspondence Run.C01.judge (input distribution broken)",
                      "samples": cov["rejected_samples"]}, "no-failing-input-found")
    return ck.finish(cov, assumptions=[
        "model hand-written (coq/Datalog/*.v); tied to engine/seminaivebottomup.go, premise.go, transformer.go, "
        "functional.go by differential evaluation only",
        "union-find substitutions abstracted to association lists; variable-variable aliasing (unsafe clauses only) not modelled",
        "fragment: names, strings, int64 numbers, pairs, lists; fn:plus/minus/mult/div/pair/cons/list/len; "
        "= != < <= > >=; let-transforms; no floats, maps, structs, temporal facts, external/deferred/merge predicates, do-transforms (C02)",
        "programs are safe by construction: != , comparisons and negated atoms after their binders (findings N19, F3 belong to C04), "
        "typed columns so that no two facts of a predicate have equal Atom.Hash() (finding F8)",
        "independence of the result from the choice of a valid stratification is tested (Go stratifies itself), not proved"])


def replay(ck, path):
    ck.build_harness()
    rep = json.load(open(path))
    prog = rep["program"]
    gc = go_case(prog, ALL_STORES, [False, True])
    if "src" in rep:
        gc["src"] = rep["src"]
    out = ck.run_go("c01", [gc])[0]
    if "out" not in out or out["out"]["stage"] != "ok":
        print("replay: program not evaluated: %s" % json.dumps(out)[:300])
        print("VIOLATION property=C01 replay=%s" % path)
        return 1
    bad = len(out["out"]["groups"]) > 1
    for g in out["out"]["groups"]:
        v = ck.run_coq("C01", "judge", [cq_case(prog, g)])[0]
        print("replay: configs %s: verdict %d %s" % (g["configs"], v, VERDICT.get(v, "agree")))
        bad = bad or v in (1, 2, 3)
    if bad:
        print("VIOLATION property=C01 replay=%s" % path)
        return 1
    return 0


META = {
    "text": "Machine-checked theorems (coq/Props/C01.v) about a Gallina model of the semi-naive engine (left-to-right join with "
            "unification, negation against the store, equalities/inequalities/comparisons, function evaluation, let-transforms, "
            "first round + delta rules per body position + merge, stratum driver): for every program whose negated predicates "
            "are not derived in the stratum, every base-fact set, every rule order and every fuel, a finished evaluation holds "
            "exactly the facts of the least model (soundness and completeness), lifted to every valid stratification; the "
            "pre-fix loop order is refuted on the F1 witness. The model is tied to engine.EvalProgram on every run by "
            "evaluating generated stratifiable programs (same-round joins, non-linear and mutual recursion, negation, "
            "comparisons, arithmetic, pairs/lists, let) on all six fact-store kinds with and without deterministic order and "
            "comparing the complete fact sets with the model evaluated inside Coq; thorough adds an exhaustive block over a "
            "small rule schema.",
    "note": "Trusted: Coq kernel + vm_compute; the hand-written model is tied to the Go code only by differential evaluation "
            "(sampled; exhaustive on the 2-rule schema). Union-find abstracted to association lists. Safety of clauses "
            "(C04), do-transforms (C02), hash collisions in stores (F8) and temporal facts are outside; stratification "
            "independence is tested, not proved.",
}
