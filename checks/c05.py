"""C05 - results do not depend on presentation, ordering or store choice.

Theorems: coq/Props/C05.v (the least model / stratified model depends on clauses and
base facts through membership only, on no rule order, on no choice of a valid
stratification; injective predicate renaming and alpha-renaming commute with it).

Search on the implementation (metamorphic): every generated program is written in several
PRESENTATIONS - base, lines permuted, predicates and variables renamed, wrapped in a
package, spread over two units of one package, split into two packages - and each
presentation is taken through parse -> analysis.Analyze -> engine.EvalProgram several
times (parse and analysis repeated: Go re-randomises map iteration on every range) on
several store kinds with and without WithDeterministicOrder. The canonical fact sets
(internal predicates removed, names mapped back) of ALL runs of ALL presentations must be
equal; a difference is a violation decided on Go's own outputs (confirmed by the verified
observer same_set inside Coq). In addition the base presentation is compared with the Coq
model (C01's judge) and the renamed presentation with the model run on the program renamed
inside Coq by the functions the theorems are about. Temporal programs (own generator,
no model) take part in the metamorphic comparison only.

Round 3 (after seeding): (a) one ground atom with 3-6 validity intervals whose base facts are
written in every order (ascending / descending / mixed start order; nested, overlapping,
touching, disjoint) with rules that ask for a concrete sub-interval / instant / operator
window inside EACH stored interval; (b) store choice with a NON-EMPTY caller's store: base
facts in the store instead of the text, including facts the program derives again, on every
store kind (TeeingStore / MergedStore hold them in their read-only part), a second evaluation
on a TeeingStore / MergedStore stacked over the store of a first evaluation, and plain
re-running, with fn:count / fn:sum over the re-derived predicate so that a fact kept or
delivered twice shows in the fact SET.
"""
import glob
import itertools
import json
import os

from vlib.core import C, Raw, coq
from checks import datalog_common as dc

ALL_STORES = ["simple", "indexed", "multi", "array", "merged", "teeing", "concurrent"]
FUEL = 80
LIMIT = 3000
NOW = 1706745600000000000          # 2024-02-01T00:00:00Z, fixed evaluation time
PRED_STEMS = ["q", "rel_", "zeta", "m_x", "a"]
VAR_STEMS = ["W", "Var", "Yy", "A"]


# ------------------------------------------------------------------ text rendering
def term_text(t, vn):
    k = t[0]
    if k == "var":
        return vn(t[1])
    if k == "wild":
        return "_"
    if k == "c":
        return dc.const_text(t[1])
    if k == "app":
        return "%s(%s)" % (dc.FN_TEXT.get(t[1], t[1]), ", ".join(term_text(x, vn) for x in t[2]))
    raise ValueError(t)


def atom_text(a, pn, vn):
    return "%s(%s)" % (pn(a["p"]), ", ".join(term_text(x, vn) for x in a["args"]))


OPS = {"dm": "<-", "bm": "[-", "dp": "<+", "bp": "[+"}


def bound_text(b, vn):
    if b[0] == "tvar":
        return vn(b[1])
    if b[0] == "now":
        return "now"
    return b[1]                       # ["ts", text] / ["dur", text]


def ann_text(ann, vn):
    return "" if ann is None else "@[%s]" % ", ".join(bound_text(b, vn) for b in ann)


def premise_text(p, pn, vn):
    k = p[0]
    if k == "atom":
        return atom_text(p[1], pn, vn)
    if k == "neg":
        return "!" + atom_text(p[1], pn, vn)
    if k == "tatom":                  # ["tatom", atom, op|None, ann|None]
        s = ""
        if p[2] is not None:
            s = "%s[%s, %s] " % (OPS[p[2][0]], p[2][1], p[2][2])
        return s + atom_text(p[1], pn, vn) + ann_text(p[3], vn)
    if k == "eq":
        return "%s = %s" % (term_text(p[1], vn), term_text(p[2], vn))
    if k == "ineq":
        return "%s != %s" % (term_text(p[1], vn), term_text(p[2], vn))
    if k == "cmp":
        return "%s %s %s" % (term_text(p[2], vn), dc.CMP[p[1]][1], term_text(p[3], vn))
    raise ValueError(p)


def clause_text(c, pn, vn):
    s = atom_text(c["head"], pn, vn) + ann_text(c.get("ht"), vn)
    if c["body"]:
        s += " :- " + ", ".join(premise_text(p, pn, vn) for p in c["body"])
    if c.get("let"):
        s += " |> " + ", ".join("let %s = %s" % (vn(v), term_text(t, vn)) for v, t in c["let"])
    if c.get("do"):
        d = c["do"]
        s += " |> do fn:group_by(%s)" % ", ".join(vn(x) for x in d["group"])
        for v, fname, args in d["lets"]:
            s += ", let %s = %s(%s)" % (vn(v), fname, ", ".join(vn(x) for x in args))
    return s + ("." if s.endswith(")") or s.endswith("]") else " .")


def fact_text(f, pn):
    s = "%s(%s)" % (pn(f["p"]), ", ".join(dc.const_text(c) for c in f["args"]))
    if f.get("iv"):
        s += "@[%s]" % ", ".join(f["iv"])
    return s + "."


def clause_vars(c):
    acc = set()

    def tv(t):
        dc.term_vars(t, acc)
    for t in c["head"]["args"]:
        tv(t)
    for b in c.get("ht") or []:
        if b[0] == "tvar":
            acc.add(b[1])
    for p in c["body"]:
        if p[0] in ("atom", "neg", "tatom"):
            for t in p[1]["args"]:
                tv(t)
            if p[0] == "tatom":
                for b in p[3] or []:
                    if b[0] == "tvar":
                        acc.add(b[1])
        elif p[0] == "cmp":
            tv(p[2]), tv(p[3])
        else:
            tv(p[1]), tv(p[2])
    for v, t in c.get("let", []):
        acc.add(v)
        tv(t)
    if c.get("do"):
        acc.update(c["do"]["group"])
        for v, _f, args in c["do"]["lets"]:
            acc.add(v)
            acc.update(args)
    return acc


def all_preds(prog):
    ps = set()
    for c in prog["clauses"]:
        ps.add(c["head"]["p"])
        for p in c["body"]:
            if p[0] in ("atom", "neg", "tatom"):
                ps.add(p[1]["p"])
    for f in prog.get("init", []) + prog.get("pre", []):
        ps.add(f["p"])
    return ps


def defined_preds(prog):
    return set(c["head"]["p"] for c in prog["clauses"]) | set(f["p"] for f in prog.get("init", []))


# ------------------------------------------------------------------ presentations
class Pres:
    """One way of writing a program down. unname: printed predicate -> base id."""

    def __init__(self, kind, units, pre, unname, pmap=None, vmaps=None):
        self.kind, self.units, self.pre, self.unname = kind, units, pre, unname
        self.pmap, self.vmaps = pmap, vmaps


def _unname_plain(prefixes):
    def un(s):
        for p in prefixes:
            if s.startswith(p):
                s = s[len(p):]
                break
        if not (s.startswith("p") and s[1:].isdigit()):
            raise ValueError("unexpected predicate %r" % s)
        return int(s[1:])
    return un


def _lines(prog, pn, vn_for, which=None):
    out = []
    for f in prog.get("init", []):
        if which is None or which(f["p"]):
            out.append(fact_text(f, pn))
    for i, c in enumerate(prog["clauses"]):
        if which is None or which(c["head"]["p"]):
            out.append(clause_text(c, pn, vn_for(i)))
    return out


def _vn_default(_i):
    return dc.var_name


def pres_base(prog):
    pn = dc.pred_name
    return Pres("base", ["\n".join(_lines(prog, pn, _vn_default)) + "\n"],
                "\n".join(fact_text(f, pn) for f in prog.get("pre", [])), _unname_plain([]))


def pres_perm(prog, rng):
    pn = dc.pred_name
    lines = _lines(prog, pn, _vn_default)
    rng.shuffle(lines)
    pre = [fact_text(f, pn) for f in prog.get("pre", [])]
    rng.shuffle(pre)
    return Pres("perm", ["\n".join(lines) + "\n"], "\n".join(pre), _unname_plain([]))


def pres_renamed(prog, rng):
    """Predicates permuted among their ids and printed with another stem; the variables
    of every clause permuted among themselves and printed with another stem; lines shuffled."""
    ids = sorted(all_preds(prog))
    img = ids[:]
    rng.shuffle(img)
    pmap = dict(zip(ids, img))
    stem = rng.choice(PRED_STEMS)
    vstem = rng.choice(VAR_STEMS)

    def pn(k):
        return "%s%d" % (stem, pmap[k])
    vmaps = []
    for c in prog["clauses"]:
        vs = sorted(clause_vars(c))
        im = vs[:]
        rng.shuffle(im)
        vmaps.append(dict(zip(vs, im)))

    def vn_for(i):
        return lambda v: "%s%d" % (vstem, vmaps[i][v])
    lines = _lines(prog, pn, vn_for)
    rng.shuffle(lines)
    pre = [fact_text(f, pn) for f in prog.get("pre", [])]
    rng.shuffle(pre)
    inv = {v: k for k, v in pmap.items()}

    def un(s):
        if not (s.startswith(stem) and s[len(stem):].isdigit()):
            raise ValueError("unexpected predicate %r" % s)
        return inv[int(s[len(stem):])]
    p = Pres("renamed", ["\n".join(lines) + "\n"], "\n".join(pre), un, pmap, vmaps)
    p.stem = stem
    return p


def pres_pkg1(prog, rng, shuffle=True):
    pn = dc.pred_name
    defd = defined_preds(prog)
    lines = _lines(prog, pn, _vn_default)
    if shuffle:
        rng.shuffle(lines)

    def pq(k):
        return ("pk." if k in defd else "") + pn(k)
    return Pres("pkg1", ["Package pk!\n" + "\n".join(lines) + "\n"],
                "\n".join(fact_text(f, pq) for f in prog.get("pre", [])), _unname_plain(["pk."]))


def pres_pkgmerge(prog, rng):
    """Two source units of the same package (packages.Merge)."""
    pn = dc.pred_name
    defd = defined_preds(prog)
    lines = _lines(prog, pn, _vn_default)
    rng.shuffle(lines)
    k = rng.randint(0, len(lines))

    def pq(k):
        return ("pk." if k in defd else "") + pn(k)
    return Pres("pkgmerge", ["Package pk!\n" + "\n".join(lines[:k]) + "\n", "Package pk!\n" + "\n".join(lines[k:]) + "\n"],
                "\n".join(fact_text(f, pq) for f in prog.get("pre", [])), _unname_plain(["pk."]))


def pres_pkg2(prog, rng):
    """Lower part in package lo, upper layers in package hi (Use lo!, references lo.pK).
    None if the program has a single layer."""
    layers = prog["layers"]
    if len(layers) < 2:
        return None
    s = rng.randint(1, len(layers) - 1)
    hi = set(p for l in layers[s:] for p in l)
    defd = defined_preds(prog)
    lo = defd - hi

    def pn_lo(k):
        return dc.pred_name(k)

    def pn_hi(k):
        return ("lo." if k in lo else "") + dc.pred_name(k)
    l_lo = _lines(prog, pn_lo, _vn_default, which=lambda p: p in lo)
    l_hi = _lines(prog, pn_hi, _vn_default, which=lambda p: p in hi)
    rng.shuffle(l_lo)
    rng.shuffle(l_hi)
    units = ["Package lo!\n" + "\n".join(l_lo) + "\n", "Package hi!\nUse lo!\n" + "\n".join(l_hi) + "\n"]
    if rng.random() < 0.5:
        units.reverse()

    def pq(k):
        return ("lo." if k in lo else "hi." if k in hi else "") + dc.pred_name(k)
    return Pres("pkg2", units, "\n".join(fact_text(f, pq) for f in prog.get("pre", [])), _unname_plain(["lo.", "hi."]))


def presentations(prog, rng, temporal=False):
    ps = [pres_base(prog), pres_perm(prog, rng), pres_renamed(prog, rng), pres_pkg1(prog, rng)]
    if not temporal:
        ps.append(pres_pkgmerge(prog, rng))
        p2 = pres_pkg2(prog, rng)
        if p2 is not None:
            ps.append(p2)
    else:
        ps.append(pres_pkgmerge(prog, rng))
    return ps


# ------------------------------------------------------------------ aggregating programs
def gen_aggregating(rng):
    """A program of C01's generator plus a top layer of aggregating rules (do-transforms
    with the order-insensitive reducers count / sum / max / min over integers): the
    rewriting into internal `__tmp` predicates (rewrite/rewrite.go) and the grouping take
    part in the comparison. One aggregating rule per head predicate (finding F2: several
    per head share one internal name). No Coq model (do-transforms are C02's)."""
    g = dc.Gen(rng, False)
    prog = g.program()
    cands = [p for p, sig in g.sig.items() if len(sig) >= 2 and sig[0] in "NA" and "N" in sig[1:]]
    cands += [p for p, sig in g.sig.items() if len(sig) >= 1 and sig[0] in "NA"]
    top = []
    nextp = max(g.sig) + 1
    for _ in range(rng.randint(1, 3)):
        p = rng.choice(cands)
        sig = g.sig[p]
        vs = list(range(1, len(sig) + 1))
        body = [["atom", dc.atom(p, *[dc.var(i) for i in vs])]]
        unary = [q for q, s2 in g.sig.items() if s2 == (sig[0],) and q != p]
        if unary and rng.random() < 0.5:
            # a second premise: the rule body is moved into an internal predicate first
            body.append(["atom", dc.atom(rng.choice(unary), dc.var(1))])
        ncols = [i for i in vs[1:] if sig[i - 1] == "N"]
        lets = []
        out = 20
        if ncols and rng.random() < 0.8:
            lets.append([out, rng.choice(["fn:sum", "fn:max", "fn:min"]), [rng.choice(ncols)]])
            out += 1
        if not lets or rng.random() < 0.5:
            lets.append([out, "fn:count", []])
        group = [1] if rng.random() < 0.8 or len(vs) < 2 else [1, 2]
        head = dc.atom(nextp, *([dc.var(x) for x in group] + [dc.var(l[0]) for l in lets]))
        prog["clauses"].append({"head": head, "body": body, "let": [], "do": {"group": group, "lets": lets}})
        top.append(nextp)
        nextp += 1
    rng.shuffle(prog["clauses"])
    prog["layers"] = prog["layers"] + [top]
    prog["features"] = sorted(set(prog["features"]) | {"aggregate"})
    prog["nomodel"] = True
    return prog


# ------------------------------------------------------------------ temporal programs
DAYS = ["2024-01-%02d" % d for d in range(1, 29)]


def gen_temporal(rng):
    """Random program with temporally annotated facts and rules. Predicate kinds:
    T1/T2 temporal unary/binary, P1/P2 plain. Every rule has at most one annotated body
    literal and its annotation variables are fresh (known finding N20: repeated / already
    bound annotation variables), dependencies run through temporal literals (finding F4),
    through operators, negation of lower plain predicates and plain joins."""
    kinds = {}
    clauses, init = [], []
    layers = []

    def new(kind):
        k = len(kinds)
        kinds[k] = kind
        return k

    def val():
        return dc.num(rng.randint(1, 4)) if rng.random() < 0.7 else dc.name(rng.choice(dc.NAMES))

    def iv():
        a = rng.randint(0, 20)
        b = a if rng.random() < 0.25 else a + rng.randint(1, 7)
        return [DAYS[a], DAYS[b]]
    edb = {"T1": [new("T1")], "T2": [new("T2")] if rng.random() < 0.6 else [], "P1": [new("P1")], "P2": [new("P2")]}
    if rng.random() < 0.4:
        edb["T1"].append(new("T1"))
    for kind, ps in edb.items():
        for p in ps:
            for _ in range(rng.randint(2, 5)):
                args = [val()] if kind in ("T1", "P1") else [val(), val()]
                init.append({"p": p, "args": args, "iv": iv() if kind[0] == "T" else None})
    avail = {k: list(v) for k, v in edb.items()}
    X, Y, Z, S, E, T = (dc.var(i) for i in range(1, 7))
    tS, tE, tT = ["tvar", 4], ["tvar", 5], ["tvar", 6]
    feats = set()
    for _ in range(rng.randint(3, 7)):
        kind = rng.choice(["T1", "T1", "T1", "T2", "P1", "P1", "P2"])
        h = new(kind)
        cl = []
        for _r in range(rng.choice([1, 1, 2])):
            c = None
            x = rng.random()
            if kind == "T1":
                if x < 0.3:
                    b = rng.choice(avail["T1"])
                    c = {"head": dc.atom(h, X), "ht": [tS, tE], "body": [["tatom", dc.atom(b, X), None, [tS, tE]]]}
                    feats.add("copy")
                elif x < 0.5:
                    b = rng.choice(avail["T1"])
                    c = {"head": dc.atom(h, X), "ht": [tT], "body": [["tatom", dc.atom(b, X), None, [tT]]]}
                    feats.add("point")
                elif x < 0.62 and avail["T2"]:
                    b = rng.choice(avail["T2"])
                    c = {"head": dc.atom(h, X), "ht": [tS, tE], "body": [["tatom", dc.atom(b, X, Y), None, [tS, tE]]]}
                    feats.add("project")
                elif x < 0.78:
                    b = rng.choice(avail["T1"])
                    g = rng.choice(avail["P1"])
                    c = {"head": dc.atom(h, X), "ht": [tS, tE],
                         "body": [["tatom", dc.atom(b, X), None, [tS, tE]], ["neg", dc.atom(g, X)]]}
                    feats.add("neg")
                elif x < 0.9:
                    b = rng.choice(avail["T1"])
                    c = {"head": dc.atom(h, X), "ht": [tS, tE],
                         "body": [["tatom", dc.atom(b, X), None, [tS, tE]],
                                  ["ineq", X, dc.cst(val())]]}
                    feats.add("ineq")
                else:
                    g = rng.choice(avail["P1"])
                    a = rng.randint(0, 20)
                    c = {"head": dc.atom(h, X), "ht": [["ts", DAYS[a]], ["ts", DAYS[a + rng.randint(0, 6)]]],
                         "body": [["atom", dc.atom(g, X)]]}
                    feats.add("const-head-time")
            elif kind == "T2":
                if x < 0.6 or not avail["T2"]:
                    b = rng.choice(avail["T1"])
                    e = rng.choice(avail["P2"])
                    body = [["tatom", dc.atom(b, X), None, [tS, tE]], ["atom", dc.atom(e, X, Y)]]
                    if rng.random() < 0.5:
                        body.reverse()
                    c = {"head": dc.atom(h, X, Y), "ht": [tS, tE], "body": body}
                    feats.add("join")
                else:
                    b = rng.choice(avail["T2"])
                    c = {"head": dc.atom(h, Y, X) if rng.random() < 0.5 else dc.atom(h, X, Y), "ht": [tS, tE],
                         "body": [["tatom", dc.atom(b, X, Y), None, [tS, tE]]]}
                    feats.add("copy")
            elif kind == "P1":
                if x < 0.55:
                    b = rng.choice(avail["T1"])
                    op = rng.choice(["dm", "dm", "bm", "dp", "bp"])
                    d1 = rng.choice(["0d", "1d", "2d"])
                    d2 = rng.choice(["7d", "30d", "60d", "400d"])
                    c = {"head": dc.atom(h, X), "body": [["tatom", dc.atom(b, X), [op, d1, d2], None]]}
                    feats.add("operator")
                elif x < 0.8:
                    e = rng.choice(avail["P2"])
                    g = rng.choice(avail["P1"])
                    body = [["atom", dc.atom(e, X, Y)], ["atom", dc.atom(g, Y)]]
                    if rng.random() < 0.4:
                        body.append(["neg", dc.atom(rng.choice(avail["P1"]), X)])
                        feats.add("neg")
                    c = {"head": dc.atom(h, X), "body": body}
                else:
                    b = rng.choice(avail["T1"])
                    c = {"head": dc.atom(h, X), "body": [["tatom", dc.atom(b, X), None, [tS, tE]]]}
                    feats.add("drop-time")
            else:
                e = rng.choice(avail["P2"])
                if x < 0.5:
                    c = {"head": dc.atom(h, X, Z), "body": [["atom", dc.atom(e, X, Y)], ["atom", dc.atom(e, Y, Z)]]}
                else:
                    cl.append({"head": dc.atom(h, X, Y), "body": [["atom", dc.atom(e, X, Y)]], "let": []})
                    c = {"head": dc.atom(h, X, Z), "body": [["atom", dc.atom(h, X, Y)], ["atom", dc.atom(e, Y, Z)]]}
                    feats.add("recursive")
            c.setdefault("let", [])
            cl.append(c)
        clauses += cl
        layers.append([h])
        avail[kind].append(h)
    rng.shuffle(clauses)
    rng.shuffle(init)
    return {"clauses": clauses, "layers": layers, "init": init, "pre": [], "features": sorted(feats) + ["temporal"],
            "temporal": True}



# ------------------------------------------------------------------ pre-filled stores (strengthened, round 3)
WRAPS = ["tee-over", "merged-over", "rerun"]


def gen_prefilled(rng):
    """The caller's store already holds facts before the evaluation: base facts in the
    store instead of the program text, among them facts of DERIVED predicates which the
    program derives again (or states again as initial facts), and on top aggregating rules
    with duplicate-sensitive reducers (fn:count, fn:sum over integers) whose single body atom
    is that re-derived predicate (the fast path reads the store's GetFacts rows directly), so
    that a store which keeps / delivers a fact twice changes the fact SET. Metamorphic only."""
    X, Y, Z = dc.var(1), dc.var(2), dc.var(3)
    ty = "N" if rng.random() < 0.6 else "A"

    def val():
        return dc.num(rng.randint(1, 6)) if ty == "N" else dc.name(rng.choice(dc.NAMES))
    e1, e2, d1, d2, e3 = 0, 1, 2, 3, 4
    facts = {e1: [], e2: []}
    seen = set()
    for _ in range(rng.randint(3, 6)):
        f = dc.fact(e1, val())
        if json.dumps(f) not in seen:
            seen.add(json.dumps(f))
            facts[e1].append(f)
    for _ in range(rng.randint(2, 6)):
        f = dc.fact(e2, val(), dc.num(rng.randint(1, 5)))
        if json.dumps(f) not in seen:
            seen.add(json.dumps(f))
            facts[e2].append(f)
    clauses = [{"head": dc.atom(d1, X), "body": [["atom", dc.atom(e1, X)]], "let": []}]
    if rng.random() < 0.4:
        clauses.append({"head": dc.atom(d1, X), "body": [["atom", dc.atom(e2, X, Y)]], "let": []})
    layers = [[d1]]
    deriv = {d1: [dc.fact(d1, f["args"][0]) for f in facts[e1]]}
    have_d2 = rng.random() < 0.7
    if have_d2:
        clauses.append({"head": dc.atom(d2, X, Y), "body": [["atom", dc.atom(e2, X, Y)]] +
                        ([["atom", dc.atom(d1, X)]] if rng.random() < 0.5 else []), "let": []})
        x = rng.random()
        if x < 0.3 and ty == "N":
            clauses.append({"head": dc.atom(d2, X, Z), "body": [["atom", dc.atom(d2, X, Y)], ["atom", dc.atom(e2, Y, Z)]],
                            "let": []})
        elif x < 0.6 and ty == "N":
            # TWO recursive clauses of one predicate which have to alternate (e2 step, e3 step, e2 step, ...)
            facts[e3] = [dc.fact(e3, dc.num(a), dc.num(a + 1)) for a in (2, 4)]
            for a in (1, 3, 5):
                f = dc.fact(e2, dc.num(a), dc.num(a + 1))
                if json.dumps(f) not in seen:
                    seen.add(json.dumps(f))
                    facts[e2].append(f)
            for e in (e2, e3):
                clauses.append({"head": dc.atom(d2, X, Z), "body": [["atom", dc.atom(d2, X, Y)], ["atom", dc.atom(e, Y, Z)]],
                                "let": []})
        layers.append([d2])
        deriv[d2] = [dc.fact(d2, *f["args"]) for f in facts[e2]]
    # aggregating top layer: single body atom = the re-derived predicate
    nextp = 5
    top = []
    N, S = 20, 21

    def agg(body, group, lets):
        nonlocal nextp
        head = dc.atom(nextp, *([dc.var(g) for g in group] + [dc.var(l[0]) for l in lets]))
        clauses.append({"head": head, "body": body, "let": [], "do": {"group": group, "lets": lets}})
        top.append(nextp)
        nextp += 1
    lets = [[N, "fn:count", []]]
    if ty == "N" and rng.random() < 0.6:
        lets.append([S, "fn:sum", [1]])
    agg([["atom", dc.atom(d1, X)]], [], lets)
    if have_d2:
        lets = [[N, "fn:count", []]] if rng.random() < 0.6 else []
        if not lets or rng.random() < 0.6:
            lets.append([S, rng.choice(["fn:sum", "fn:sum", "fn:max"]), [2]])
        agg([["atom", dc.atom(d2, X, Y)]], [1] if rng.random() < 0.7 else [], lets)
    if rng.random() < 0.4:
        # a two-premise body goes through an internal predicate first
        agg([["atom", dc.atom(d1, X)], ["atom", dc.atom(e1, X)]], [], [[N, "fn:count", []]])
    layers.append(top)
    # where the facts live
    init, pre = [], []
    mode = rng.choice(["all-pre", "all-pre", "split", "derived-only"])
    for p in sorted(facts):
        for f in facts[p]:
            (pre if mode == "all-pre" or (mode == "split" and rng.random() < 0.5) else init).append(f)
    for p, fs in deriv.items():
        fs = list(fs)
        rng.shuffle(fs)
        k = rng.randint(1, len(fs)) if fs else 0
        for f in fs[:k]:
            if json.dumps(f) not in seen:
                seen.add(json.dumps(f))
                pre.append(f)
                if rng.random() < 0.2:
                    init.append(f)          # stated again in the text as well
    if rng.random() < 0.5:
        f = dc.fact(d1, val())              # a fact of the derived predicate that may not be derivable
        if json.dumps(f) not in seen:
            seen.add(json.dumps(f))
            pre.append(f)
    rng.shuffle(pre)
    rng.shuffle(init)
    rng.shuffle(clauses)
    return {"clauses": clauses, "layers": layers, "init": init, "pre": pre, "features": ["aggregate", "prefilled"],
            "nomodel": True}


def pres_intext(prog):
    """Every fact of the caller's store written into the program text instead (empty store)."""
    q = dict(prog)
    seen = set(json.dumps(f) for f in prog["init"])
    q["init"] = prog["init"] + [f for f in prog["pre"] if json.dumps(f) not in seen]
    q["pre"] = []
    p = pres_base(q)
    p.kind = "intext"
    return p


# ------------------------------------------------------------------ one atom, many intervals (strengthened, round 3)
import datetime as _dt

NOW_DAY = 31                       # NOW = 2024-02-01 = day 31 counted from 2024-01-01


def day(k):
    return (_dt.date(2024, 1, 1) + _dt.timedelta(days=k)).isoformat()


def gen_intervals(rng, n):
    """n distinct intervals [lo, hi] in days (0..85), of one of the shapes disjoint / overlapping /
    nested / touching / random."""
    shape = rng.choice(["disjoint", "disjoint", "overlap", "nested", "touch", "random"])
    out = []
    if shape == "nested":
        lo, hi = rng.randint(0, 20), rng.randint(60, 85)
        for _ in range(n):
            out.append((lo, hi))
            lo += rng.randint(1, 4)
            hi -= rng.randint(1, 4)
    elif shape == "random":
        while len(out) < n:
            a = rng.randint(0, 80)
            iv = (a, a + rng.randint(0, 12))
            if iv not in out:
                out.append(iv)
    else:
        a = rng.randint(0, 12)
        for _ in range(n):
            ln = rng.randint(1, 6)
            out.append((a, a + ln))
            a += {"disjoint": ln + rng.randint(1, 8), "overlap": rng.randint(1, ln), "touch": ln}[shape]
    return shape, out


def gen_temporal_multi(rng):
    """ONE ground atom with 3..6 validity intervals (plus a second atom with 1..4), and for
    every stored interval at least one rule that asks for a concrete sub-interval / instant /
    operator window lying inside that interval: `h(X) :- on(X)@[c1, c2]`, `@[c]`,
    `<-[d1, d2] on(X)`, `<+[d1, d2] on(X)`, `[-`, `[+` (evaluation time fixed at 2024-02-01).
    The base text lists the intervals in ascending / descending / mixed start order; the
    presentations permute the base facts (all orders for three intervals). Metamorphic only."""
    X, S, E = dc.var(1), dc.var(4), dc.var(5)
    tS, tE = ["tvar", 4], ["tvar", 5]
    on, other = 0, 1
    atoms = [dc.name("/lamp") if rng.random() < 0.5 else dc.num(rng.randint(1, 4))]
    n = rng.choice([3, 3, 4, 5, 6])
    shape, ivs = gen_intervals(rng, n)
    order = rng.choice(["asc", "desc", "desc", "mixed"])
    ivs.sort()
    if order == "desc":
        ivs.reverse()
    elif order == "mixed":
        rng.shuffle(ivs)
    init = [{"p": on, "args": [atoms[0]], "iv": [day(a), day(b)]} for a, b in ivs]
    second = None
    if rng.random() < 0.6:
        second = dc.name("/fan") if atoms[0][0] != "name" or rng.random() < 0.5 else dc.num(7)
        _sh, iv2 = gen_intervals(rng, rng.randint(1, 4))
        if rng.random() < 0.5:
            iv2.sort(reverse=True)
        extra = [{"p": on, "args": [second], "iv": [day(a), day(b)]} for a, b in iv2]
        if rng.random() < 0.5:
            init += extra
        else:                       # interleaved
            for f in extra:
                init.insert(rng.randint(0, len(init)), f)
    init.append({"p": other, "args": [atoms[0]], "iv": None})
    clauses, layers = [], []
    nextp = 2
    feats = set(["multi-interval", "order-" + order, "shape-" + shape])

    def rule(head_args, body, ht=None):
        nonlocal nextp
        c = {"head": dc.atom(nextp, *head_args), "body": body, "let": []}
        if ht is not None:
            c["ht"] = ht
        clauses.append(c)
        layers.append([nextp])
        nextp += 1

    def probe(a, b):
        lo = rng.randint(a, b)
        hi = rng.randint(lo, b)
        forms = ["ann", "ann", "point"]
        if hi <= NOW_DAY:
            forms += ["dm", "dm", "bm"]
        if lo >= NOW_DAY:
            forms += ["dp", "dp", "bp"]
        f = rng.choice(forms)
        feats.add("probe-" + f)
        arg = X if rng.random() < 0.8 else dc.cst(atoms[0])
        hargs = [X] if arg is X else [dc.cst(atoms[0])]
        if f == "ann":
            body = [["tatom", dc.atom(on, arg), None, [["ts", day(lo)], ["ts", day(hi)]]]]
            if rng.random() < 0.3:
                body.append(["atom", dc.atom(other, arg)])
            rule(hargs, body, [["ts", day(lo)], ["ts", day(hi)]] if rng.random() < 0.3 else None)
        elif f == "point":
            rule(hargs, [["tatom", dc.atom(on, arg), None, [["ts", day(lo)]]]])
        elif f in ("dm", "bm"):
            rule(hargs, [["tatom", dc.atom(on, arg), [f, "%dd" % (NOW_DAY - hi), "%dd" % (NOW_DAY - lo)], None]])
        else:
            rule(hargs, [["tatom", dc.atom(on, arg), [f, "%dd" % (lo - NOW_DAY), "%dd" % (hi - NOW_DAY)], None]])
    for a, b in ivs:
        probe(a, b)
    for _ in range(rng.randint(0, 2)):
        a = rng.randint(0, 80)
        probe(a, a + rng.randint(0, 10))       # anywhere: may straddle, may miss
    if rng.random() < 0.5:
        rule([X], [["tatom", dc.atom(on, X), None, [tS, tE]]], [tS, tE])
        feats.add("copy")
    rng.shuffle(clauses)
    return {"clauses": clauses, "layers": layers, "init": init, "pre": [], "features": sorted(feats) + ["temporal"],
            "temporal": True, "main_atom": atoms[0]}


def presentations_factorder(prog, rng):
    """Presentations that differ in the ORDER OF THE BASE FACTS only (rules stay in place), then
    the usual renamed / packaged ones."""
    facts = prog["init"]
    main = [i for i, f in enumerate(facts) if f["p"] == 0 and f["args"][0] == prog["main_atom"]]

    def start(i):
        return facts[i]["iv"][0]
    orders = []
    if len(main) == 3:
        orders = [("order%d" % k, list(pm)) for k, pm in enumerate(itertools.permutations(main))]
    else:
        orders = [("asc", sorted(main, key=start)), ("desc", sorted(main, key=start, reverse=True))]
        for k in range(4):
            pm = main[:]
            rng.shuffle(pm)
            orders.append(("shuffle%d" % k, pm))
        # left-heavy runs: a descending block behind an ascending one
        asc = sorted(main, key=start)
        h = len(asc) // 2
        orders.append(("zigzag", asc[h:][::-1] + asc[:h][::-1]))
    ps = [pres_base(prog)]
    for kind, pm in orders:
        q = dict(prog)
        fs = list(facts)
        for slot, src in zip(main, pm):
            fs[slot] = facts[src]
        q["init"] = fs
        p = pres_base(q)
        p.kind = "facts-" + kind
        ps.append(p)
    ps += [pres_perm(prog, rng), pres_renamed(prog, rng), pres_pkg1(prog, rng)]
    return ps


# ------------------------------------------------------------------ Go side
def go_case(pres, stores, det, repeat, temporal):
    return {"units": pres.units, "pre": pres.pre, "stores": stores, "det": det, "repeat": repeat,
            "temporal": temporal, "now": NOW, "limit": LIMIT, "timeout_ms": 20000}


def iv_text(iv):
    return "@[%s]" % ", ".join("%s" % (b[1] if len(b) > 1 else b[0]) for b in iv)


def const_text_any(c):
    if c[0] == "other":
        return "<%s>" % c[1]
    if c[0] == "pair":
        return "fn:pair(%s, %s)" % (const_text_any(c[1]), const_text_any(c[2]))
    if c[0] == "list":
        return "[%s]" % ", ".join(const_text_any(x) for x in c[1])
    return dc.const_text(c)


def group_outcome(pres, g):
    """('ok', frozenset of printed facts, facts) | (class,) for errors."""
    if g["err"] == "":
        facts = []
        for f in g["facts"]:
            facts.append({"p": pres.unname(f["p"]), "args": f["args"], "iv": f.get("iv")})
        key = frozenset("%s(%s)%s" % (dc.pred_name(f["p"]), ", ".join(const_text_any(c) for c in f["args"]),
                                      iv_text(f["iv"]) if f["iv"] else "") for f in facts)
        return ("ok", key, facts)
    if g["err"] in ("limit", "timeout"):
        return ("inconclusive",)
    return (g["err"],)


def cq_const_any(c):
    try:
        return dc.cq_const(c)
    except (ValueError, KeyError, IndexError):
        return C("CStr", dc.cq_bytes("\x01" + json.dumps(c)))


def cq_fact_any(f):
    """Facts of any shape (temporal interval as two extra columns) for the observer."""
    args = [cq_const_any(c) for c in f["args"]]
    for b in f.get("iv") or []:
        args.append(C("CNum", b[1]) if b[0] == "ts" else C("CName", dc.cq_bytes("/" + b[0])))
    return (f["p"], args)


def cq_obs(outcome, rename=None):
    if outcome[0] == "ok":
        fs = outcome[2]
        if rename is not None:
            fs = [{"p": rename[f["p"]], "args": f["args"]} for f in fs]
        return C("OFacts", [dc.cq_fact(f) for f in fs])
    if outcome[0] == "inconclusive":
        return Raw("OLimit")
    return Raw("OEvalErr")


def cq_case(prog, obs, fuel=FUEL):
    return C("mkCase", dc.cq_program(prog), dc.cq_layers(prog),
             [dc.cq_fact(f) for f in prog.get("pre", [])],
             [dc.cq_fact(f) for f in prog.get("init", [])], fuel, obs)


# ------------------------------------------------------------------ exhaustive block
def exhaustive_presentations():
    """Every line order x every assignment of four predicate names of two 4-line programs:
    the temporal chain of finding F4 and the same-round join of finding F1 (24 x 24 each)."""
    names = ["a", "b", "c", "d"]
    out = []
    for perm in itertools.permutations(range(4)):
        for nm in itertools.permutations(names):
            chain = ["%s(1)@[2024-01-01, 2024-01-02]." % nm[0],
                     "%s(X)@[T] :- %s(X)@[T]." % (nm[1], nm[0]),
                     "%s(X)@[T] :- %s(X)@[T]." % (nm[2], nm[1]),
                     "%s(X)@[T] :- %s(X)@[T]." % (nm[3], nm[2])]
            un = {nm[i]: i for i in range(4)}
            out.append(("chain", Pres("exh-chain", ["\n".join(chain[i] for i in perm) + "\n"], "",
                                      (lambda s, un=un: un[s])), True))
            # base(1). next(1,2). p:-base. a:-p. b:-p. p(Y):-a,b,next  with p,a,b + base named by nm
            f1 = ["%s(1). nxt(1,2)." % nm[0],
                  "%s(X) :- %s(X)." % (nm[1], nm[0]),
                  "%s(X) :- %s(X). %s(X) :- %s(X)." % (nm[2], nm[1], nm[3], nm[1]),
                  "%s(Y) :- %s(X), %s(X), nxt(X,Y)." % (nm[1], nm[2], nm[3])]
            un2 = dict(un)
            un2["nxt"] = 9
            out.append(("f1", Pres("exh-f1", ["\n".join(f1[i] for i in perm) + "\n"], "",
                                   (lambda s, un2=un2: un2[s])), False))
    return out


# ------------------------------------------------------------------ the check
def run_go_parallel(ck, cases, procs=8):
    """The harness is single-threaded: run contiguous chunks of the case list in parallel."""
    if len(cases) < 64:
        return ck.run_go("c05", cases, timeout=6000)
    from concurrent.futures import ThreadPoolExecutor
    n = (len(cases) + procs - 1) // procs
    chunks = [cases[i:i + n] for i in range(0, len(cases), n)]
    with ThreadPoolExecutor(max_workers=procs) as ex:
        res = list(ex.map(lambda ch: ck.run_go("c05", ch, timeout=6000), chunks))
    return [o for r in res for o in r]


def load_corpus():
    here = os.path.dirname(os.path.abspath(__file__))
    out = []
    for path in sorted(glob.glob(os.path.join(here, "..", "corpus", "C05", "*.json"))):
        out.append((os.path.basename(path), json.load(open(path))))
    return out


def text_entry_presentations(entry):
    """Corpus entry of kind 'text': explicit presentations {"units", "pre", "strip": [prefixes], "names": {printed: id}}."""
    ps = []
    for i, v in enumerate(entry["variants"]):
        names = v["names"]
        strip = v.get("strip", [])

        def un(s, names=names, strip=strip):
            for p in strip:
                if s.startswith(p):
                    s = s[len(p):]
                    break
            return names[s]
        ps.append(Pres(v.get("kind", "text%d" % i), v["units"], v.get("pre", ""), un))
    return ps


def run(ck):
    ck.obligations()
    ck.build_harness()
    rng = ck.rng
    items = []            # dicts: origin, prog (or None), temporal, pres list, expect_count
    for name, entry in load_corpus():
        if entry.get("kind") == "text":
            items.append({"origin": "corpus:" + name, "prog": None, "temporal": entry.get("temporal", False),
                          "pres": text_entry_presentations(entry), "expect_count": entry.get("expect_count"),
                          "repeat": entry.get("repeat", 50), "features": ["corpus"],
                          "wraps": entry.get("extra_stores")})
        else:
            prog = entry["program"]
            items.append({"origin": "corpus:" + name, "prog": prog, "temporal": bool(prog.get("temporal")),
                          "pres": presentations(prog, rng, bool(prog.get("temporal"))), "repeat": 8,
                          "features": prog.get("features", []) + ["corpus"]})
    ncorpus = len(items)
    nplain = ck.n(20, 400)
    ntemp = ck.n(28, 450)
    for _ in range(nplain):
        prog = dc.gen_program(rng, big=(not ck.quick) and rng.random() < 0.4)
        items.append({"origin": "random", "prog": prog, "temporal": False, "pres": presentations(prog, rng),
                      "features": prog["features"]})
    for _ in range(ntemp):
        prog = gen_temporal(rng)
        items.append({"origin": "random-temporal", "prog": prog, "temporal": True,
                      "pres": presentations(prog, rng, True), "features": prog["features"]})
    nagg = ck.n(8, 150)
    for _ in range(nagg):
        prog = gen_aggregating(rng)
        k1, k2 = rng.choice(ALL_STORES), rng.choice(ALL_STORES)
        items.append({"origin": "random-aggregate", "prog": prog, "temporal": False, "pres": presentations(prog, rng),
                      "features": prog["features"], "extra_base_stores": ["tee-over:" + k1, "merged-over:" + k2]})
    # ---- round 3: the caller's store is not empty (facts the program re-derives, aggregated)
    npre = ck.n(10, 150)
    for _ in range(npre):
        prog = gen_prefilled(rng)
        ps = presentations(prog, rng)
        ps.insert(1, pres_intext(prog))
        plans = []
        for j in range(len(ps)):
            if j == 0:
                ks = rng.sample(ALL_STORES, 3)
                st = ALL_STORES + [w + ":" + k for w, k in zip(WRAPS, ks)] + ["tee-over:teeing", "merged-over:merged"]
                if not ck.quick:
                    st += [w + ":" + k for w in WRAPS for k in rng.sample(ALL_STORES, 2)]
                plans.append((st, [rng.random() < 0.5] if ck.quick else [False, True], 1 if ck.quick else 2))
            elif j == 1:
                plans.append((["simple", rng.choice(ALL_STORES)], [rng.random() < 0.5], 1))
            else:
                plans.append(([rng.choice(ALL_STORES), rng.choice(WRAPS) + ":" + rng.choice(ALL_STORES)],
                              [rng.random() < 0.5], 2))
        items.append({"origin": "random-prefilled", "prog": prog, "temporal": False, "pres": ps, "plans": plans,
                      "features": prog["features"]})
    # ---- round 3: one atom with many intervals, base facts in every order, concrete sub-interval queries
    nmulti = ck.n(16, 250)
    for _ in range(nmulti):
        prog = gen_temporal_multi(rng)
        ps = presentations_factorder(prog, rng)
        plans = [((["simple", rng.choice(ALL_STORES[1:])], [False, True], 1) if j == 0 else
                  ([rng.choice(ALL_STORES)], [rng.random() < 0.5], 1 if ck.quick else 2)) for j in range(len(ps))]
        items.append({"origin": "random-temporal-multi", "prog": prog, "temporal": True, "pres": ps, "plans": plans,
                      "features": prog["features"]})
    nexh = 0
    if not ck.quick:
        fams = {}
        for fam, pres, temporal in exhaustive_presentations():
            fams.setdefault(fam, (temporal, []))[1].append(pres)
            nexh += 1
        for fam, (temporal, plist) in sorted(fams.items()):
            # one item per family: all 576 presentations are compared with each other
            items.append({"origin": "exhaustive:" + fam, "prog": None, "temporal": temporal, "pres": plist,
                          "expect_count": 4 if fam == "chain" else 8, "repeat": 2, "features": ["exhaustive"],
                          "family": fam})
    coqchk = None
    if not ck.quick and not ck.proof_broken:
        import subprocess
        from vlib.core import COQ
        p = subprocess.run(["coqchk", "-silent", "-o", "-Q", ".", "MV", "MV.Props.C05"], cwd=COQ,
                           stdout=subprocess.PIPE, stderr=subprocess.STDOUT, text=True, timeout=3000)
        coqchk = "ok, Axioms: <none>" if p.returncode == 0 and "Axioms: <none>" in p.stdout else "FAILED"
        if coqchk == "FAILED":
            ck.proof_broken = "coqchk -o MV.Props.C05 failed:\n" + p.stdout[-2000:]
        ck.log("coqchk: " + coqchk)

    # ---- Go cases: one per presentation
    go_cases, owner = [], []
    for i, it in enumerate(items):
        for j, pres in enumerate(it["pres"]):
            if "plans" in it:
                stores, det, rep = it["plans"][j]
            elif "repeat" in it:
                stores = ["simple", rng.choice(ALL_STORES[1:])] if it["origin"].startswith("corpus") else ["simple"]
                if it.get("wraps") and j == 0:
                    stores = stores + it["wraps"]
                det, rep = [False, True], max(1, it["repeat"] // (2 * len(stores)) + 1)
                if it["origin"].startswith("exhaustive"):
                    det, rep = [False, True], 1
            elif ck.quick:
                # 5 runs of every presentation: the base on three store kinds
                stores = ["simple"] + rng.sample(ALL_STORES[1:], 2) if j == 0 else [rng.choice(ALL_STORES)]
                det = [False, True] if j == 0 else [rng.random() < 0.5]
                rep = 1 if j == 0 else 5
                if j == 0:
                    rep = 1
            else:
                # thorough: base 7 kinds x 2 x 4 = 56 runs, every other presentation 2 kinds x 2 x 2
                stores = ALL_STORES if j == 0 else rng.sample(ALL_STORES, 2)
                det = [False, True]
                rep = 4 if j == 0 else 2
            if j == 0 and it["origin"].startswith("random") and "plans" not in it:
                # round 3: re-running on the same store; for aggregating programs a second evaluation on a
                # TeeingStore / MergedStore stacked over the store that already holds every result
                stores = list(stores) + it.get("extra_base_stores", []) + ["rerun:" + rng.choice(ALL_STORES)]
            go_cases.append(go_case(pres, stores, det, rep, it["temporal"]))
            owner.append((i, j))
    outs = run_go_parallel(ck, go_cases)
    ck.log("go side done: %d programs, %d presentations" % (len(items), len(go_cases)))

    # ---- compare the presentations of every program
    per_item = [[] for _ in items]          # (pres index, group, outcome)
    evaluations = 0
    rejected = {}
    for (i, j), o, gc in zip(owner, outs, go_cases):
        it = items[i]
        if "out" not in o:
            if len(ck.violations) < 5:
                ck.violation({"property": "C05", "kind": "harness error/panic", "origin": it["origin"],
                              "units": gc["units"], "impl": o})
            continue
        evaluations += o["out"]["runs"]
        for g in o["out"]["groups"]:
            try:
                per_item[i].append((j, g, group_outcome(it["pres"][j], g)))
            except (ValueError, KeyError) as e:
                per_item[i].append((j, g, ("unmapped:%s" % e,)))
    terms, twhere = [], []
    disagreements = 0
    by_origin = {}
    outcome_classes = {}
    pres_kinds = {}
    sizes = []
    f4_runs = 0
    for i, it in enumerate(items):
        obs = per_item[i]
        for j, g, oc in obs:
            outcome_classes[oc[0]] = outcome_classes.get(oc[0], 0) + g["n"]
            pres_kinds[it["pres"][j].kind] = pres_kinds.get(it["pres"][j].kind, 0) + g["n"]
            if oc[0] == "ok":
                sizes.append(len(oc[1]))
        concl = [(j, g, oc) for j, g, oc in obs if oc[0] != "inconclusive"]
        if not concl:
            continue
        ref = concl[0]
        if all(oc[0] in ("parse", "analysis") for _, _, oc in concl):
            rejected[i] = concl[0][1].get("msg", "")
            continue
        bad = None
        for x in concl[1:]:
            same = (x[2][0] == ref[2][0]) and (x[2][0] != "ok" or x[2][1] == ref[2][1])
            if not same:
                bad = x
                break
        if bad is None and it.get("expect_count") is not None and ref[2][0] == "ok":
            if it["origin"].startswith("corpus:f4"):
                f4_runs += sum(g["n"] for _, g, _ in concl)
            if len(ref[2][1]) != it["expect_count"]:
                bad = ref          # every run agrees but facts are missing: still report (regression of a fixed defect)
        if bad is not None:
            disagreements += 1
            okey = it["origin"].split(":")[0]
            by_origin[okey] = by_origin.get(okey, 0) + 1
            if len(ck.violations) < 5:
                pa, pb = it["pres"][ref[0]], it["pres"][bad[0]]

                def side(p, x):
                    return {"presentation": p.kind, "units": p.units, "pre": p.pre, "configs": x[1]["configs"],
                            "runs": x[1]["n"], "outcome": x[2][0], "msg": x[1].get("msg"),
                            "facts": sorted(x[2][1]) if x[2][0] == "ok" else None}
                rep = {"property": "C05", "origin": it["origin"], "temporal": it["temporal"],
                       "kind": "two runs / presentations of one program give different results"
                               if bad is not ref else "all runs agree but the expected number of facts is not reached",
                       "expect_count": it.get("expect_count"), "program": it["prog"],
                       "a": side(pa, ref), "b": side(pb, bad)}
                if ref[2][0] == "ok" and bad[2][0] == "ok":
                    rep["only_in_a"] = sorted(ref[2][1] - bad[2][1])
                    rep["only_in_b"] = sorted(bad[2][1] - ref[2][1])
                    v = ck.run_coq("C05", "judge", [coq(C("CSame", [cq_fact_any(f) for f in ref[2][2]],
                                                          [cq_fact_any(f) for f in bad[2][2]]))], tag="same")[0]
                    rep["verified_observer"] = "same_set = %s" % ("false (sets differ)" if v == 2 else "true")
                rep["why_violation"] = ("decided on the implementation's own outputs: the same program, written/run in two "
                                        "ways the property declares irrelevant, produced different canonical fact sets")
                ck.violation(rep)
            continue
        # model comparisons (plain programs in the modelled fragment)
        if it["prog"] is not None and not it["temporal"] and not it["prog"].get("nomodel"):
            base = [x for x in obs if x[0] == 0]
            ren = [x for x in obs if it["pres"][x[0]].kind == "renamed"]
            try:
                if base:
                    terms.append(coq(C("CBase", cq_case(it["prog"], cq_obs(base[0][2])))))
                    twhere.append((i, "base"))
                if ren:
                    pr = it["pres"][ren[0][0]]
                    terms.append(coq(C("CVariant", cq_case(it["prog"], cq_obs(ren[0][2], rename=pr.pmap)),
                                       sorted(pr.pmap.items()), [sorted(m.items()) for m in pr.vmaps])))
                    twhere.append((i, "renamed"))
            except ValueError as e:
                ck.violation({"property": "C05", "kind": "Go produced a value outside the modelled fragment: %s" % e,
                              "program": it["prog"], "units": it["pres"][0].units})
        # the verified observer on one pair of presentations per program
        oks = [x for x in concl if x[2][0] == "ok"]
        if len(oks) >= 2 and (it["origin"].startswith("corpus") or
                              (it["origin"].startswith("random") and rng.random() < (0.6 if it["temporal"] else 0.3))):
            a, b = oks[0], rng.choice(oks[1:])
            terms.append(coq(C("CSame", [cq_fact_any(f) for f in a[2][2]], [cq_fact_any(f) for f in b[2][2]])))
            twhere.append((i, "same"))
    verdicts = ck.run_coq("C05", "judge", terms, shard=max(10, len(terms) // 16 + 1))
    ck.log("model side done: %d terms" % len(terms))
    if by_origin:
        ck.log("programs with disagreeing runs / presentations, by origin: %s" % json.dumps(by_origin, sort_keys=True))
    vc = {}
    for (i, what), v in zip(twhere, verdicts):
        vc["%s:%d" % (what, v)] = vc.get("%s:%d" % (what, v), 0) + 1
        if v == 0 or v in (4, 5, 14, 15):
            continue
        it = items[i]
        if len(ck.violations) >= 5:
            continue
        if what == "same":
            ck.violation({"property": "C05", "kind": "verified observer same_set rejects two outputs the string comparison accepted",
                          "origin": it["origin"], "units": it["pres"][0].units,
                          "no_longer_checks": "Run.C05.judge CSame vs python canonical form"}, "no-failing-input-found")
            continue
        # all presentations agree with each other but not with the model: C01's concern;
        # the property C05 itself held on this input
        coll = None
        base = [x for x in per_item[i] if x[0] == 0 and x[2][0] == "ok"]
        if base:
            coll = dc.f8_collisions([{"p": f["p"], "args": f["args"]} for f in base[0][2][2]])
        if coll:
            ck.known("F8 a generated program produced two facts with equal Atom.Hash(): %s / %s" % coll[0])
            continue
        ck.violation({"property": "C05", "kind": "all presentations agree with each other but differ from the Coq model (%s, verdict %d)" % (what, v),
                      "origin": it["origin"], "program": it["prog"], "units": it["pres"][0].units,
                      "go": sorted(base[0][2][1]) if base else None,
                      "no_longer_checks": "correspondence Run.C05.judge (%s); the defect, if any, belongs to C01" % what},
                     "no-failing-input-found")

    # ---- known finding N9 probe (map constants with duplicate keys)
    probe = ck.run_go("c05", [{"units": ["p([/a: 1, /a: 2]).\nq(X) :- p(X).\n"], "repeat": 50, "stores": ["simple"],
                               "det": [False], "limit": 0, "timeout_ms": 5000}])[0]
    if "out" in probe and len(probe["out"]["groups"]) > 1:
        ck.known("N9 a map constant with a duplicate key is stored with its entries in Go map order: "
                 "50 runs of p([/a: 1, /a: 2]) gave %d different fact sets" % len(probe["out"]["groups"]))

    nrej = len(rejected)
    nreal = sum(1 for it in items if it["origin"].startswith("random"))
    feats = {}
    for it in items:
        for f in it.get("features", []):
            feats[f] = feats.get(f, 0) + 1
    nontrivial = set()
    for i, it in enumerate(items):
        if i in rejected:
            continue
        if set(it.get("features", [])) & {"recursive", "neg", "cmp", "same-round", "temporal", "corpus", "exhaustive",
                                            "operator", "join", "aggregate"}:
            nontrivial.add(json.dumps(it["pres"][0].units))
    cov = {"evaluations": evaluations, "programs": len(items), "presentations": len(go_cases),
           "distinct_nontrivial": len(nontrivial),
           "rule": "evaluations = engine runs (parse + Analyze + EvalProgram each); a program counts once per distinct base "
                   "text; non-trivial = recursion, negation, comparison, same-round join, temporal annotation or operator "
                   "present (corpus %d, random plain %d, random temporal %d, random aggregating %d, pre-filled store + aggregation %d, "
                   "one atom with 3-6 intervals in every base-fact order %d, exhaustive %d)" % (ncorpus, nplain, ntemp, nagg, npre, nmulti, nexh),
           "exhaustive": nexh > 0,
           "exhaustive_scope": ("all 24 line orders x all 24 assignments of the predicate names a,b,c,d for the 4-line temporal "
                                "chain (F4 shape) and for the same-round join program (F1 shape), each plain and "
                                "WithDeterministicOrder" if nexh else ""),
           "runs_per_presentation_kind": pres_kinds, "outcomes": outcome_classes, "features": feats,
           "rejected_by_analysis": nrej, "disagreements": disagreements, "disagreements_by_origin": by_origin, "model_verdicts": vc,
           "f4_witness_runs_all_4_facts": f4_runs,
           "facts_per_result": {"max": max(sizes or [0]), "mean": round(sum(sizes) / max(1, len(sizes)), 1)},
           "coqchk": coqchk,
           "samples": [items[min(len(items) - 1, ncorpus)]["pres"][0].units[0],
                       items[min(len(items) - 1, ncorpus)]["pres"][2].units[0] if len(items[min(len(items) - 1, ncorpus)]["pres"]) > 2 else "",
                       items[min(len(items) - 1, ncorpus + nplain)]["pres"][0].units[0]]}
    if rejected:
        cov["rejected_samples"] = [(items[i]["pres"][0].units, m) for i, m in list(rejected.items())[:3]]
    if nrej > 0.1 * max(1, nreal + ncorpus):
        ck.violation({"property": "C05", "kind": "generator: more than 10% of the generated programs rejected by analysis",
                      "no_longer_checks": "metamorphic search (input distribution broken)",
                      "samples": cov["rejected_samples"]}, "no-failing-input-found")
    return ck.finish(cov, assumptions=[
        "theorems are about the hand-written model of C01 (coq/Datalog/*.v) and its specification; the model is tied to the "
        "engine by differential evaluation (base and renamed presentation of every plain program)",
        "the model results are about finished evaluations; invariance of errors / non-termination is tested only (error class)",
        "temporal programs have no Coq model here (C13/C14): for them only the metamorphic comparison on Go's outputs applies",
        "map-iteration orders are sampled by repetition (5 runs per presentation quick, 56 on the base thorough), not enumerated",
        "base-fact orders of a multi-interval atom: all 6 for three intervals, ascending / descending / zig-zag / 4 random for more; "
        "pre-filled and stacked stores are exercised on generated programs with count / sum / max over integers only",
        "excluded by construction: fn:collect order, float sums, fn:pick_any (documented order-sensitive reducers), "
        "map/struct constants with duplicate keys (known finding N9), hash-equal atoms (F8), unsafe clauses (C04)"])


def replay(ck, path):
    ck.build_harness()
    rep = json.load(open(path))
    if "a" not in rep or "b" not in rep:
        print("replay: not a two-presentation replay (kind: %s)" % rep.get("kind"))
        print("VIOLATION property=C05 replay=%s" % path)
        return 1
    temporal = rep.get("temporal", False)
    cases = []
    for side in ("a", "b"):
        s = rep[side]
        cases.append({"units": s["units"], "pre": s.get("pre", ""),
                      "stores": ALL_STORES + [w + ":" + k for w in WRAPS for k in ("simple", "teeing")], "det": [False, True], "repeat": 4,
                      "temporal": temporal, "now": NOW, "limit": LIMIT, "timeout_ms": 20000})
    outs = ck.run_go("c05", cases)
    bad = False
    counts = []
    for side, o in zip(("a", "b"), outs):
        if "out" not in o:
            print("replay: %s: harness failure %s" % (side, json.dumps(o)[:300]))
            bad = True
            continue
        gs = o["out"]["groups"]
        print("replay: presentation %s (%s): %d runs, %d distinct outcome(s): %s"
              % (side, rep[side]["presentation"], o["out"]["runs"], len(gs),
                 ", ".join("%s x%d (%d facts)" % (g["err"] or "ok", g["n"], len(g["facts"])) for g in gs)))
        bad = bad or len(gs) > 1
        counts.append(sorted((g["err"], len(g["facts"])) for g in gs))
    if len(counts) == 2 and counts[0] != counts[1]:
        bad = True
    if rep.get("expect_count") is not None and counts and any(n != rep["expect_count"] for c in counts for _, n in c):
        bad = True
    if bad:
        print("VIOLATION property=C05 replay=%s" % path)
        return 1
    print("replay: both presentations give one and the same outcome now")
    return 0


META = {
    "text": "Machine-checked theorems (coq/Props/C05.v) over the Datalog model shared with C01: the least model and the "
            "stratified model depend on clause list and base facts through membership only (any permutation, any split of the "
            "facts between program text and store), every rule order and delta-rule order of a round gives the same set, two "
            "valid stratifications of one program give the same model (so two finished runs of the engine model on two "
            "presentations hold the same facts), an injective predicate renaming (hence a package prefix) and a per-clause "
            "injective variable renaming commute with the model. On the implementation a metamorphic search: generated "
            "programs (plain Datalog with recursion, negation, arithmetic, structures, let; and temporally annotated programs "
            "with interval variables, operators, negation; one atom with 3-6 validity intervals queried by concrete "
            "sub-intervals, instants and operator windows, its base facts in every order) are written as base / permuted / renamed / packaged / "
            "two-unit / two-package texts and each is parsed, analysed and evaluated repeatedly on seven store kinds with "
            "and without deterministic order, also with a caller's store that already holds base facts and facts the program "
            "derives again (pre-filled store of every kind, TeeingStore / MergedStore stacked over the store of a first "
            "evaluation, re-running on the same store) under count / sum aggregation of the re-derived predicates; all "
            "canonical fact sets must coincide (verified set-equality observer), the "
            "base and the renamed text are also compared with the Coq model.",
    "note": "Map-iteration orders are sampled by repetition, not enumerated; temporal programs are compared metamorphically "
            "only (no model); errors and non-termination are compared by class. Excluded: documented order-sensitive "
            "reducers (fn:collect list order, float sums, fn:pick_any), duplicate map keys (N9), hash-equal atoms (F8). "
            "A store that delivers a fact twice is seen only through its effect on the fact set (count / sum rules); "
            "the duplicate row itself is C06's observable.",
}
