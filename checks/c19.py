"""C19 - a saved fact store reloads to the same set of facts.

Theorems: coq/Props/C19.v about the model coq/Serde/SimpleColumn.v.
Correspondence: generated stores are written by the real factstore.SimpleColumn
(plain / gzip / zstd, deterministic or not, from an order-controlled source, from
the in-memory stores and from a lazily opened file), read back by ReadInto and by
the lazy SimpleColumnStore under every query pattern; the property verdict is
decided on Go's own output (set read back == set written, deterministic bytes
equal), the Coq model is compared on bytes, Add sequence, header and answers.
A size stream (thousands of facts x every zstd / gzip writer level; constants printing
to 4-60 KB before / between / after other predicates) is judged by the Go-side oracle
alone (set read back == set written), without a Coq term.
"""
import glob
import itertools
import json
import os

from vlib.core import C, Raw, coq, known_for
from checks import term_common as T

HERE = os.path.dirname(os.path.abspath(__file__))
CORPUS = os.path.join(HERE, "..", "corpus", "C19")


# ------------------------------------------------------------------ encoding
def hx(b):
    b = bytes(b)
    if len(b) <= 40:
        return Raw("(hx %d 0x%s)" % (len(b), b.hex() or "0"))
    return Raw("(hxs [%s])" % "; ".join("(%d, 0x%s)" % (len(b[i:i + 32]), b[i:i + 32].hex()) for i in range(0, len(b), 32)))


def cq_gfacts(fs):
    return [(hx(bytes.fromhex(f["sym"])), f["arity"], list(f["args"])) for f in fs]


def cq_case(case, out):
    prints = [hx(bytes.fromhex(p)) for p in out["prints"]]
    store = [(hx(bytes.fromhex(p["sym"])), p["arity"], [list(r) for r in p["rows"]]) for p in case["preds"]]
    hashes = [[Raw(hex(int(h))) for h in hs] for hs in out["atom_hash"]]     # hex numerals are read much faster
    astr = [[hx(bytes.fromhex(s)) for s in ss] for ss in out["atom_str"]] if case["det"] else []
    read = None if out.get("read_err") else C("Some", cq_gfacts(out["read_seq"]))
    lz = out["lazy"]
    lhdr = None if lz.get("err") else C("Some", [(hx(bytes.fromhex(p["sym"])), p["arity"], p["args"][0]) for p in lz["preds"]])
    queries = []
    if not lz.get("err"):
        for q, res, err in zip(case["queries"], lz["results"], lz["qerr"]):
            pat = (hx(bytes.fromhex(q["sym"])), q["arity"], [None if a < 0 else C("Some", a) for a in q["args"]])
            queries.append((pat, None if err else C("Some", cq_gfacts(res))))
    return coq(C("Case", prints, store, hashes, astr, bool(case["det"]), hx(bytes.fromhex(out["bytes"])),
                 read, lhdr, queries))


# ---------------------------------------------------------------- generators
def first_minus(t):
    """N18 trigger: some list / map / struct inside t whose first printed element starts with '-'."""
    k = t[0]
    if k in T.SCALARS:
        return False
    if k == "pair":
        return first_minus(t[1]) or first_minus(t[2])

    def neg(x):
        if x[0] == "num":
            return x[1] < 0
        if x[0] == "f64":
            return x[1] >> 63 == 1
        return False
    if k == "list":
        return (bool(t[1]) and neg(t[1][0])) or any(first_minus(x) for x in t[1])
    # maps are ordered by key hash: any negative key may come first
    return any(neg(a) for a, _ in t[1]) or any(first_minus(a) or first_minus(b) for a, b in t[1])


def leaves(t):
    k = t[0]
    if k in T.SCALARS:
        yield t
    elif k == "pair":
        yield from leaves(t[1])
        yield from leaves(t[2])
    elif k == "list":
        for x in t[1]:
            yield from leaves(x)
    else:
        for a, b in t[1]:
            yield from leaves(a)
            yield from leaves(b)


def float_integral(bits):
    import struct
    x = struct.unpack("<d", struct.pack("<Q", bits))[0]
    return x == x and abs(x) != float("inf") and x == int(x)


# control characters the string printer writes raw; which of them survive the
# parser is the subject of C09 (F5: CR). The main stream keeps to the ones that do.
def admissible(t, env):
    if not T.valid(t) or T.dup_keys(t) or first_minus(t):
        return False
    for k, v in leaves(t):
        if k == "f64" and not env["float_integral_has_point"] and float_integral(v):
            return False                                            # F6 not repaired in this tree
        if k == "str" and (b"\r" in v) and not env["cr_escaped"]:
            return False                                            # F5
        if k == "str" and any(c < 0x20 and c not in (0x0A, 0x09, 0x0D) for c in v):
            return False                                            # raw control characters: C09
        if k == "str" and (0x7F in v):
            return False
        if k == "time" and v % 10 ** 9 != 0 and not env["time_subsecond_ok"]:
            return False                                            # N14
        if k == "name" and len(v) > 200:
            return False
    return True


NAME_PCT = [b"/a%41b", b"/%", b"/%25", b"/a%2Bb", b"/%zz", b"/x%", b"/%41", b"/a.b-c_d~e%f", b"/n/%/m", b"/%2", b"/a%%b",
            b"/A", b"/aAb", b"/a/b/c", b"/0", b"/-", b"/~", b"/.", b"/_"]
STRINGS = [b"", b"/x", b"/a%41b", b"%41", b"a+b", b"+", b"\n", b"\t", b"a\nb", b'"', b"'", b"\\", b"\\n", b"a b", b" ", b"`",
           "é".encode(), "\U0001F624".encode(), " ".encode(), b"[-1]", b"1", b"1 2 3", b"p 1 2", b"\n/bar", b"#", b"a,b"]


def gen_pool(rng, env, n):
    pool, seen = [], set()
    tries = 0
    while len(pool) < n and tries < 400:
        tries += 1
        r = rng.random()
        if r < 0.18:
            t = ("name", rng.choice(NAME_PCT))
        elif r < 0.3:
            t = ("str", rng.choice(STRINGS))
        elif r < 0.4 and pool:
            t = T.mutate(rng, rng.choice(pool))
        elif r < 0.7:
            t = T.gen_scalar(rng, 0.0)
        else:
            t = T.gen_const(rng, rng.choice([1, 2, 3]), 0.0)
        if not admissible(t, env):
            continue
        c = T.canon(t)
        if c in seen:
            continue
        seen.add(c)
        pool.append(t)
    return pool


def gen_store(rng, env, big=False):
    pool = gen_pool(rng, env, rng.choice([3, 6, 10, 16] + ([30] if big else [])))
    npred = rng.choice([1, 2, 3, 4, 5, 6, 8] + ([14] if big else []))
    preds, seen = [], set()
    syms = [T.gen_pred(rng) for _ in range(max(1, npred // 2))]
    for _ in range(npred):
        sym = rng.choice(syms) if rng.random() < 0.5 else T.gen_pred(rng)
        ar = rng.choice([0, 0, 1, 1, 1, 2, 2, 3, 4] + ([7] if big else []))
        if (sym, ar) in seen:
            continue
        seen.add((sym, ar))
        if ar == 0:
            rows = [[]] if rng.random() < 0.6 else []
        else:
            nrows = rng.choice([0, 1, 1, 2, 3, 4, 6] + ([15] if big else []))
            rows, hs, rs = [], set(), set()
            narrow = pool[:max(1, rng.choice([1, 2, len(pool)]))]
            for _ in range(nrows):
                r = [rng.randrange(len(narrow)) for _ in range(ar)]
                h = T.atom_hash(sym, [narrow[i] for i in r])
                if tuple(r) in rs or h in hs:      # F8: no two atoms with equal Atom.Hash() under one predicate
                    continue
                rs.add(tuple(r))
                hs.add(h)
                rows.append(r)
        preds.append({"sym": sym.hex(), "arity": ar, "rows": rows})
    return pool, preds


def reorder(rng, preds):
    b = [dict(p, rows=rng.sample(p["rows"], len(p["rows"]))) for p in preds]
    rng.shuffle(b)
    return b


def gen_queries(rng, pool, preds, limit=14):
    qs = []
    for p in preds:
        ar = p["arity"]
        masks = list(itertools.product([False, True], repeat=ar)) if ar <= 3 else \
            [tuple(rng.random() < 0.5 for _ in range(ar)) for _ in range(4)]
        rng.shuffle(masks)
        for m in masks[:rng.choice([2, 4, 8])]:
            base = rng.choice(p["rows"]) if p["rows"] and rng.random() < 0.8 else [rng.randrange(len(pool)) for _ in range(ar)]
            if rng.random() < 0.3 and ar > 0:
                base = list(base)
                base[rng.randrange(ar)] = rng.randrange(len(pool))
            qs.append({"sym": p["sym"], "arity": ar, "args": [base[i] if m[i] else -1 for i in range(ar)]})
    rng.shuffle(qs)
    qs = qs[:limit]
    p = rng.choice(preds)
    ar = rng.choice([0, 1, 2, 5])
    if not any(x["sym"] == p["sym"] and x["arity"] == ar for x in preds):
        qs.append({"sym": p["sym"], "arity": ar, "args": [-1] * ar})            # same symbol, other arity
    qs.append({"sym": b"zz_absent".hex(), "arity": 1, "args": [-1]})
    return qs


def gen_case(rng, env, big=False):
    pool, preds = gen_store(rng, env, big)
    return {"consts": [T.to_json(t) for t in pool], "preds": preds, "preds_b": reorder(rng, preds),
            "comp": rng.choice(["plain", "gzip", "zstd"]), "det": rng.random() < 0.5,
            "source": "lazy" if rng.random() < 0.15 else "list",
            "queries": gen_queries(rng, pool, preds), "shape": "random"}


# ---- hash ties: distinct facts of one predicate with equal Atom.Hash() (seed C19-3).
# The hash of a constant is that of its payload, so the same payload under another type gives a
# different constant with the same hash; list / pair / map hashes are compositional, and a few
# shapes collide with numbers (0 = [] = fn:map() = {}, [1] = 65792).
def hash_twins(t):
    """Constants different from t that have t's hash (py_hash is the independent re-implementation)."""
    k = t[0]
    out = []
    if k in ("name", "str", "bytes"):
        v = t[1]
        out = [("str", v), ("bytes", v)] + ([("name", v)] if T.name_ok(v) and T.name_valid(v) else [])
        out = [x for x in out if x[0] != "str" or T.is_utf8(x[1])]
    elif k in ("num", "time", "dur"):
        v = t[1]
        out = [("num", v), ("time", v), ("dur", v), ("f64", v & T.M64)]
        if v == 0:
            out += [("list", []), ("map", []), ("struct", [])]
        if v == 65792:
            out += [("list", [("num", 1)])]
    elif k == "f64":
        v = t[1] if t[1] <= T.MAX64 else t[1] - (1 << 64)
        out = [("num", v), ("time", v), ("dur", v)]
    elif k == "pair":
        out = [("pair", a, t[2]) for a in hash_twins(t[1])] + [("pair", t[1], b) for b in hash_twins(t[2])]
    elif k == "list":
        if not t[1]:
            out = [("num", 0), ("map", []), ("struct", []), ("dur", 0)]
        else:
            out = [("list", [a] + t[1][1:]) for a in hash_twins(t[1][0])] + [("list", t[1][:-1] + [a]) for a in hash_twins(t[1][-1])]
            if t[1] == [("num", 1)]:
                out.append(("num", 65792))
    elif k in ("map", "struct"):
        if not t[1]:
            out = [("num", 0), ("list", []), ("map", []) if k == "struct" else ("struct", [])]
        else:
            (a, b) = t[1][0]
            out = [(k, [(a, b2)] + t[1][1:]) for b2 in hash_twins(b)]
    h = T.py_hash(t)
    c = T.canon(t)
    return [x for x in out if T.canon(x) != c and T.py_hash(x) == h]


TIE_SEEDS = [("name", b"/a"), ("str", b"/a"), ("name", b"/foo/bar"), ("str", b"x y"), ("bytes", b"k"), ("num", 5), ("dur", 5), ("time", 5),
             ("num", 0), ("list", []), ("num", 65792), ("list", [("num", 1)]), ("num", 1700000000000000000), ("f64", T.f64_bits(1.5)),
             ("pair", ("name", b"/a"), ("num", 5)), ("list", [("str", b"/a"), ("num", 7)]), ("struct", [(("name", b"/k"), ("num", 5))]),
             ("map", [(("str", b"k"), ("name", b"/v"))]), ("num", -3), ("str", b""), ("name", b"/a%41b")]


def gen_tie_case(rng, env):
    """A store in which several facts of one predicate share their Atom.Hash(). Deterministic writes of it
    from differently ordered sources that keep such facts apart must give equal bytes (and the model's)."""
    for _ in range(200):
        pool, seen = [], set()

        def add(t):
            if not admissible(t, env):
                return None
            c = T.canon(t)
            if c in seen:
                return next(i for i, x in enumerate(pool) if T.canon(x) == c)
            seen.add(c)
            pool.append(t)
            return len(pool) - 1
        fams = []
        for _ in range(rng.choice([1, 2, 2, 3])):
            t = rng.choice(TIE_SEEDS) if rng.random() < 0.75 else T.gen_const(rng, rng.choice([1, 2]), 0.0)
            tw = hash_twins(t)
            rng.shuffle(tw)
            ids = [i for i in (add(x) for x in [t] + tw[:rng.choice([1, 2, 3])]) if i is not None]
            if len(ids) >= 2:
                fams.append(ids)
        for _ in range(rng.choice([0, 1, 2, 3])):
            add(T.gen_scalar(rng, 0.0))
        if not fams:
            continue
        preds, ties = [], 0
        for pi in range(rng.choice([1, 1, 2, 3])):
            sym = T.gen_pred(rng)
            ar = rng.choice([1, 1, 2, 2, 3])
            if any(p["sym"] == sym.hex() and p["arity"] == ar for p in preds):
                continue
            rows, rs = [], set()
            for _ in range(rng.choice([1, 2, 2, 3])):
                base = [rng.randrange(len(pool)) for _ in range(ar)]
                fam = rng.choice(fams)
                pos = rng.randrange(ar)
                for m in rng.sample(fam, rng.choice([2, len(fam)])):        # the same row with a twin at one position
                    r = list(base)
                    r[pos] = m
                    if tuple(r) not in rs:
                        rs.add(tuple(r))
                        rows.append(r)
            if rng.random() < 0.5:
                r = [rng.randrange(len(pool)) for _ in range(ar)]
                if tuple(r) not in rs:
                    rows.append(r)
            rng.shuffle(rows)
            hs = [T.atom_hash(sym, [pool[i] for i in r]) for r in rows]
            ties += len(hs) - len(set(hs))
            preds.append({"sym": sym.hex(), "arity": ar, "rows": rows})
        if not ties or not preds:
            continue
        return {"consts": [T.to_json(t) for t in pool], "preds": preds, "preds_b": reorder(rng, preds),
                "comp": rng.choice(["plain", "plain", "gzip", "zstd"]), "det": rng.random() < 0.85,
                "source": "lazy" if rng.random() < 0.1 else "list", "target": "multiarray", "ties": ties,
                "queries": gen_queries(rng, pool, preds, limit=6), "shape": "hash-ties"}
    raise RuntimeError("could not generate a store with hash ties")


def exhaustive_cases():
    """Every store over p/0 (not listed, listed empty, present), q/1 (every ordered
    subset of two constants), r/2 (every sequence of <= 2 distinct rows out of three),
    in every listing order of the predicates, deterministic or not, with every query
    pattern over {variable, a, b}."""
    consts = [("name", b"/n%41"), ("str", b"/s+")]
    pj = [T.to_json(t) for t in consts]
    p0s = [None, [], [[]]]
    q1s = [[], [[0]], [[1]], [[0], [1]], [[1], [0]]]
    r2rows = [[0, 0], [0, 1], [1, 0]]
    r2s = [[]] + [[a] for a in r2rows] + [[a, b] for a in r2rows for b in r2rows if a != b]
    queries = [{"sym": b"p".hex(), "arity": 0, "args": []}]
    queries += [{"sym": b"q".hex(), "arity": 1, "args": [a]} for a in (-1, 0, 1)]
    queries += [{"sym": b"r".hex(), "arity": 2, "args": [a, b]} for a in (-1, 0, 1) for b in (-1, 0, 1)]
    queries += [{"sym": b"q".hex(), "arity": 2, "args": [-1, 0]}]
    k = 0
    for p0, q1, r2 in itertools.product(p0s, q1s, r2s):
        preds = [{"sym": b"q".hex(), "arity": 1, "rows": q1}, {"sym": b"r".hex(), "arity": 2, "rows": r2}]
        if p0 is not None:
            preds.append({"sym": b"p".hex(), "arity": 0, "rows": p0})
        for order in itertools.permutations(preds):
            for det in (False, True):
                k += 1
                yield {"consts": pj, "preds": list(order), "preds_b": [dict(p, rows=list(reversed(p["rows"]))) for p in reversed(order)],
                       "comp": ["plain", "gzip", "zstd"][k % 3], "det": det, "source": "lazy" if k % 7 == 0 else "list",
                       "queries": queries, "shape": "exhaustive"}


# ------------------------------------------------------------------ size stream
# Stores that are LARGE (thousands of facts: several zstd blocks, a compressed frame that announces the
# encoder level's full window) or hold LONG lines (one constant printing to 4-60 KB: longer than a bufio
# buffer, shorter than the scanner's 64 KiB token limit of N43). They are described by parameters - the
# harness (harness/c19/size.go, runner c19_size) builds the constants from (kind, key, length, seed) - and
# judged by the property's own oracle on Go's outputs: what ReadInto and the lazy store return must be the
# written set. No Coq term is made for them (the model reads long literals slowly); the expected COUNTS
# are computed here from the keys, independently of the harness.
ZLEVELS = ["fastest", "default", "better", "best"]
LONG_LENS = [4097, 4098, 4200, 4500, 6000, 8191, 8192, 8193, 10000, 12288, 16384, 16500, 20000, 24576, 33000, 45000, 58000]
LONG_KINDS = ["str", "bytes", "list", "slist"]


def sz_col(kind, mul=1, add=0, mod=0, length=0, pfx="n"):
    return {"kind": kind, "mul": mul, "add": add, "mod": mod, "len": length, "pfx": pfx}


def sz_key(col, i):
    k = i * col["mul"] + col["add"]
    return k % col["mod"] if col["mod"] else k


def sz_rows(p):
    return [tuple(sz_key(c, i) for c in p["cols"]) for i in range(p["n"])]


def sz_variant(comp, level="", mode="", eager=False, real=False, qsel=None, contains=False):
    return {"comp": comp, "level": level, "mode": mode, "eager": eager, "real": real, "qsel": qsel, "contains": contains}


def sz_queries(rng, preds, nbound):
    """An all-variable query for every predicate, then constant-bound ones: every single column, all columns
    of one row (ground), columns of two different rows, a constant no row holds. nbound(p) = how many of the
    bound ones are kept for predicate p (None = all); the first column bound is always among them (the
    reader then skips the other columns of the rows that differ)."""
    qs = [{"pred": i, "bind": {}} for i in range(len(preds))]
    for i, p in enumerate(preds):
        if p["arity"] == 0:
            continue
        n, ar = max(p["n"], 1), p["arity"]
        bound = [{"pred": i, "bind": {str(j): rng.randrange(n)}} for j in range(ar)]
        r = rng.randrange(n)
        bound.append({"pred": i, "bind": {str(j): r for j in range(ar)}})
        bound.append({"pred": i, "bind": {str(j): rng.randrange(n) for j in range(ar) if rng.random() < 0.7}})
        bound.append({"pred": i, "bind": {str(rng.randrange(ar)): p["n"] + 1 + rng.randrange(50)}})
        k = nbound(p)
        if k is not None:
            bound = [bound[0]] + rng.sample(bound[1:], max(0, min(k, len(bound)) - 1))
        qs += bound
    return qs


def sz_expected(case, q):
    p = case["preds"][q["pred"]]
    if p["arity"] == 0:
        return p["n"]
    want = {int(j): sz_key(p["cols"][int(j)], r) for j, r in q["bind"].items()}
    return sum(1 for row in sz_rows(p) if all(row[j] == k for j, k in want.items()))


BIG = 1000      # predicates with more facts are "big": parsing 10^4 lines costs the reader about half a second


def gen_big_case(rng, idx, nmax, deep=False):
    """5,000 .. nmax facts of numbers and short names: one big predicate between / before small ones (the lazy
    reader has to decompress and step over the whole big block to answer a query on a predicate behind it),
    written plain, gzip and zstd at every encoder level (WriteTo streaming into the compressor, as
    factstore/simplecolumn_test.go does; and the plain bytes compressed afterwards in one Write / in 4000-byte
    Writes / by EncodeAll). Every writer's output is opened by the matching lazy constructor and queried on
    every small predicate; the big predicate is read in full (ReadInto and lazy queries) from the plain file,
    the gzip file and one zstd level (idx rotates the level; deep = from every writer's output)."""
    total = rng.randrange(5000, nmax + 1)
    uniq = lambda: sz_col(rng.choice(["num", "name", "numneg"]), 1, rng.randrange(1000), 0, 0, rng.choice(["node/number", "n", "a/b/item"]))
    other = lambda: sz_col(rng.choice(["num", "name"]), rng.choice([1, 3, 7]), rng.randrange(100), rng.choice([0, 7, 100, 1000]), 0, rng.choice(["k", "color/c"]))

    def pred(sym, n, ar):
        cols = [uniq()] + [other() for _ in range(ar - 1)]
        if rng.random() < 0.5:
            rng.shuffle(cols)
        return {"sym": sym, "arity": ar, "n": n, "cols": cols}
    preds = [pred(rng.choice(["edge", "big_pred", "r"]), total, rng.choice([1, 2, 2, 2, 3] if deep else [1, 2, 2]))]
    # more than one zstd block (128 KiB) of text whatever the other columns are: one padded name column, >= 29 bytes a line
    preds[0]["cols"][rng.randrange(preds[0]["arity"])] = sz_col("name", 1, rng.randrange(1000), 0, rng.choice([28, 28, 40]), rng.choice(["node/number", "n", "a/b/item"]))
    preds.append(pred(rng.choice(["tag", "small", "z"]), rng.choice([1, 50, 300]), rng.choice([1, 1, 2])))        # behind the big block
    if rng.random() < 0.6:
        preds.insert(0, pred(rng.choice(["first", "a"]), rng.choice([0, 1, 20, 300]), rng.choice([1, 2])))
    if rng.random() < 0.4:
        preds.insert(rng.randrange(len(preds) + 1), {"sym": "flag", "arity": 0, "n": rng.choice([0, 1]), "cols": []})
    queries = sz_queries(rng, preds, lambda p: 2 if p["n"] > BIG else 3)
    allvar = list(range(len(preds)))
    small = [i for i, q in enumerate(queries) if preds[q["pred"]]["n"] <= BIG]
    lvl = ZLEVELS[idx % 4]
    variants = [sz_variant("plain", eager=True, real=(deep or idx % 4 == 0), contains=True),
                sz_variant("gzip", "default", "stream", eager=True, qsel=sorted(set(allvar + small)))]
    for l in ZLEVELS:
        if deep or l == lvl:
            variants.append(sz_variant("zstd", l, "stream", eager=True, contains=deep))
        else:
            variants.append(sz_variant("zstd", l, "stream", qsel=small))
    extra = [sz_variant("zstd", "lib", "stream"), sz_variant("gzip", ["speed", "best", "huffman"][idx % 3], "recompress")]
    extra += [sz_variant("zstd", ZLEVELS[(idx + 1 + k) % 4], m) for k, m in enumerate(["recompress", "chunks", "encodeall"])]
    for k, v in enumerate(extra):
        if deep or k == idx % len(extra) or v["mode"] == "recompress" and v["comp"] == "zstd":
            v["qsel"] = sorted(set(allvar + small)) if deep else small
            variants.append(v)
    return {"stream": "size", "shape": "size-big", "seed": rng.randrange(1 << 48), "preds": preds, "det": rng.random() < 0.3,
            "variants": variants, "queries": queries}


def gen_longline_case(rng, pos, kind, det=False):
    """A predicate holding a constant whose printed form is 4-60 KB, listed before / between / after other
    predicates (header order = listing order unless det); every predicate is queried lazily."""
    def small(sym):
        ar = rng.choice([1, 2, 2, 3])
        n = rng.choice([0, 1, 2, 3, 5, 8])
        cols = [sz_col(rng.choice(["num", "name", "numneg"]), 1, rng.randrange(50), 0, 0, "s")]
        cols += [sz_col(rng.choice(["num", "name", "str"]), rng.choice([1, 2]), rng.randrange(9), rng.choice([0, 2, 3]), rng.choice([0, 20]), "t") for _ in range(ar - 1)]
        return {"sym": sym, "arity": ar, "n": n, "cols": cols}

    def long_pred(sym):
        ar = rng.choice([1, 2, 2, 3])
        n = rng.choice([1, 1, 2, 3])
        cols = [sz_col(rng.choice(["num", "name"]), 1, rng.randrange(50), 0, 0, "doc") for _ in range(ar)]
        for j in rng.sample(range(ar), rng.choice([1, 1, min(2, ar)])):
            cols[j] = sz_col(kind if rng.random() < 0.8 else rng.choice(LONG_KINDS), 1, rng.randrange(50), 0, rng.choice(LONG_LENS), "")
        return {"sym": sym, "arity": ar, "n": n, "cols": cols, "long": True}
    nsmall = rng.choice([2, 3, 4])
    preds = [small("s%d" % i) for i in range(nsmall)]
    at = {"before": 0, "after": nsmall, "between": rng.randrange(1, nsmall)}[pos]
    preds.insert(at, long_pred("longp"))
    if rng.random() < 0.25:
        preds.insert(rng.randrange(len(preds) + 1), long_pred("longq"))
    if rng.random() < 0.3:
        preds.insert(rng.randrange(len(preds) + 1), {"sym": "flag", "arity": 0, "n": rng.choice([0, 1]), "cols": []})
    variants = [sz_variant("plain", eager=True, real=True, contains=True), sz_variant("gzip", "default", "stream", eager=True),
                rng.choice([sz_variant("zstd", rng.choice(ZLEVELS + ["lib"]), "stream", eager=True),
                            sz_variant("zstd", rng.choice(ZLEVELS), rng.choice(["recompress", "chunks", "encodeall"]), eager=True)])]
    return {"stream": "size", "shape": "size-longline", "position": pos, "long_kind": kind, "seed": rng.randrange(1 << 48),
            "preds": preds, "det": det, "variants": variants, "queries": sz_queries(rng, preds, lambda p: 3 if p.get("long") else None)}


def sz_check_generated(case, out):
    """Generator guards (not verdicts): rows distinct, lengths where they were aimed."""
    for p in case["preds"]:
        rows = sz_rows(p)
        if len(set(rows)) != len(rows) and p["arity"] > 0:
            raise RuntimeError("size stream: generated rows not distinct: %s" % p)
    if out["dup_written"] or out["facts"] != sum(p["n"] for p in case["preds"]):
        raise RuntimeError("size stream: harness built %d facts (%d duplicates) for %s" % (out["facts"], out["dup_written"], case["preds"]))
    if max(out["max_print"] or [0]) >= 64000:
        raise RuntimeError("size stream: printed constant of %d bytes (N43 territory)" % max(out["max_print"]))
    if case["shape"] == "size-longline" and max(out["max_print"]) < 3500:
        raise RuntimeError("size stream: no long line generated (%s)" % out["max_print"])
    if case["shape"] == "size-big" and out["plain_len"] < 140000:
        raise RuntimeError("size stream: big store of only %d bytes" % out["plain_len"])


def sz_verdict(case, out):
    """Go-side oracle: None if every writer's output reads back to the written set, else what fails."""
    total = sum(p["n"] for p in case["preds"])
    listed = sorted([p["sym"], p["arity"], p["n"]] for p in case["preds"])
    wants = [sz_expected(case, q) for q in case["queries"]]
    for v in out["variants"]:
        vv = v["variant"]
        tag = "[%s%s%s] " % (vv["comp"], "/" + vv["level"] if vv["level"] else "", "/" + vv["mode"] if vv["mode"] else "")
        if v.get("write_err"):
            return tag + "write failed: " + v["write_err"]
        if not v["decomp_ok"]:
            return tag + "decompressed file differs from the plain file %s" % v.get("decomp_err", "")
        for name in ("eager", "real"):
            c = v.get(name)
            if c is None:
                continue
            what = "ReadInto (%s)" % ("recording store" if name == "eager" else "SimpleInMemoryStore")
            if c.get("err"):
                return tag + what + " failed: " + c["err"]
            if c["n"] != total or c["missing"] or c["extra"] or c["dup"]:
                return tag + what + " gave %d facts for %d written (missing %d, never written %d, twice %d) %s" % (
                    c["n"], total, c["missing"], c["extra"], c["dup"], c.get("examples", ""))
        if v.get("lazy_err"):
            return tag + "lazy constructor failed: " + v["lazy_err"]
        if sorted(v["header"]) != listed:
            return tag + "lazy store header %s, written %s" % (v["header"], listed)
        if v["est"] != total:
            return tag + "lazy store EstimateFactCount %d, written %d" % (v["est"], total)
        sel = vv["qsel"] if vv.get("qsel") is not None else range(len(case["queries"]))
        if len(v["queries"]) != len(sel):
            return tag + "harness answered %d of %d queries" % (len(v["queries"]), len(sel))
        for qi, c in zip(sel, v["queries"]):
            q, want = case["queries"][qi], wants[qi]
            p = case["preds"][q["pred"]]
            what = "lazy GetFacts %s/%d bound columns %s" % (p["sym"], p["arity"], sorted(q["bind"]) or "none")
            if c.get("err"):
                return tag + what + " failed: " + c["err"]
            if c["n"] != want or c["missing"] or c["extra"] or c["dup"]:
                return tag + what + " returned %d facts, %d written facts match (missing %d, not written or not matching %d, twice %d) %s" % (
                    c["n"], want, c["missing"], c["extra"], c["dup"], c.get("examples", ""))
        if v["contains_false"]:
            return tag + "lazy store does not contain %d of %d written facts asked for" % (v["contains_false"], v["contains_asked"])
    return None


def sz_run(ck, cases):
    """Returns (failures [(i, why, out)], coverage dict)."""
    if not cases:
        return [], {}
    ck.log("size stream: %d parameterised stores on the Go side" % len(cases))
    outs = ck.run_go("c19_size", cases)
    ck.log("size stream done")
    failed = []
    cov = {"oracle": "Go-side oracle (set read back == set written, decided with Constant.Equals in the harness; expected counts "
                     "recomputed in the check from the generating keys); NOT judged by the Coq model",
           "cases": len(cases), "big_stores": [], "long_line_stores": [], "writers": {}, "zstd_frames": {}, "lazy_queries": 0, "failures": 0}
    for i, (c, o) in enumerate(zip(cases, outs)):
        if "out" not in o:
            failed.append((i, "harness: " + json.dumps(o)[:600], o))
            continue
        out = o["out"]
        sz_check_generated(c, out)
        v = sz_verdict(c, out)
        if v:
            failed.append((i, v, o))
        for vo in out["variants"]:
            vv = vo["variant"]
            k = "/".join(x for x in (vv["comp"], vv["level"], vv["mode"]) if x)
            cov["writers"][k] = cov["writers"].get(k, 0) + 1
            cov["lazy_queries"] += len(vo["queries"])
            if vv["comp"] == "zstd" and out["plain_len"] > 131072:        # more than one zstd block
                fk = "%s/%s" % (vv["level"], vv["mode"])
                w = "single-segment" if vo.get("zstd_single_segment") else "window %d KiB" % (vo.get("zstd_window", 0) // 1024)
                cov["zstd_frames"].setdefault(fk, [])
                if w not in cov["zstd_frames"][fk]:
                    cov["zstd_frames"][fk].append(w)
        if c["shape"] == "size-longline" or (c["shape"] == "corpus" and max(out["max_print"] or [0]) >= 4000):
            cov["long_line_stores"].append({"position": c.get("position", "corpus"), "kind": c.get("long_kind", ""),
                                            "header_order": [p["sym"] for p in c["preds"]] if not c["det"] else "deterministic",
                                            "longest_printed_argument_per_predicate": out["max_print"], "queries": len(c["queries"])})
        else:
            cov["big_stores"].append({"facts": out["facts"], "plain_bytes": out["plain_len"], "lines": out["lines"],
                                      "predicates": [[p["sym"], p["arity"], p["n"]] for p in c["preds"]], "det": c["det"]})
    cov["failures"] = len(failed)
    return failed, cov


# ------------------------------------------------------- property-level verdict
def fkey(f):
    return (f["sym"], f["arity"], tuple(f["args"]))


def written(case):
    return [(p["sym"], p["arity"], tuple(r)) for p in case["preds"] for r in p["rows"]]


def q_matches(q, f):
    return f[0] == q["sym"] and f[1] == q["arity"] and all(a < 0 or a == b for a, b in zip(q["args"], f[2]))


def verdict(case, out):
    """None if the implementation's own output satisfies the property on this case,
    otherwise a description of what fails. No model involved."""
    if out.get("dup_consts"):
        return None          # generator error (two ids Equal): reported separately
    w = written(case)
    ws = set(w)
    if out.get("write_err"):
        return "WriteTo failed: " + out["write_err"]
    if not out["comp_ok"]:
        return "decompressed file differs from the file written without compression"
    if not out["source_intact"]:
        return "writing changed what the source store lists"
    if out.get("read_err"):
        return "ReadInto failed: " + out["read_err"]
    rs = [fkey(f) for f in out["read_seq"]]
    if set(rs) != ws:
        return "ReadInto added %s, written %s" % (sorted(set(rs) - ws), sorted(ws - set(rs)))
    if len(rs) != len(ws):
        return "ReadInto added a fact twice"
    if out.get("real_err"):
        return "ReadInto (in-memory store) failed: " + out["real_err"]
    if set(fkey(f) for f in out["real_set"]) != ws or len(out["real_set"]) != len(ws):
        return "in-memory store after ReadInto holds %s, written %s" % (sorted(fkey(f) for f in out["real_set"]), sorted(ws))
    lz = out["lazy"]
    if lz.get("err"):
        return "NewSimpleColumnStore failed: " + lz["err"]
    listed = sorted((p["sym"], p["arity"], len(p["rows"])) for p in case["preds"])
    if sorted((p["sym"], p["arity"], p["args"][0]) for p in lz["preds"]) != listed:
        return "lazy store header %s, written %s" % (lz["preds"], listed)
    if lz["est"] != len(w):
        return "lazy store EstimateFactCount %d, written %d" % (lz["est"], len(w))
    if not lz["contains_all"]:
        return "lazy store does not contain a written fact"
    for i, (q, res, err) in enumerate(zip(case["queries"], lz["results"], lz["qerr"])):
        if err:
            return "lazy GetFacts query %d failed: %s" % (i, err)
        want = sorted(f for f in w if q_matches(q, f))
        if sorted(fkey(f) for f in res) != want:
            return "lazy GetFacts query %d %s returned %s, matching written facts %s" % (i, q, sorted(fkey(f) for f in res), want)
    if case["det"]:
        no_empty = all(p["rows"] for p in case["preds"])
        for name, eq in sorted(out["det_equal"].items()):
            if not name.startswith("list_") and not no_empty:
                continue          # the in-memory stores do not list empty predicates
            if case.get("ties") and not (name.startswith("list_") or name.startswith("multiarray_")):
                continue          # hash-keyed stores conflate hash-equal atoms (F8): not a source for this set
            if not eq:
                return "deterministic write from %s differs from the bytes written from order A" % name
    return None


# ----------------------------------------------------------------- the check
def get_env(ck):
    e = ck.run_go("c19_env", [{}])[0]["out"]
    return {"float_integral_has_point": bool(e["float_integral_has_point"]),
            "cr_escaped": "\r" not in e["string_cr"],
            "time_subsecond_ok": "123456789" in e["time_subsecond"], "raw": e}


def one_case(pool, preds, det=False, comp="plain", source="list", queries=None, shape="probe"):
    return {"consts": [T.to_json(t) for t in pool], "preds": preds,
            "preds_b": [dict(p, rows=list(reversed(p["rows"]))) for p in reversed(preds)],
            "comp": comp, "det": det, "source": source, "queries": queries or [], "shape": shape}


def probes(ck, env):
    """Known findings: replay each witness, report it if it still fails."""
    ids = {k["id"]: k for k in known_for("C19")}
    p1 = lambda rows: [{"sym": b"p".hex(), "arity": 1, "rows": rows}]
    if "N18" in ids:
        c = one_case([("list", [("num", -1), ("num", 2)])], p1([[0]]))
        o = ck.run_go("c19", [c])[0]
        if "out" not in o or verdict(c, o["out"]):
            ck.known("N18 a stored list whose first element prints with a leading minus ([-1, 2]) cannot be re-read (lexed as '[-')")
    if "F8" in ids:
        # the simple-column path itself keeps hash-equal atoms apart (Add sequence); the
        # hash-keyed target store conflates them
        c = one_case([("num", 0), ("list", [])], p1([[0], [1]]))
        o = ck.run_go("c19", [c])[0]
        if "out" in o:
            seq_ok = set(fkey(f) for f in o["out"]["read_seq"]) == set(written(c))
            if not seq_ok:
                ck.known("F8 simple-column reader loses one of two hash-equal atoms p(0), p([])")
            elif len(o["out"]["real_set"]) != 2:
                ck.known("F8 ReadInto a SimpleInMemoryStore: p(0) and p([]) have equal Atom.Hash(), the target store keeps one (the file and the Add sequence hold both)")
    if "N42" in ids:
        bad = []
        for nm in (b"/a+b", b"/a b", "/ä".encode(), b"/a,b"):
            c = one_case([("name", nm)], p1([[0]]))
            o = ck.run_go("c19", [c])[0]
            if "out" not in o or verdict(c, o["out"]):
                bad.append(nm.decode())
        if bad:
            ck.known("N42 names accepted by ast.Name but not by the lexer rule CONSTANT are written raw and do not reload (error or silently truncated): %s" % ", ".join(bad))
    if "N43" in ids:
        c = one_case([("str", b"x" * 70000)], p1([[0]]))
        o = ck.run_go("c19", [c])[0]
        if "out" not in o or verdict(c, o["out"]):
            ck.known("N43 a constant whose printed form is 64 KiB or longer cannot be re-read (bufio.Scanner token limit)")


def run_cases(ck, cases, tag, nshards=16):
    ck.log("running %d cases on the Go side" % len(cases))
    outs = ck.run_go("c19", cases)
    ck.log("Go done")
    terms, idxs, failed = [], [], []
    for i, (c, o) in enumerate(zip(cases, outs)):
        if "out" not in o:
            failed.append((i, "harness: " + json.dumps(o)[:600]))
            continue
        if o["out"].get("dup_consts"):
            raise RuntimeError("generator produced two ids for Equal constants: %s" % o["out"]["dup_consts"])
        v = verdict(c, o["out"])
        if v:
            failed.append((i, v))
        if o["out"].get("write_err"):
            continue
        terms.append("(%s, %s)" % ("true" if c.get("ties") else "false", cq_case(c, o["out"])))
        idxs.append(i)
    ck.log("evaluating the model on %d cases (%d KB of terms)" % (len(terms), sum(len(t) for t in terms) // 1024))
    verdicts = ck.run_coq("C19", "judge_sel", terms, shard=max(10, len(terms) // nshards + 1), tag=tag)
    ck.log("model done")
    return outs, failed, list(zip(idxs, verdicts))


STAGE = {1: "file bytes (WriteTo layout / order / escaping)", 2: "Atom.String", 3: "ReadInto Add sequence",
         4: "lazy store header"}


def run(ck):
    ck.obligations()
    ck.log("obligations built")
    ck.build_harness()
    ck.log("harness built")
    rng = ck.rng
    env = get_env(ck)
    cases, tcorpus, szcases = [], [], []
    for path in sorted(glob.glob(os.path.join(CORPUS, "*.json"))):
        c = json.load(open(path))
        c = c.get("case", c)
        c["shape"] = "corpus"
        (szcases if c.get("stream") == "size" else tcorpus if c.get("ties") else cases).append(c)
    # size stream (Go-side oracle): big stores x every writer / encoder level, long lines before / between / after
    nszcorpus = len(szcases)
    nbig, nlong = (4, 6) if ck.quick else (8, 60)
    for i in range(nbig):
        szcases.append(gen_big_case(rng, i, 8000 if ck.quick else (12000 if i % 2 else 30000), deep=not ck.quick))
    for i in range(nlong):
        szcases.append(gen_longline_case(rng, ["before", "between", "after"][i % 3], LONG_KINDS[(i // 3 + i) % 4], det=(i % 6 == 5)))
    szfailed, szcov = sz_run(ck, szcases)
    ncorpus = len(cases)
    for i in range(int(os.environ.get("C19_N", 0)) or ck.n(150, 2500)):      # C19_N: smaller runs for experiments
        cases.append(gen_case(rng, env, big=(i % 10 == 0)))
    nrandom = len(cases) - ncorpus
    exhaustive = False
    if not ck.quick:
        cases += list(exhaustive_cases())
        exhaustive = True
    # hash ties: the deterministic-bytes clause on stores whose facts share hashes (own judge: the key
    # pair must be injective - the hypothesis of deterministic_bytes - and a tie must be present)
    tcases = tcorpus + [gen_tie_case(rng, env) for _ in range(int(os.environ.get("C19_NT", 0)) or ck.n(50, 900))]
    nmain = len(cases)
    cases = cases + tcases
    outs, failed, judged = run_cases(ck, cases, "cases")
    STAGE_T = dict(STAGE)
    STAGE_T[5] = "sort key (Atom.Hash, Atom.String) not injective on the facts of a predicate: outside the hypothesis of deterministic_bytes"
    STAGE_T[6] = "no hash tie in a case generated to contain one (checks/term_common.py hash differs from Atom.Hash?)"
    reported = set()
    for i, why, o in szfailed[:3]:
        ck.violation({"property": "C19", "kind": "the implementation's own output violates the property (size stream, Go-side oracle; no model involved)",
                      "why": why, "case": szcases[i], "impl": o})
    for i, why in failed:
        if len(ck.violations) >= 5:
            break
        reported.add(i)
        ck.violation({"property": "C19", "kind": "the implementation's own output violates the property",
                      "why": why, "case": cases[i], "impl": outs[i]})
    disagreements = 0
    for i, v in judged:
        if v == 0:
            continue
        disagreements += 1
        if i in reported or len(ck.violations) >= 5:
            continue
        rep = {"property": "C19", "case": cases[i], "impl": outs[i], "judge_code": v,
               "stage": STAGE_T.get(v, "lazy GetFacts query %d" % (v - 10)),
               "model_trace": ck.coq_show("C19", "trace " + cq_case(cases[i], outs[i]["out"]))[:6000],
               "judge": "judge_ties" if cases[i].get("ties") else "judge",
               "kind": "correspondence model/implementation broken (the implementation's output still satisfies the property on this input)",
               "no_longer_checks": "correspondence Run.C19.judge: coq/Serde/SimpleColumn.v vs factstore/simplecolumn.go"}
        ck.violation(rep, "no-failing-input-found")
    probes(ck, env)
    # coverage
    shapes, comps, kinds, ar, nq = {}, {}, {}, {}, 0
    for c in cases:
        shapes[c["shape"]] = shapes.get(c["shape"], 0) + 1
        key = "%s/%s/%s" % (c["comp"], "det" if c["det"] else "nondet", c["source"])
        comps[key] = comps.get(key, 0) + 1
        for t in c["consts"]:
            T.kinds(T.from_json(t), kinds)
        for p in c["preds"]:
            k = "arity%d%s" % (p["arity"], "" if p["rows"] else "-empty")
            ar[k] = ar.get(k, 0) + 1
        nq += len(c["queries"])
    tie_cov = {"cases": len(tcases), "tied_fact_pairs": sum(c.get("ties", 0) for c in tcases),
               "deterministic": sum(1 for c in tcases if c["det"]),
               "sources_compared": "order A, order B, order A reversed (slice-backed ReadOnlyFactStore), MultiIndexedArrayInMemoryStore filled in order A and in order B; "
                                   "the hash-keyed stores are left out (F8)",
               "target_store": "MultiIndexedArrayInMemoryStore"}
    pct = sum(1 for c in cases for t in c["consts"] if t[0] == "name" and b"%" in bytes.fromhex(t[1]))
    distinct = len(set(json.dumps([c["consts"], c["preds"]], sort_keys=True) for c in cases
                       if sum(len(p["rows"]) for p in c["preds"]) >= 2))
    cov = {"evaluations": len(cases), "distinct_nontrivial": distinct,
           "rule": "stores written by the real SimpleColumn.WriteTo and read back by ReadInto (recording store and "
                   "SimpleInMemoryStore) and by the lazy SimpleColumnStore (corpus %d, random %d, hash-tie stream %d, exhaustive block %d); "
                   "non-trivial = at least two facts; distinct by (constants, predicates, rows); the size stream (size_stream.cases more stores, "
                   "Go-side oracle) is counted separately" % (ncorpus, nrandom, len(tcases), len(cases) - ncorpus - nrandom - len(tcases)),
           "exhaustive": exhaustive,
           "exhaustive_scope": "every store over p/0 {unlisted, empty, present} x q/1 (ordered subsets of 2 constants) x r/2 "
                               "(sequences of <=2 of 3 rows) x every listing order x deterministic or not x every query pattern "
                               "over {variable, a, b}; constants a = /n%41 (name with '%'), b = \"/s+\"" if exhaustive else "",
           "shapes": shapes, "configurations": comps, "constant_kinds": kinds, "predicates": ar,
           "lazy_queries": nq, "names_with_percent": pct, "size_stream": dict(szcov, corpus=nszcorpus), "environment": env["raw"], "hash_ties": tie_cov,
           "model_disagreements": disagreements, "property_failures": len(failed),
           "samples": [{"consts": cases[ncorpus]["consts"][:4], "preds": cases[ncorpus]["preds"][:3]},
                       {"consts": cases[-1]["consts"][:4], "preds": cases[-1]["preds"][:3]}]}
    return ck.finish(cov, assumptions=[
        "model hand-written (coq/Serde/SimpleColumn.v); tied to factstore/simplecolumn.go by differential runs only",
        "printed form / parser of constants are parameters of the model (per case: the table of String() values observed "
        "on the Go side); that parse(print c) = c is the subject of C08/C09 - the main stream avoids their open findings "
        "(N18 leading minus, F5 CR, F6 integral floats, N14 sub-second times, N9 duplicate keys) unless the tree under test has them repaired",
        "gzip / zstd are identity laws in the theorems; the harness checks decompress(compress(file)) == file on every case",
        "main stream: lexer-valid names, printed constants shorter than 64 KiB, no two hash-equal atoms under one predicate (F8); "
        "the hash-tie stream holds such atoms on purpose and uses only sources and targets that compare atoms (slice-backed store, MultiIndexedArrayInMemoryStore, the lazy store)",
        "size stream: decided by the Go-side oracle only (harness/c19/size.go compares the atoms read back with the written ones by Constant.Equals; "
        "the check recomputes every expected count from the generating keys); no Coq term, hence no model comparison on these stores"])


def replay(ck, path):
    ck.build_harness()
    rep = json.load(open(path))
    case = rep.get("case", rep)
    if case.get("stream") == "size":
        o = ck.run_go("c19_size", [case])[0]
        v = "harness: " + json.dumps(o)[:500] if "out" not in o else sz_verdict(case, o["out"])
        print("replay: size stream, Go-side oracle verdict on the implementation's output: %s" % (v or "holds"))
        if v:
            print("VIOLATION property=C19 replay=%s" % path)
            return 1
        return 0
    out = ck.run_go("c19", [case])[0]
    if "out" not in out:
        print("replay: harness outcome %s" % json.dumps(out)[:500])
        print("VIOLATION property=C19 replay=%s" % path)
        return 1
    v = verdict(case, out["out"])
    print("replay: property verdict on the implementation's output: %s" % (v or "holds"))
    j = 0
    if not out["out"].get("write_err"):
        j = ck.run_coq("C19", "judge_sel", ["(%s, %s)" % ("true" if case.get("ties") else "false", cq_case(case, out["out"]))])[0]
        print("replay: model comparison code = %d" % j)
    if v or j:
        print("VIOLATION property=C19 replay=%s" % path)
        return 1
    return 0


META = {
    "text": "Machine-checked theorems (coq/Props/C19.v) about a Gallina model of the simple-column format "
            "(header, column-major body, percent escape of name lines, deterministic sort orders, bufio line scanning, "
            "the skip arithmetic of the lazy store, the filter/skip logic of readPred): reading back what was written "
            "returns exactly the written facts (same multiset) for every admissible store, every lazy query on a store that "
            "lists no predicate twice returns exactly the matching facts (offset lemma over the header loop), "
            "and deterministic output is a function of the set of listed predicates and the set of facts whenever the "
            "(Atom.Hash, Atom.String) sort key is injective on the facts of each predicate (a witness shows this "
            "hypothesis is needed; hash ties are inside the theorem: two listings of p(\"/a\"), p(/a) under one hash satisfy the hypotheses and are "
            "written identically, and a writer that sorts on the hash alone is refuted on them). All statements are proved in full; nothing is partial. The model is tied to factstore/simplecolumn.go on every "
            "run: generated stores (all constant kinds, names with '%', zero-arity and empty predicates) x "
            "{plain, gzip, zstd} x {deterministic, not} x {order-controlled source, in-memory stores, re-saved lazy store} "
            "are written and read back by the real code; the verdict is decided on Go's output, the model is compared "
            "on bytes, Add sequence, header and query answers. A second stream holds stores with hash-equal distinct facts under one predicate "
            "(same payload under another type, 0 = [] = {}, [1] = 65792, twins inside pairs / lists / maps): deterministic writes from a slice-backed "
            "source in three orders and from MultiIndexedArrayInMemoryStore filled in two orders must be byte-equal and equal to the model's bytes; "
            "the judge first decides that the (Hash, String) key pair is injective on the case (the theorem's hypothesis) and that a tie is present. "
            "A third stream (size; Go-side oracle only, NOT model-judged: the set read back must equal the set written, expected counts recomputed from the "
            "generating parameters) holds stores too large / lines too long for the model's literal reader: 5,000-30,000 facts written plain, gzip "
            "(default / speed / best / huffman) and zstd at every encoder level (fastest / default / better / best and the library default; WriteTo streaming "
            "into the compressor, and the plain bytes compressed in one Write, in 4000-byte Writes, by EncodeAll), each opened with the matching lazy "
            "constructor and queried (all-variable and constant-bound) on every predicate, with ReadInto beside it; and stores in which a predicate holds "
            "string / bytes / list constants printing to 4-60 KB listed before, between and after other predicates, every predicate queried lazily.",
    "note": "Trusted: Coq kernel + vm_compute; printer/parser of constants are parameters (C08/C09), instantiated per case "
            "from String() values observed in Go; gzip/zstd as identity laws (sampled on every case); the model is tied to the "
            "code by sampling (exhaustive on a small space in the thorough tier). Known-finding probes: N18, F8, names the "
            "lexer rejects, 64 KiB line limit. The size stream has no model counterpart (verdict by the property's oracle on Go's outputs; quick tier: "
            "the big predicate is read in full from the plain, the gzip and one zstd level's output per store - the level rotates - while every other "
            "writer's output is opened lazily and queried on the predicates around the big block; thorough tier: in full from every writer's output). Hash-keyed in-memory stores conflate hash-equal atoms (F8): they are neither source nor target "
            "in the hash-tie stream.",
}
