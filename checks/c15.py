"""C15 - every explanation is a checkable derivation and every derived fact has one.

Theorems: coq/Props/C15.v (check_proof accepts exactly the valid acyclic derivations;
the reference explainer only produces accepted proofs and proves every fact of the
least model). Correspondence: generated programs are evaluated by engine.EvalProgram
without and with a provenance.MemoryRecorder (Go harness `c15`); for every fact of the
evaluated store as goal, the proofs returned by provenance.Explain (post-hoc) and
provenance.BuildFromRecording (recorded) are converted to trees and judged inside Coq by
check_proof. "No complete valid proof for a stored fact of a transform-free program" and
"a returned proof that is not flagged partial is rejected" are violations; proof
identifiers must be a function of proof content (and injective on it); the store with a
recorder must equal the store without.
"""
import glob
import json
import os
import re

from vlib.core import C, Raw, coq
from checks import datalog_common as dc

num, name, var, cst, app, atom, clause, fact = dc.num, dc.name, dc.var, dc.cst, dc.app, dc.atom, dc.clause, dc.fact

BAD_RI = 4000           # rule index of a node whose rule is not one of ProgramInfo.Rules


# ------------------------------------------------------------------ generator
def lit_vars(l):
    acc = set()
    if l[0] in ("atom", "neg"):
        for t in l[1]["args"]:
            dc.term_vars(t, acc)
    else:
        dc.term_vars(l[1], acc), dc.term_vars(l[2], acc)
    return acc


def bound_before(body, j):
    """variables bound by body[:j]: arguments of positive atoms, and a lone variable on one side
    of an equality whose other side is already bound"""
    b = set()
    for l in body[:j]:
        if l[0] == "atom":
            b |= lit_vars(l)
        elif l[0] == "eq":
            for x, y in ((l[1], l[2]), (l[2], l[1])):
                acc = set()
                dc.term_vars(y, acc)
                if x[0] == "var" and x[1] not in b and acc <= b:
                    b.add(x[1])
                    break
    return b


def hoist_tests(r, body, prob=0.6):
    """Moves each literal that is not a positive atom (negated atom, !=, =) with probability
    `prob` to a random earlier position at which the variables it reads are already bound, never
    in front of the first literal: a test may then stand BEFORE a (recursive) positive atom
    (seeded C15-2: engine code that stops scanning a body at the first non-atom). The clause
    stays safe in its written order, so analysis.RewriteClause keeps the order."""
    body = list(body)
    for i in range(len(body)):
        l = body[i]
        if l[0] == "atom" or i < 2 or r.random() >= prob:
            continue
        need = lit_vars(l) & bound_before(body, i)
        lo = i
        while lo > 1 and need <= bound_before(body, lo - 1):
            lo -= 1
        j = r.randint(lo, i)
        if j < i:
            body.insert(j, body.pop(i))
    return body


def recursive_tba(prog, c):
    """the clause has a negated atom / = / != in front of a positive atom of a predicate of the
    head's own recursive component (the atom the engine's delta rules mark)"""
    comp = next((set(l) for l in prog["layers"] if c["head"]["p"] in l), {c["head"]["p"]})
    seen = False
    for l in c["body"]:
        if l[0] != "atom":
            seen = True
        elif seen and l[1]["p"] in comp:
            return True
    return False


class Gen15:
    """Random stratifiable programs inside the property's quantifier: atoms, negation of
    lower layers, = and != (no built-in predicate atoms: N17; function applications in
    heads of non-recursive rules: t_fnhead; let-transforms only when `transforms`). Typed columns (N number 1..6, A
    name) so that no two facts have equal Atom.Hash() (F8). Safe by construction: every
    test comes after the literals that bind its variables, so analysis.RewriteClause keeps
    the body order and ProgramInfo.Rules equals the clause list."""

    def __init__(self, rng, transforms=False):
        self.r = rng
        self.transforms = transforms
        self.sig = {}
        self.clauses = []
        self.feats = set()
        self.npred = 0

    def new_pred(self, sig):
        k = self.npred
        self.npred += 1
        self.sig[k] = tuple(sig)
        return k

    def val(self, ty):
        return num(self.r.randint(1, 6)) if ty == "N" else name(self.r.choice(["/a", "/b", "/c"]))

    def pick(self, preds, sig):
        c = [p for p in preds if self.sig[p] == tuple(sig)]
        return self.r.choice(c) if c else None

    # ---- templates; each returns (new predicates, clauses)
    def t_closure(self, lower):
        r = self.r
        e = self.pick(lower, "NN") or self.e
        t = self.new_pred("NN")
        X, Y, Z = var(1), var(2), var(3)
        cl = [clause(atom(t, X, Y), [["atom", atom(e, X, Y)]])]
        k = r.random()
        if k < 0.4:
            cl.append(clause(atom(t, X, Z), [["atom", atom(t, X, Y)], ["atom", atom(t, Y, Z)]]))
        elif k < 0.7:
            cl.append(clause(atom(t, X, Z), [["atom", atom(t, X, Y)], ["atom", atom(e, Y, Z)]]))
        else:
            cl.append(clause(atom(t, X, Z), [["atom", atom(e, X, Y)], ["atom", atom(t, Y, Z)]]))
        if r.random() < 0.45:
            # a test, placed at the end or between the two atoms (in front of the recursive one)
            x = r.random()
            if x < 0.5:
                a, b = r.choice([(X, Z), (X, Y), (X, Y), (Y, X)])
                cl[1]["body"].append(["ineq", a, b])
                self.feats.add("ineq")
            elif x < 0.8:
                cl[1]["body"].append(["neg", atom(self.u, r.choice([X, Y]))])
                self.feats.add("neg")
            else:
                cl[1]["body"].append(["eq", r.choice([X, Y]), cst(self.val("N"))])
                self.feats.add("eq-test")
            cl[1]["body"] = hoist_tests(r, cl[1]["body"], 0.7)
        self.feats.add("recursive")
        return [t], cl

    def t_f9(self, lower):
        """the F9 shape: a :- b. a :- base. b :- a. g :- a, b. (rule order shuffled)"""
        r = self.r
        base = self.pick(lower, "N") or self.u
        a, b, g = self.new_pred("N"), self.new_pred("N"), self.new_pred("N")
        X = var(1)
        cl = [clause(atom(a, X), [["atom", atom(b, X)]]),
              clause(atom(a, X), [["atom", atom(base, X)]]),
              clause(atom(b, X), [["atom", atom(a, X)]]),
              clause(atom(g, X), [["atom", atom(a, X)], ["atom", atom(b, X)]] if r.random() < 0.5 else
                     [["atom", atom(b, X)], ["atom", atom(a, X)]])]
        if r.random() < 0.4:
            c = self.new_pred("N")
            cl.append(clause(atom(c, X), [["atom", atom(b, X)]]))
            cl.append(clause(atom(a, X), [["atom", atom(c, X)]]))
            preds = [a, b, g, c]
        else:
            preds = [a, b, g]
        if r.random() < 0.7:
            r.shuffle(cl)
        self.feats.update(["recursive", "mutual", "f9-shape"])
        return preds, cl

    def t_mutual(self, lower):
        r = self.r
        z = self.pick(lower, "N") or self.u
        s = self.pick(lower, "NN") or self.e
        ev, od = self.new_pred("N"), self.new_pred("N")
        X, Y = var(1), var(2)

        def step(h, b):
            body = [["atom", atom(b, X)], ["atom", atom(s, X, Y)]]
            if r.random() < 0.4:
                body.reverse()
            if r.random() < 0.35:
                if r.random() < 0.6:
                    body.append(["ineq", X, Y])
                    self.feats.add("ineq")
                else:
                    body.append(["neg", atom(z, Y)])
                    self.feats.add("neg")
                body = hoist_tests(r, body, 0.7)
            return clause(atom(h, Y), body)
        cl = [clause(atom(ev, X), [["atom", atom(z, X)]]), step(od, ev), step(ev, od)]
        preds = [ev, od]
        if r.random() < 0.5:
            both = self.new_pred("N")
            cl.append(clause(atom(both, X), [["atom", atom(ev, X)], ["atom", atom(od, X)]]))
            preds.append(both)
        r.shuffle(cl)
        self.feats.update(["recursive", "mutual"])
        return preds, cl

    def t_counter(self, lower):
        """recursion through an equality that binds a fresh variable (N16 shape); the equality
        after the recursive atom (c(Y) :- c(X), Y = X + k, d(Y)) or in front of it
        (c(Y) :- d(Y), X = Y - k, c(X))"""
        r = self.r
        z = self.pick(lower, "N") or self.u
        c = self.new_pred("N")
        X, Y = var(1), var(2)
        k = cst(num(r.choice([1, 1, 2])))
        if r.random() < 0.6:
            step = app("plus", X, k)
            eq = ["eq", Y, step] if r.random() < 0.7 else ["eq", step, Y]
            rec = clause(atom(c, Y), [["atom", atom(c, X)], eq, ["atom", atom(self.d, Y)]])
        else:
            step = app("minus", Y, k)
            eq = ["eq", X, step] if r.random() < 0.7 else ["eq", step, X]
            rec = clause(atom(c, Y), [["atom", atom(self.d, Y)], eq, ["atom", atom(c, X)]])
        cl = [clause(atom(c, X), [["atom", atom(z, X)]]), rec]
        if r.random() < 0.3:
            cl.reverse()
        self.feats.update(["recursive", "eq-bind"])
        return [c], cl

    def t_eqbind(self, lower):
        r = self.r
        q = self.pick(lower, "N") or self.u
        s = self.pick([p for p in lower if p != q], "N") or self.d
        h = self.new_pred("N")
        X, Z = var(1), var(2)
        e = app(r.choice(["plus", "plus", "minus", "mult"]), X, cst(num(r.choice([1, 2]))))
        eq = ["eq", Z, e] if r.random() < 0.6 else ["eq", e, Z]
        k = r.random()
        if k < 0.45:
            body = [["atom", atom(q, X)], eq, ["atom", atom(s, Z)]]
        elif k < 0.75:
            body = [["atom", atom(q, X)], eq, ["neg", atom(s, Z)]]
            self.feats.add("neg")
        else:
            body = [["atom", atom(q, X)], eq, ["atom", atom(s, Z)], ["ineq", Z, cst(num(r.randint(1, 6)))]]
            self.feats.add("ineq")
        self.feats.add("eq-bind")
        head = atom(h, X if r.random() < 0.6 else Z)
        return [h], [clause(head, body)]

    def t_fnhead(self, lower):
        """function applications in rule heads (N82, fixed): the explainer has to evaluate the
        head under each body solution, as the engine does. h(f(X, k)) :- q(X)[, test], sometimes
        with a plain second rule for h; or h(X, f(X, Y)) :- q(X), s(Y), where several body
        solutions may give the same head (f = mult, k = 0) or another one. Not recursive."""
        r = self.r
        q = self.pick(lower, "N") or self.u
        s = self.pick([p for p in lower if p != q], "N") or self.d
        X, Y = var(1), var(2)
        k = cst(num(r.choice([0, 1, 1, 2])))
        f = r.choice(["plus", "plus", "minus", "mult"])
        if r.random() < 0.5:
            h = self.new_pred("N")
            body = [["atom", atom(q, X)]]
            x = r.random()
            if x < 0.3:
                body.append(["neg", atom(s, X)])
                self.feats.add("neg")
            elif x < 0.5:
                body.append(["ineq", X, cst(self.val("N"))])
                self.feats.add("ineq")
            cl = [clause(atom(h, app(f, X, k)), body)]
            if r.random() < 0.4:
                cl.append(clause(atom(h, X), [["atom", atom(s, X)]]))
        else:
            h = self.new_pred("NN")
            e = app(f, X, Y) if r.random() < 0.6 else app(f, Y, k)
            head = atom(h, X, e) if r.random() < 0.5 else atom(h, e, X)
            cl = [clause(head, [["atom", atom(q, X)], ["atom", atom(s, Y)]])]
        r.shuffle(cl)
        self.feats.add("fn-head")
        return [h], cl

    def free_clause(self, h, layer, lower):
        r = self.r
        env = {}
        nextv = [1]
        body = []

        def fresh(ty):
            v = nextv[0]
            nextv[0] += 1
            env[v] = ty
            return v

        def bound(ty):
            return [v for v, t in env.items() if t == ty]

        def argfor(ty):
            bs = bound(ty)
            x = r.random()
            if bs and x < 0.55:
                return var(r.choice(bs))
            if x < 0.68:
                return cst(self.val(ty))
            if x < 0.74 and not self.transforms:
                # a program with let-transforms is explained from the recording only, where a
                # wildcard in a body atom is known finding N83
                self.feats.add("wild")
                return ["wild"]
            return var(fresh(ty))
        npos = r.choice([1, 1, 2, 2, 3])
        for i in range(npos):
            if layer and r.random() < 0.4:
                p = r.choice(layer)
                self.feats.add("recursive")
            else:
                p = r.choice(lower)
            body.append(["atom", atom(p, *[argfor(ty) for ty in self.sig[p]])])
        for _ in range(r.choice([0, 0, 1, 1, 2])):
            x = r.random()
            ns = bound("N")
            if x < 0.25 and env:
                v = r.choice(list(env))
                same = [w for w in bound(env[v]) if w != v]
                o = var(r.choice(same)) if same and r.random() < 0.6 else cst(self.val(env[v]))
                body.append(["ineq", var(v), o] if r.random() < 0.5 else ["ineq", o, var(v)])
                self.feats.add("ineq")
            elif x < 0.4 and env:
                v = r.choice(list(env))
                same = [w for w in bound(env[v]) if w != v]
                o = var(r.choice(same)) if same and r.random() < 0.5 else cst(self.val(env[v]))
                body.append(["eq", var(v), o])
                self.feats.add("eq-test")
            elif x < 0.6 and ns:
                a = var(r.choice(ns))
                e = app(r.choice(["plus", "minus", "mult"]), a, cst(num(r.choice([1, 2]))))
                v = fresh("N")
                body.append(["eq", var(v), e] if r.random() < 0.7 else ["eq", e, var(v)])
                # always guarded by the finite domain d: the predicate may be part of a cycle
                body.append(["atom", atom(self.d, var(v))])
                self.feats.add("eq-bind")
            elif lower:
                p = r.choice(lower)
                args = []
                for ty in self.sig[p]:
                    bs = bound(ty)
                    args.append(var(r.choice(bs)) if bs and r.random() < 0.85 else cst(self.val(ty)))
                body.append(["neg", atom(p, *args)])
                self.feats.add("neg")
        hargs = []
        for ty in self.sig[h]:
            bs = bound(ty)
            hargs.append(var(r.choice(bs)) if bs and r.random() < 0.88 else cst(self.val(ty)))
        return clause(atom(h, *hargs), hoist_tests(r, body, 0.5))

    def t_let(self, lower):
        r = self.r
        q = self.pick(lower, "N") or self.u
        h = self.new_pred("NN")
        X, Y = var(1), var(2)
        body = [["atom", atom(q, X)]]
        if r.random() < 0.4:
            s = self.pick(lower, "N") or self.d
            body.append(["neg", atom(s, X)] if r.random() < 0.5 else ["atom", atom(s, X)])
        self.feats.add("let")
        return [h], [clause(atom(h, X, Y), body, [[2, app(r.choice(["plus", "mult", "minus"]), X, cst(num(r.choice([1, 2]))))]])]

    def program(self):
        r = self.r
        self.e, self.u, self.d = self.new_pred("NN"), self.new_pred("N"), self.new_pred("N")
        edb = [self.e, self.u, self.d]
        for _ in range(r.randint(0, 2)):
            edb.append(self.new_pred(r.choice(["N", "NN", "A", "NA"])))
        lower = list(edb)
        layers = []
        for _ in range(r.randint(1, 3)):
            x = r.random()
            if x < 0.2:
                preds, cl = self.t_f9(lower)
            elif x < 0.32:
                preds, cl = self.t_closure(lower)
            elif x < 0.42:
                preds, cl = self.t_mutual(lower)
            elif x < 0.52:
                preds, cl = self.t_counter(lower)
            elif x < 0.62:
                preds, cl = self.t_eqbind(lower)
            elif x < 0.7 and self.transforms:
                preds, cl = self.t_let(lower)
            elif x < 0.78:
                preds, cl = self.t_fnhead(lower)
            else:
                preds, cl = [], []
            free = []
            for _ in range(r.randint(0 if preds else 1, 2)):
                free.append(self.new_pred(r.choice(["N", "N", "NN", "NN", "NA"])))
            allp = preds + free
            for p in free:
                cl.append(self.free_clause(p, [], lower))
                for _ in range(r.randint(0, 2)):
                    cl.append(self.free_clause(p, allp, lower))
            self.clauses += cl
            layers.append(allp)
            lower = lower + allp
        # base facts
        facts = []
        n = r.randint(3, 5)
        start = 1
        for i in range(r.randint(2, n)):
            facts.append(fact(self.e, num(start + i), num(start + i + 1)))
        for _ in range(r.randint(0, 3)):
            facts.append(fact(self.e, num(r.randint(1, n)), num(r.randint(1, n))))      # cycles, self-loops
        for v in r.sample(range(1, 6), r.randint(1, 3)):
            facts.append(fact(self.u, num(v)))
        for v in range(1, r.randint(3, 7)):
            facts.append(fact(self.d, num(v)))
        for p in edb[3:]:
            for _ in range(r.randint(0, 4)):
                facts.append(fact(p, *[self.val(ty) for ty in self.sig[p]]))
        # the layering actually used: strongly connected components (negation stays below)
        strat = dc.stratify(self.clauses)
        if strat is None:
            return None
        rec = set()
        for comp in strat:
            if len(comp) > 1:
                rec.update(comp)
        for c in self.clauses:
            if c["head"]["p"] in dc.body_preds(c)[0]:
                rec.add(c["head"]["p"])
        # initial facts of derived predicates (F9b); of a recursive predicate only in
        # post-hoc-only cases (recorded mode: known finding N80)
        idb_init_rec = False
        let_heads = set(c["head"]["p"] for c in self.clauses if c["let"])
        if r.random() < 0.3:
            heads = sorted(set(c["head"]["p"] for c in self.clauses) - let_heads)
            for p in r.sample(heads, min(len(heads), r.randint(1, 2))):
                if p in rec:
                    if self.transforms:
                        continue
                    idb_init_rec = True
                facts.append(fact(p, *[self.val(ty) for ty in self.sig[p]]))
                self.feats.add("idb-init")
        seen, uniq = set(), []
        for f in facts:
            t = dc.fact_text(f)
            if t not in seen:
                seen.add(t)
                uniq.append(f)
        r.shuffle(uniq)
        heads = set(c["head"]["p"] for c in self.clauses)
        used = set()
        for c in self.clauses:
            pos, neg = dc.body_preds(c)
            used.update(pos + neg)
        init, pre = [], []
        split = r.random() < 0.3
        for f in uniq:
            # the caller's store only holds facts of extensional predicates that the rules
            # mention (a predicate the program never mentions is neither EDB nor IDB for Explain)
            (pre if (split and f["p"] not in heads and f["p"] in used and r.random() < 0.5) else init).append(f)
        if idb_init_rec:
            self.feats.add("idb-init-recursive")
        return {"clauses": self.clauses, "layers": strat, "init": init, "pre": pre,
                "features": sorted(self.feats), "transforms": bool(let_heads)}


def gen_program(rng, transforms=False):
    while True:
        p = Gen15(rng, transforms).program()
        if p is not None:
            return p


# ------------------------------------------------------------------ cyclic programs (added after seeding, C15-1 / C15-2)
def cyclic_program(r):
    """A ring of 2-4 mutually recursive predicates p1 :- p2, p2 :- p3, .., pn :- p1 with chords
    (self loops included), one or two entry rules p_i :- p0 (or an initial fact of a ring
    predicate), goal rules over two or three ring members in any order, optionally a guard
    with a test IN FRONT of the recursive atom (p_i(X) :- dom(X), X != 9, p_j(X)) and rules that
    walk along a cyclic graph (p_i(Y) :- p_j(X), step(X, Y)); ALL clauses shuffled: every
    relative order of recursive and base rules, every depth of the cut goal on the proof stack
    and every reuse of a ring member after the ring's entry was explained can occur."""
    n = r.choice([2, 3, 3, 3, 4, 4])
    X, Y = var(1), var(2)
    ring = list(range(1, n + 1))
    dom, blk, step, base2 = n + 1, n + 2, n + 3, n + 4
    nxt = n + 5
    feats = {"recursive", "mutual", "cyclic", "ring%d" % n}
    walk = r.random() < 0.3
    used = set()

    def edge(h, b):
        k = r.random()
        if walk and k < 0.45:
            body = [["atom", atom(b, X)], ["atom", atom(step, X, Y)]]
            if r.random() < 0.5:
                body.reverse()
            hv = Y
            feats.add("walk")
            used.add(step)
        elif k < 0.7 or walk:
            return clause(atom(h, X), [["atom", atom(b, X)]])
        else:
            body, hv = [["atom", atom(dom, X)], ["atom", atom(b, X)]], X
            used.add(dom)
        if r.random() < 0.7:
            x = r.random()
            v = X if hv is X else r.choice([X, Y])
            if x < 0.4:
                body.append(["ineq", v, cst(num(9))] if hv is X or r.random() < 0.5 else ["ineq", X, Y])
            elif x < 0.8:
                body.append(["neg", atom(blk, v)])
                used.add(blk)
            else:
                body.append(["eq", v, v] if r.random() < 0.5 else ["eq", var(3), v])
            body = hoist_tests(r, body, 0.8)
            feats.add("guard-test")
        return clause(atom(h, hv), body)
    cl, seen = [], set()

    def add(c):
        t = dc.clause_text(c)
        if t not in seen:
            seen.add(t)
            cl.append(c)
    for i in range(n):
        add(edge(ring[i], ring[(i + 1) % n]))
    for _ in range(r.choice([0, 1, 1, 2, 2, 3])):
        add(edge(r.choice(ring), r.choice(ring)))
        feats.add("chord")
    init = [fact(0, num(1))] + ([fact(0, num(2))] if r.random() < 0.4 else [])
    entries = r.sample(ring, r.choice([1, 1, 2]))
    idb_init = r.random() < 0.12
    for k, h in enumerate(entries):
        if idb_init and k == 0:
            # an initial fact of a ring predicate as the only way in (F9b inside a cycle; recorded mode: N80)
            init.append(fact(h, num(1)))
            feats.update(["idb-init", "idb-init-recursive"])
        elif k == 1 and r.random() < 0.5:
            add(clause(atom(h, X), [["atom", atom(base2, X)]]))
            init.append(fact(base2, num(r.choice([1, 2, 3]))))
        else:
            add(clause(atom(h, X), [["atom", atom(0, X)]]))
    for _ in range(r.choice([1, 1, 2])):
        g = nxt
        nxt += 1
        k = r.choice([2, 2, 2, 3])
        ms = r.sample(ring, k) if k <= n and r.random() < 0.8 else [r.choice(ring) for _ in range(k)]
        body = [["atom", atom(m, X)] for m in ms]
        if r.random() < 0.25:
            body.append(["ineq", X, cst(num(9))] if r.random() < 0.5 else ["neg", atom(blk, X)])
            used.update([blk] if body[-1][0] == "neg" else [])
            body = hoist_tests(r, body, 0.8)
            feats.add("guard-test")
        add(clause(atom(g, X), body))
    r.shuffle(cl)
    if dom in used:
        init += [fact(dom, num(v)) for v in (1, 2, 3)]
    if blk in used:
        init.append(fact(blk, num(r.choice([2, 3, 7]))))
    if step in used:
        g = r.choice([[(1, 2), (2, 1)], [(1, 2), (2, 3), (3, 1)], [(1, 1), (1, 2), (2, 1)], [(1, 2), (2, 3), (3, 2)]])
        init += [fact(step, num(a), num(b)) for a, b in g]
    r.shuffle(init)
    return {"clauses": cl, "layers": dc.stratify(cl), "init": init, "pre": [], "features": sorted(feats),
            "transforms": False}


def ring_orders(n, entry_pairs_only=False):
    """EVERY clause order of the ring program over n predicates with one entry: p1 :- p2, ..,
    pn :- p1, p1 :- p0, and a goal rule g :- p_i, p_j for every ordered pair i != j (with
    entry_pairs_only: the pairs that contain the entry p1)."""
    import itertools
    X = var(1)
    ring = [clause(atom(i, X), [["atom", atom(i % n + 1, X)]]) for i in range(1, n + 1)]
    base = clause(atom(1, X), [["atom", atom(0, X)]])
    for i in range(1, n + 1):
        for j in range(1, n + 1):
            if i == j or (entry_pairs_only and 1 not in (i, j)):
                continue
            goal = clause(atom(n + 1, X), [["atom", atom(i, X)], ["atom", atom(j, X)]])
            for perm in itertools.permutations(ring + [base, goal]):
                cl = list(perm)
                yield {"clauses": cl, "layers": dc.stratify(cl), "init": [fact(0, num(1))], "pre": [],
                       "features": ["exhaustive", "cyclic", "ring%d" % n, "all-orders"], "transforms": False}


def ring_structures():
    """Every program over three ring predicates p1, p2, p3 in which each predicate has one or two
    rules (ordered) with a single body atom out of p0 (base), p1, p2, p3, the dependency graph has a
    cycle through at least two predicates, and a goal rule g :- p_i, p_j (i != j, both orders) - one
    representative per renaming of p1, p2, p3; clauses grouped by head (the relative order of the
    rules of one predicate is what Explain sees)."""
    import itertools
    X = var(1)
    opts = [[b] for b in range(4)] + [[a, b] for a in range(4) for b in range(4) if a != b]
    perms = [dict(zip((0, 1, 2, 3), (0,) + q)) for q in itertools.permutations((1, 2, 3))]

    def key(rules, goal, pi):
        rr = {pi[h]: tuple(pi[b] for b in rules[h]) for h in rules}
        return (rr[1], rr[2], rr[3], (pi[goal[0]], pi[goal[1]]))
    for r1, r2, r3 in itertools.product(opts, repeat=3):
        rules = {1: r1, 2: r2, 3: r3}
        cl = [clause(atom(h, X), [["atom", atom(b, X)]]) for h in (1, 2, 3) for b in rules[h]]
        comps = dc.stratify(cl)
        if not any(len(c) > 1 for c in comps) or not any(0 in rules[h] for h in rules):
            continue
        for goal in ((1, 2), (2, 1), (1, 3), (3, 1), (2, 3), (3, 2)):
            if key(rules, goal, perms[0]) != min(key(rules, goal, pi) for pi in perms):
                continue
            c2 = cl + [clause(atom(4, X), [["atom", atom(goal[0], X)], ["atom", atom(goal[1], X)]])]
            yield {"clauses": c2, "layers": dc.stratify(c2), "init": [fact(0, num(1))], "pre": [],
                   "features": ["exhaustive", "cyclic", "ring-structure"], "transforms": False}


def guarded_recursion():
    """Every recursive rule p2(..) :- A, T, B with a test T between two positive atoms: A binds X and
    Y (p0(X,Y) | p0(Y,X)), T out of X != Y, X = Y, X != 3, Y = 2, !p1(X), !p1(Y), !p4(Y), Z = Y,
    B the recursive atom p2(Y) | p2(X) (or p2(Z) after Z = Y), head p2(X) | p2(Y); beside the seed
    rule p2(X) :- p1(X), in both clause orders; a chain with a loop as base facts so that facts are
    first derived in several incremental rounds."""
    X, Y, Z = var(1), var(2), var(3)
    tests = [["ineq", X, Y], ["eq", X, Y], ["ineq", X, cst(num(3))], ["eq", Y, cst(num(2))], ["neg", atom(1, X)],
             ["neg", atom(1, Y)], ["neg", atom(4, Y)], ["eq", Z, Y], ["eq", Y, Z]]
    init = [fact(0, num(a), num(b)) for a, b in ((1, 2), (2, 3), (3, 4), (4, 5), (5, 3), (2, 2))] + \
        [fact(1, num(1)), fact(1, num(5)), fact(4, num(4))]
    seed = clause(atom(2, X), [["atom", atom(1, X)]])
    for a in (["atom", atom(0, X, Y)], ["atom", atom(0, Y, X)]):
        for t in tests:
            binds_z = t[0] == "eq" and Z in (t[1], t[2])
            for b in ([Z] if binds_z else [X, Y]):
                for hv in (X, Y):
                    rec = clause(atom(2, hv), [a, t, ["atom", atom(2, b)]])
                    for cl in ([seed, rec], [rec, seed]):
                        yield {"clauses": cl, "layers": dc.stratify(cl), "init": init, "pre": [],
                               "features": ["exhaustive", "recursive", "guarded-recursion"], "transforms": False}


# ------------------------------------------------------------------ wide joins (added after seeding, round 2: C15-4)
def wide_join_program(r):
    """Goal rules with 3-8 POSITIVE body atoms that join fan-out relations: several facts match
    the last atom and / or middle atoms for one and the same prefix of the body (body-only
    variables), with and without tests (!=, negated atom, binding equality) in between; lower
    predicates may be derived (projection, composition, transitive closure), a second wide rule
    may define the same head and an upper rule may use the head as a premise. Explained with
    MaxProofs in {2, 3, 5}: the ALTERNATIVES of one goal then differ in the last / a middle
    premise only (seeded C15-4: premise accumulators of alternative body solutions sharing one
    backing array). Values 1..4 everywhere so that every chain continues."""
    feats = {"wide-join"}
    sig, init, cl = {}, [], []
    npred = [0]

    def newp(ar):
        k = npred[0]
        npred[0] += 1
        sig[k] = ar
        return k
    key, blk, dom = newp(1), newp(1), newp(1)
    vals = [1, 2, 3, 4]
    init += [fact(key, num(v)) for v in r.sample(vals, r.choice([1, 2, 2, 3]))]
    init += [fact(blk, num(v)) for v in r.sample(vals, r.choice([0, 1, 1, 2]))]
    init += [fact(dom, num(v)) for v in (1, 2, 3, 4, 5)]
    fans, fns, unary = [], [], []
    for _ in range(r.choice([1, 2, 2, 3])):
        b = newp(2)
        fans.append(b)
        for v in vals:
            for t in r.sample(vals, r.choice([1, 2, 2, 3, 3])):
                init.append(fact(b, num(v), num(t)))
    for _ in range(r.choice([1, 1, 2])):
        b = newp(2)
        fns.append(b)
        for v in vals:
            if r.random() < 0.92:
                init.append(fact(b, num(v), num(r.choice(vals))))
    for _ in range(r.choice([1, 2])):
        u = newp(1)
        unary.append(u)
        init += [fact(u, num(v)) for v in r.sample(vals, r.choice([3, 4, 4]))]
    X, Y, Z = var(1), var(2), var(3)
    # derived lower predicates
    if r.random() < 0.5:
        b = r.choice(fans)
        t = newp(2)
        x = r.random()
        if x < 0.35:
            cl.append(clause(atom(t, X, Y), [["atom", atom(b, X, Y)]] + ([["ineq", X, Y]] if r.random() < 0.5 else [])))
        elif x < 0.65:
            cl.append(clause(atom(t, X, Z), [["atom", atom(b, X, Y)], ["atom", atom(r.choice(fns + fans), Y, Z)]]))
        else:
            cl.append(clause(atom(t, X, Y), [["atom", atom(b, X, Y)]]))
            cl.append(clause(atom(t, X, Z), [["atom", atom(b, X, Y)], ["atom", atom(t, Y, Z)]]))
            feats.add("recursive")
        fans.append(t)
        feats.add("derived-premise")
    if r.random() < 0.3:
        u = newp(1)
        cl.append(clause(atom(u, X), [["atom", atom(r.choice(unary), X)], ["neg", atom(blk, X)]]))
        unary.append(u)
        feats.update(["derived-premise", "neg"])

    def wide_rule(h, har, k):
        nv = [1]
        bound = [1]
        body = [["atom", atom(key, X)]] if r.random() < 0.7 else None
        if body is None:
            nv[0] = 2
            bound.append(2)
            body = [["atom", atom(r.choice(fans + fns), X, Y)]]
        nfan = 0
        ntest = 0
        last_fan = r.random() < 0.75
        while sum(1 for l in body if l[0] == "atom") < k:
            npos = sum(1 for l in body if l[0] == "atom")
            is_last = npos == k - 1
            # a test between two atoms
            if ntest < 3 and r.random() < 0.22:
                x = r.random()
                v = var(r.choice(bound))
                if x < 0.3:
                    o = var(r.choice(bound)) if len(bound) > 1 and r.random() < 0.5 else cst(num(9))
                    if o != v:
                        body.append(["ineq", v, o])
                        feats.add("ineq")
                        ntest += 1
                elif x < 0.7:
                    body.append(["neg", atom(blk, v)])
                    feats.add("neg")
                    ntest += 1
                else:
                    nv[0] += 1
                    w = nv[0]
                    e = app(r.choice(["plus", "minus"]), v, cst(num(1)))
                    body.append(["eq", var(w), e] if r.random() < 0.7 else ["eq", e, var(w)])
                    body.append(["atom", atom(dom, var(w))])
                    feats.add("eq-bind")
                    ntest += 1
                continue
            x = r.random()
            src = var(r.choice(bound[-2:] if r.random() < 0.6 else bound))
            if (is_last and last_fan) or (not is_last and x < 0.3 and nfan < 2):
                rel = r.choice(fans)
                nfan += 1
                if r.random() < 0.06:
                    body.append(["atom", atom(rel, src, ["wild"])])
                    feats.add("wild")
                else:
                    nv[0] += 1
                    bound.append(nv[0])
                    body.append(["atom", atom(rel, src, var(nv[0]))] if r.random() < 0.85 else
                                ["atom", atom(rel, var(nv[0]), src)])
            elif x < 0.55:
                body.append(["atom", atom(r.choice(unary), src)])
            elif x < 0.85:
                nv[0] += 1
                bound.append(nv[0])
                body.append(["atom", atom(r.choice(fns), src, var(nv[0]))])
            elif x < 0.93 and len(bound) > 1:
                body.append(["atom", atom(r.choice(fans), src, var(r.choice(bound)))])
            else:
                body.append(["atom", atom(r.choice(fans), cst(num(r.choice(vals))), src)])
        hargs = [X]
        if har == 2:
            others = [v for v in bound if v != 1]
            hargs.append(var(r.choice(others)) if others and r.random() < 0.85 else cst(num(r.choice(vals))))
        return clause(atom(h, *hargs), body)
    har = 1 if r.random() < 0.75 else 2
    h = newp(har)
    klens = [3, 4, 4, 4, 5, 6, 6, 7, 7, 8]
    cl.append(wide_rule(h, har, r.choice(klens)))
    if r.random() < 0.3:
        cl.append(wide_rule(h, har, r.choice(klens)))
        feats.add("two-wide-rules")
    if r.random() < 0.35:
        top = newp(1)
        body = [["atom", atom(key, X)], ["atom", atom(h, X)] if har == 1 else ["atom", atom(h, X, Y)]]
        if r.random() < 0.5:
            body.reverse()
        cl.append(clause(atom(top, X), body))
        feats.add("wide-as-premise")
    r.shuffle(cl)
    seen, uniq = set(), []
    for f in init:
        t = dc.fact_text(f)
        if t not in seen:
            seen.add(t)
            uniq.append(f)
    r.shuffle(uniq)
    strat = dc.stratify(cl)
    return {"clauses": cl, "layers": strat, "init": uniq, "pre": [], "features": sorted(feats), "transforms": False}


# ------------------------------------------------------------------ exhaustive block
def exhaustive_programs():
    """Every program of the seed rule p2(X) :- p1(X) plus one free rule with head p2(X) and one
    with head p3(X), each with a body of one or two literals: first a positive atom from
    p1(X), p2(X), p3(X), p2(Y), p3(Y), p0(X,Y), p0(Y,X), then optionally one of these or a
    test from !p1(X), !p2(X), !p3(X), !p2(Y), !p3(Y), X != Y, X = Y; kept: safe (head variable
    and every tested variable bound by a positive atom) and stratifiable. Base facts fixed
    (a chain with a self loop, one initial fact of the derived p3)."""
    X, Y = var(1), var(2)
    pos = [["atom", atom(1, X)], ["atom", atom(2, X)], ["atom", atom(3, X)], ["atom", atom(2, Y)], ["atom", atom(3, Y)],
           ["atom", atom(0, X, Y)], ["atom", atom(0, Y, X)]]
    tests = [["neg", atom(1, X)], ["neg", atom(2, X)], ["neg", atom(3, X)], ["neg", atom(2, Y)], ["neg", atom(3, Y)],
             ["ineq", X, Y], ["eq", X, Y]]

    def vars_of(l):
        if l[0] in ("atom", "neg"):
            return set(t[1] for t in l[1]["args"])
        return {l[1][1], l[2][1]}
    bodies = [[l] for l in pos] + [[a, b] for a in pos for b in pos + tests]
    rules = {2: [], 3: []}
    for h in (2, 3):
        for b in bodies:
            bound, ok = set(), True
            for l in b:
                if l[0] == "atom":
                    bound |= vars_of(l)
                else:
                    ok = ok and vars_of(l) <= bound
            if ok and 1 in bound:
                rules[h].append(clause(atom(h, X), b))
    seed = clause(atom(2, X), [["atom", atom(1, X)]])
    init = [fact(0, num(1), num(2)), fact(0, num(2), num(3)), fact(0, num(3), num(3)),
            fact(1, num(1)), fact(3, num(2))]
    for r1 in rules[2]:
        for r2 in rules[3]:
            cl = [seed, r1, r2]
            layers = dc.stratify(cl)
            if layers is None:
                continue
            yield {"clauses": cl, "layers": layers, "init": init, "pre": [], "features": ["exhaustive"],
                   "transforms": False}


# ------------------------------------------------------------------ encoding
def norm(s):
    return re.sub(r"\s+", "", s)


def go_case(prog, opts):
    return {"src": dc.to_mangle(prog), "pre": dc.facts_text(prog.get("pre", [])),
            "max_proofs": opts["max_proofs"], "max_depth": opts["max_depth"], "modes": opts["modes"],
            "timeout_ms": 30000, "max_nodes": 3000}


def go_fact(f):
    return dc.facts_from_go([f])[0]


def var_id(sym):
    if re.fullmatch(r"V\d+", sym):
        return int(sym[1:])
    raise ValueError("binding of an unexpected variable %r" % sym)


class Sharer:
    """let-bound sharing inside one Coq term: every distinct fact and every distinct proof
    node is elaborated once (coqc spends its time elaborating the literal, not judging)."""

    def __init__(self):
        self.defs, self.memo = [], {}

    SHARE = False   # measured: coqc elaborates the plain nested literal faster than let-bound sharing

    def ref(self, key, ty, mk):
        if not self.SHARE:
            return mk()
        if key not in self.memo:
            term = mk()
            nm = "x%d" % len(self.defs)
            self.defs.append("let %s : %s := %s in" % (nm, ty, coq(term)))
            self.memo[key] = Raw(nm)
        return self.memo[key]

    def fact(self, f):
        return self.ref("F" + dc.fact_text(f), "fact", lambda: dc.cq_fact(f))

    def node(self, n):
        k = n["k"]
        if k == "nil":
            return C("POther", (0, []), [])
        key = "N" + json.dumps([k, n["ri"], n.get("rule", ""), n["fact"], n.get("b"), bool(n.get("partial")),
                                [c["id"] for c in n.get("prem") or []]], sort_keys=True) + content(n)
        return self.ref(key, "pnode", lambda: self.mk_node(n))

    def mk_node(self, n):
        k = n["k"]
        f = self.fact(go_fact(n["fact"]))
        prems = [self.node(c) for c in n.get("prem") or []]
        partial = bool(n.get("partial"))
        ri = n["ri"] if n["ri"] >= 0 else BAD_RI
        if k == "edb":
            return C("PLeaf", f)
        if k == "absence":
            return C("PAbsent", f)
        if k == "derived":
            bs = [(var_id(b[0]), dc.cq_const(b[1])) for b in n.get("b") or []]
            return C("PDerived", Raw("%d%%nat" % ri), bs, f, partial, prems)
        if k == "let":
            return C("PLet", Raw("%d%%nat" % ri), f, partial, prems)
        return C("POther", f, prems)


def cq_case(prog, store, entries, ref):
    """entries: [(goal fact (Go form), need, [proof nodes])] - one per (mode, goal)"""
    sh = Sharer()
    gl = [C("mkGoal", sh.fact(go_fact(gf)), bool(need), [sh.node(n) for n in proofs]) for gf, need, proofs in entries]
    base = prog.get("init", []) + prog.get("pre", [])
    body = coq(C("mkCase", dc.cq_program(prog), [sh.fact(f) for f in base], [sh.fact(f) for f in store], bool(ref), gl))
    return "(" + "\n".join(sh.defs) + "\n" + body + ")"


def content(n):
    """canonical content of a proof node: kind, rule text, fact, premise contents in order"""
    return json.dumps([n["k"], n.get("rule", ""), n["fact"], [content(c) for c in n.get("prem") or []]],
                      sort_keys=True)


def walk(n, f):
    f(n)
    for c in n.get("prem") or []:
        walk(c, f)


def id_findings(goals):
    """identifier checks over every node of every proof of one program: equal content ->
    equal id, equal id -> equal content."""
    by_content, by_id, bad = {}, {}, []

    def visit(n):
        if n["k"] in ("big", "nil"):
            return
        c = content(n)
        i = n["id"]
        if by_content.setdefault(c, i) != i:
            bad.append({"kind": "equal content, different ids", "ids": [by_content[c], i], "content": c})
        if by_id.setdefault(i, c) != c:
            bad.append({"kind": "equal id, different content", "id": i, "contents": [by_id[i], c]})
    for g in goals:
        for mode in ("posthoc", "recorded"):
            for p in (g.get(mode) or {}).get("proofs", []):
                walk(p, visit)
    return bad, len(by_id)


def tree_stats(goals, mode):
    nodes, depth, partial = 0, 0, 0

    def dep(n):
        return 1 + max([dep(c) for c in n.get("prem") or []] + [0])
    for g in goals:
        for p in (g.get(mode) or {}).get("proofs", []):
            cnt = [0]
            walk(p, lambda n: cnt.__setitem__(0, cnt[0] + 1))
            nodes += cnt[0]
            depth = max(depth, dep(p))
    return nodes, depth


KIND_CLASS = {"edb": "leaf", "absence": "absent", "derived": "inner", "let": "inner"}


def prem_heads(n):
    """kind class and fact of the premise nodes = map head_of prems of Prov/ProofTree.v"""
    return [json.dumps([KIND_CLASS.get(c["k"], "other"), c.get("fact")], sort_keys=True) for c in n.get("prem") or []]


def pos_atom_vars(c):
    """variables that are (direct) arguments of a positive body atom of the clause"""
    return set(t[1] for l in c["body"] if l[0] == "atom" for t in l[1]["args"] if t[0] == "var")


def alt_findings(prog, goals, modes, st=None):
    """ORACLE on Go's own output, beside the Coq observer (which judges every alternative on its
    own): two alternatives returned for ONE goal that instantiate the same rule, carry the same
    premises (kinds and facts) and report DIFFERENT values for a variable that is an argument of
    a positive body atom. Prov/SeededProofs.v alternatives_bindings_agree: two accepted nodes
    never do, so a finding means at least one of the two is not a valid derivation. Also fills the
    coverage counters of st: pairs of alternatives of one rule by (number of premises, first
    position at which the premises differ)."""
    bad = []
    for g in goals:
        for mode in modes:
            ps = [p for p in (g.get(mode) or {}).get("proofs", []) if p["k"] == "derived"]
            if st is not None and len(ps) >= 2:
                st["alt_goals"][mode] += 1
            for a in range(len(ps)):
                for b in range(a + 1, len(ps)):
                    x, y = ps[a], ps[b]
                    if x["ri"] != y["ri"] or not 0 <= x["ri"] < len(prog["clauses"]):
                        continue
                    fx, fy = prem_heads(x), prem_heads(y)
                    if st is not None and len(fx) == len(fy):
                        d = next((k for k in range(len(fx)) if fx[k] != fy[k]), -1)
                        key = "%s premises=%d first_difference=%s" % (mode, len(fx), "none" if d < 0 else str(d + 1))
                        st["alt_pairs"][key] = st["alt_pairs"].get(key, 0) + 1
                        if len(fx) >= 4 and d >= 3:
                            st["alt_same_prefix3"][mode] += 1
                    if has_partial(x) or has_partial(y) or fx != fy:
                        continue
                    bx, by = ({v: json.dumps(c, sort_keys=True) for v, c in n.get("b") or []} for n in (x, y))
                    vs = ["V%d" % v for v in sorted(pos_atom_vars(prog["clauses"][x["ri"]]))]
                    diff = [v for v in vs if v in bx and v in by and bx[v] != by[v]]
                    if diff:
                        bad.append({"kind": "alternatives with different bindings but the same premises", "mode": mode,
                                    "goal": g["fact"], "rule": x.get("rule"), "variables": diff,
                                    "bindings": [x.get("b"), y.get("b")],
                                    "premises": [c.get("fact") for c in x.get("prem") or []], "ids": [x["id"], y["id"]]})
    return bad


def need_complete(prog, opts, mode):
    """is a complete proof owed for every stored fact?"""
    if opts["max_depth"] != 0:
        return False
    if mode == "posthoc":
        return not prog.get("transforms")
    # recorded: with alternatives requested, partial results obtained under a cycle cut are
    # cached and reused (known finding N81)
    return opts["max_proofs"] == 1


NCYCLIC_QUICK = 80
NWIDE_QUICK = 40

CODES = {2: "a returned proof that is not flagged partial is not a valid derivation of the goal",
         3: "no complete valid proof returned for a fact of the evaluated store"}

WITNESS = {
    "F9": {"note": "F9: b(1) was cached as unprovable while a(1) was on the stack",
           "src": "p0(1).\np1(V1) :- p2(V1).\np1(V1) :- p0(V1).\np2(V1) :- p1(V1).\np3(V1) :- p1(V1), p2(V1).\n"},
    "F9b": {"note": "F9b: initial fact of a derived predicate", "src": "p1(1).\np0(2).\np1(V1) :- p0(V1).\n"},
    "N16": {"note": "N16: equality binds a fresh variable used by a later atom",
            "src": "p0(1).\np1(2).\np2(V1) :- p0(V1), V2 = fn:plus(V1, 1), p1(V2).\n"},
}


# ------------------------------------------------------------------ probes for known findings
def probes(ck):
    """witnesses of the known findings of the provenance package; reported while they fail"""
    cases = [
        ("N80", "recorded mode: an initial fact of a recursive predicate that is re-derived through a cycle "
                "(p(1). p(X) :- r(X). r(X) :- p(X).) only gets a partial, cyclic proof",
         {"src": "p1(1).\np1(V1) :- p2(V1).\np2(V1) :- p1(V1).\n", "pre": "", "max_proofs": 1, "max_depth": 0,
          "modes": ["recorded"]},
         lambda o: any(p.get("partial") or any(c.get("partial") for c in p.get("prem") or [])
                       for g in o["goals"] for p in g["recorded"]["proofs"])),
        ("N81", "recorded mode with MaxProofs > 1: a partial proof built under a cycle cut is cached and reused "
                "(a :- b. a :- base. b :- a. g :- a, b.: the only proof of g(1) contains a partial node)",
         {"src": "p0(1).\np1(V1) :- p2(V1).\np1(V1) :- p0(V1).\np2(V1) :- p1(V1).\np3(V1) :- p1(V1), p2(V1).\n",
          "pre": "", "max_proofs": 2, "max_depth": 0, "modes": ["recorded"]},
         lambda o: any(g["fact"]["p"] == "p3" and all(has_partial(p) for p in g["recorded"]["proofs"])
                       for g in o["goals"])),
    ]
    cases.append(
        ("N83", "recorded mode: a body atom with a wildcard has no resolvable premise fact (p0(1). p1(1). p2(X) :- p1(X), "
                "p0(_).): the premise is dropped and the proof flagged partial",
         {"src": "p0(1).\np1(1).\np2(V1) :- p1(V1), p0(_).\n", "pre": "", "max_proofs": 1, "max_depth": 0,
          "modes": ["recorded"]},
         lambda o: any(g["fact"]["p"] == "p2" and all(has_partial(p) for p in g["recorded"]["proofs"]) for g in o["goals"])))
    outs = ck.run_go("c15", [c[2] for c in cases])
    for (kid, what, _, test), o in zip(cases, outs):
        if "out" in o and o["out"]["stage"] == "ok" and test(o["out"]):
            ck.known("%s %s" % (kid, what))
    # N82 (function application in a rule head: Explain panicked) is fixed: generator template
    # t_fnhead, corpus/C15/n82_*.json


def has_partial(n):
    return bool(n.get("partial")) or n["k"] in ("cut", "do", "big", "nil") or any(has_partial(c) for c in n.get("prem") or [])


# ------------------------------------------------------------------ the check
def load_corpus():
    here = os.path.dirname(os.path.abspath(__file__))
    out = []
    for path in sorted(glob.glob(os.path.join(here, "..", "corpus", "C15", "*.json"))):
        d = json.load(open(path))
        out.append((os.path.basename(path), d["program"], d["opts"]))
    return out


def evaluate(ck, progs, optss, origin, ref_every=4):
    """Go + Coq on the given programs. Returns (records, stats)."""
    go_cases = [go_case(p, o) for p, o in zip(progs, optss)]
    # the harness is one sequential process: run chunks side by side
    from concurrent.futures import ThreadPoolExecutor
    nchunk = 1 if len(go_cases) < 64 else 8
    size = (len(go_cases) + nchunk - 1) // nchunk
    chunks = [go_cases[k:k + size] for k in range(0, len(go_cases), size)]
    with ThreadPoolExecutor(max_workers=nchunk) as ex:
        outs = [o for part in ex.map(lambda c: ck.run_go("c15", c, timeout=6000), chunks) for o in part]
    ck.log("go side done: %d programs" % len(progs))
    terms, where = [], []
    st = {"stage": {}, "goals": 0, "proofs": {"posthoc": 0, "recorded": 0}, "noproof": {"posthoc": 0, "recorded": 0},
          "nodes": 0, "max_depth": 0, "ids": 0, "ref_runs": 0, "rule_mismatch": 0, "store_diff": 0, "partial_proofs": 0,
          "tba_nodes": {"posthoc": 0, "recorded": 0}, "alt_goals": {"posthoc": 0, "recorded": 0}, "alt_pairs": {},
          "alt_same_prefix3": {"posthoc": 0, "recorded": 0}, "alt_bad": 0, "alt_reports": []}
    for i, o in enumerate(outs):
        rep0 = {"property": "C15", "origin": origin[i], "program": progs[i], "opts": optss[i], "src": go_cases[i]["src"],
                "pre": go_cases[i]["pre"]}
        if "out" not in o:
            if len(ck.violations) < 5:
                ck.violation(dict(rep0, kind="harness error / panic in the provenance package", impl=o))
            continue
        out = o["out"]
        st["stage"][out["stage"]] = st["stage"].get(out["stage"], 0) + 1
        if out["stage"] != "ok":
            continue
        want = [norm(dc.clause_text(c)) for c in progs[i]["clauses"]]
        if [norm(x) for x in out["rules"]] != want:
            st["rule_mismatch"] += 1
            continue
        if not out["store_equal"]:
            st["store_diff"] += 1
            if len(ck.violations) < 5:
                ck.violation(dict(rep0, kind="attaching a recorder changed the evaluation result",
                                  plain_only=out.get("plain_only"), recorder_only=out.get("rec_only")))
        try:
            store = dc.facts_from_go(out["facts"])
            goals = out["goals"]
            st["goals"] += len(goals)
            bad, nids = id_findings(goals)
            st["ids"] += nids
            if bad and len(ck.violations) < 5:
                ck.violation(dict(rep0, kind="proof identifiers are not a function of proof content", findings=bad[:3]))
            abad = alt_findings(progs[i], goals, optss[i]["modes"], st)
            st["alt_bad"] += len(abad)
            if abad:
                # reported by the caller AFTER the verdicts of the Coq observer
                st["alt_reports"].append(dict(rep0, kind="alternative proofs of one goal instantiate one rule under different "
                                              "bindings but have the same premises (ORACLE on Go's output, backed by Prov/SeededProofs.v "
                                              "alternatives_bindings_agree: the premises are not the body literals under the reported "
                                              "bindings in at least one of them)", findings=abad[:3]))
            entries, idx = [], []
            for mode in optss[i]["modes"]:
                need = need_complete(progs[i], optss[i], mode)
                for gi, g in enumerate(goals):
                    entries.append((g["fact"], need, g[mode]["proofs"]))
                    idx.append((mode, gi, need))
                    st["proofs"][mode] += len(g[mode]["proofs"])
                    st["partial_proofs"] += sum(1 for p in g[mode]["proofs"] if has_partial(p))
                    if not g[mode]["proofs"]:
                        st["noproof"][mode] += 1
                nn, dd = tree_stats(goals, mode)
                tba = set(k for k, c in enumerate(progs[i]["clauses"]) if recursive_tba(progs[i], c))
                if tba:
                    cnt = [0]
                    for g in goals:
                        for p in g[mode]["proofs"]:
                            walk(p, lambda n: cnt.__setitem__(0, cnt[0] + (1 if n["k"] == "derived" and n["ri"] in tba else 0)))
                    st["tba_nodes"][mode] += cnt[0]
                st["nodes"] += nn
                st["max_depth"] = max(st["max_depth"], dd)
            ref = (not progs[i].get("transforms")) and i % ref_every == 0
            st["ref_runs"] += 1 if ref else 0
            terms.append(cq_case(progs[i], store, entries, ref))
            where.append((i, idx))
        except ValueError as e:
            if len(ck.violations) < 5:
                ck.violation(dict(rep0, kind="Go produced a value outside the modelled fragment: %s" % e))
    # few shards: a coqc process costs ~8 s before the first case is judged, the cases are cheap
    verdicts = ck.run_coq("C15", "judge", terms, shard=max(20, len(terms) // (5 if ck.quick else 16) + 1))
    ck.log("model side done: %d programs judged, %d reference-explainer runs" % (len(terms), st["ref_runs"]))
    return outs, go_cases, where, verdicts, st


def run(ck):
    ck.obligations()
    ck.build_harness()
    rng = ck.rng
    progs, optss, origin = [], [], []
    for nm, p, o in load_corpus():
        progs.append(p)
        optss.append(o)
        origin.append("corpus:" + nm)
    ncorpus = len(progs)
    for k in range(ck.n(160, 5000)):
        x = rng.random()
        transforms = x < 0.15
        p = gen_program(rng, transforms)
        if p.get("transforms"):
            modes = ["recorded"]
        elif "idb-init-recursive" in p["features"] or "wild" in p["features"]:
            # recorded mode: known findings N80 (initial fact of a recursive predicate) and
            # N83 (body atom with a wildcard)
            modes = ["posthoc"]
        else:
            modes = ["posthoc", "recorded"]
        progs.append(p)
        optss.append({"max_proofs": rng.choice([1, 1, 1, 2, 3, 5]), "max_depth": rng.choice([0, 0, 0, 0, 2, 4]),
                      "modes": modes})
        origin.append("random")
    nrandom = len(progs) - ncorpus
    # cyclic programs (every clause order; tests in front of recursive atoms), always both modes
    # unless an initial fact of a ring predicate is the entry (N80)
    for k in range(ck.n(NCYCLIC_QUICK, 1500)):
        p = cyclic_program(rng)
        progs.append(p)
        optss.append({"max_proofs": rng.choice([1, 1, 1, 2, 3]), "max_depth": 0,
                      "modes": ["posthoc"] if "idb-init-recursive" in p["features"] else ["posthoc", "recorded"]})
        origin.append("cyclic")
    ncyclic = len(progs) - ncorpus - nrandom
    # wide joins (3-8 positive body atoms, fan-out relations), alternatives requested: MaxProofs 2, 3, 5; both modes
    # (a wildcard in a body atom: post-hoc only, N83)
    for k in range(ck.n(NWIDE_QUICK, 800)):
        p = wide_join_program(rng)
        progs.append(p)
        optss.append({"max_proofs": rng.choice([2, 3, 3, 5]), "max_depth": 0,
                      "modes": ["posthoc"] if "wild" in p["features"] else ["posthoc", "recorded"]})
        origin.append("wide")
    nwide = len(progs) - ncorpus - nrandom - ncyclic
    nexh = 0
    exh_blocks = {}
    if not ck.quick:
        for p in exhaustive_programs():
            progs.append(p)
            rec3 = any(3 in comp and len(comp) > 1 for comp in p["layers"]) or \
                any(c["head"]["p"] == 3 and 3 in dc.body_preds(c)[0] for c in p["clauses"])
            optss.append({"max_proofs": 1 + nexh % 2, "max_depth": 0,
                          "modes": ["posthoc"] if rec3 else ["posthoc", "recorded"]})
            origin.append("exhaustive")
            nexh += 1
        exh_blocks["two-rule schema"] = nexh
        for nm, gen in (("ring2 all clause orders", lambda: ring_orders(2)), ("ring3 all clause orders", lambda: ring_orders(3)),
                        ("ring4 all clause orders", lambda: ring_orders(4, True)), ("ring structures", ring_structures),
                        ("guarded recursion", guarded_recursion)):
            k = 0
            for p in gen():
                progs.append(p)
                # ring4 / ring structures: post-hoc at both proof limits over the block; recorded mode on
                # every 4th program (the recorded builder has no cut bookkeeping; clause orders of the
                # engine are covered by ring2 / ring3 / guarded recursion in both modes)
                big = nm in ("ring4 all clause orders", "ring structures")
                optss.append({"max_proofs": 1 + k % 2, "max_depth": 0,
                              "modes": ["posthoc"] if big and k % 4 >= 2 else ["posthoc", "recorded"]})
                origin.append("exhaustive:" + nm)
                k += 1
            exh_blocks[nm] = k
            nexh += k
    outs, go_cases, where, verdicts, st = evaluate(ck, progs, optss, origin, ref_every=ck.n(4, 8))
    vc = {}
    nref_bad = 0
    for (i, idx), v in zip(where, verdicts):
        code = v % 10
        vc[code] = vc.get(code, 0) + 1
        if code == 4:
            nref_bad += 1
            if nref_bad == 1:
                ck.violation({"property": "C15", "kind": "reference explainer misses a goal or builds a rejected proof on the Go "
                              "store (the Go store is not the least model of the program, or the model is wrong)",
                              "program": progs[i], "opts": optss[i], "src": go_cases[i]["src"], "pre": go_cases[i]["pre"],
                              "no_longer_checks": "Run.C15.judge_ref / Props/C15.v explain_ref_sound, proof_exists"},
                             "no-failing-input-found")
            continue
        if code < 2 or len(ck.violations) >= 5:
            continue
        mode, gi, need = idx[v // 10 - 1]
        goal = outs[i]["out"]["goals"][gi]
        ck.violation({"property": "C15", "verdict": code, "kind": CODES[code], "mode": mode, "origin": origin[i],
                      "program": progs[i], "opts": optss[i], "src": go_cases[i]["src"], "pre": go_cases[i]["pre"],
                      "goal": goal["fact"], "go": goal[mode], "complete_proof_owed": need,
                      "why_violation": "Props/C15.v check_proof_exact: check_proof accepts exactly the valid acyclic "
                                       "derivations; proof_exists: every fact of the least model has one"})
    for k, rep in enumerate(st["alt_reports"]):
        if k == 0 or len(ck.violations) < 5:
            ck.violation(rep)
    probes(ck)
    n_tba_progs = sum(1 for p in progs if any(recursive_tba(p, c) for c in p["clauses"]))
    if st["tba_nodes"]["recorded"] < 20 and len(progs) >= 100 and not ck.violations:
        ck.violation({"property": "C15", "kind": "generator: (almost) no recorded proof node comes from a recursive rule with a "
                      "test in front of the recursive atom", "no_longer_checks": "correspondence Run.C15.judge (input "
                      "distribution broken: seeded C15-2 class)", "count": st["tba_nodes"]}, "no-failing-input-found")
    if st["alt_same_prefix3"]["posthoc"] < 20 and nwide >= 20 and not ck.violations:
        ck.violation({"property": "C15", "kind": "generator: (almost) no post-hoc goal has two alternatives of one rule with >= 4 "
                      "premises that agree on the first three premises", "no_longer_checks": "correspondence Run.C15.judge "
                      "(input distribution broken: seeded C15-4 class)", "count": st["alt_same_prefix3"]}, "no-failing-input-found")
    feats = {}
    for p in progs:
        for f in p.get("features", ["corpus"]):
            feats[f] = feats.get(f, 0) + 1
    nontrivial = set()
    for i, p in enumerate(progs):
        if set(p.get("features", [])) & {"recursive", "neg", "eq-bind", "idb-init", "exhaustive", "let", "fn-head"} or origin[i].startswith("corpus"):
            nontrivial.add(go_cases[i]["src"] + "#" + go_cases[i]["pre"])
    optd = {}
    for o in optss:
        k = "max_proofs=%d max_depth=%d %s" % (o["max_proofs"], o["max_depth"], "+".join(o["modes"]))
        optd[k] = optd.get(k, 0) + 1
    cov = {"evaluations": st["proofs"]["posthoc"] + st["proofs"]["recorded"] + st["noproof"]["posthoc"] + st["noproof"]["recorded"],
           "programs": len(progs), "goals": st["goals"], "judged_programs": len(where),
           "proofs_judged": st["proofs"], "goals_without_proof": st["noproof"], "proofs_flagged_partial": st["partial_proofs"],
           "proof_nodes": st["nodes"], "max_proof_height": st["max_depth"], "identifiers_checked": st["ids"],
           "reference_explainer_runs": st["ref_runs"], "distinct_nontrivial": len(nontrivial),
           "rule": "programs through parse -> AnalyzeOneUnit -> EvalProgram (without / with MemoryRecorder) -> Explain and "
                   "BuildFromRecording for every stored fact (corpus %d, random %d, cyclic %d, wide joins %d, exhaustive %d); evaluations = "
                   "(goal, mode) explanations judged by check_proof in Coq against the rules of the PROGRAM (a node whose rule "
                   "text is not one of ProgramInfo.Rules has no rule: rejected); non-trivial = recursion, negation, binding "
                   "equality, initial fact of a derived predicate or let-transform present; distinct by program text"
                   % (ncorpus, nrandom, ncyclic, nwide, nexh),
           "cyclic_stream": "rings of 2-4 mutually recursive predicates with chords, 1-2 entries, goal rules over 2-3 ring members, "
                            "guards with a test in front of the recursive atom, walks along a cyclic graph; all clauses shuffled",
           "test_before_atom": {"programs_with_such_a_recursive_rule": n_tba_progs,
                                "recorded_proof_nodes_of_such_rules": st["tba_nodes"]["recorded"],
                                "posthoc_proof_nodes_of_such_rules": st["tba_nodes"]["posthoc"]},
           "wide_join_stream": "goal rules with 3-8 positive body atoms over fan-out relations (several matching facts for the "
                               "last and for middle atoms under one prefix), tests / negated atoms / binding equalities in between, "
                               "derived lower predicates, MaxProofs 2 / 3 / 5, both modes",
           "alternatives": {"goals_with_two_or_more_proofs": st["alt_goals"],
                            "pairs_of_alternatives_of_one_rule": dict(sorted(st["alt_pairs"].items())),
                            "pairs_with_4_or_more_premises_agreeing_on_the_first_3": st["alt_same_prefix3"],
                            "oracle_different_bindings_same_premises": st["alt_bad"],
                            "judged": "EVERY returned alternative is judged by check_proof (judge_goal: existsb over all proofs); "
                                      "in addition the ORACLE alt_findings (Go output only): alternatives of one rule with the same "
                                      "premises agree on every variable of a positive body atom (SeededProofs.v "
                                      "alternatives_bindings_agree: accepted nodes always do)"},
           "exhaustive_blocks": exh_blocks,
           "exhaustive": nexh > 0,
           "exhaustive_scope": ("(1) every clause order (all permutations) of the ring programs p1 :- p2, .., pn :- p1, p1 :- p0, "
                                "g :- p_i, p_j for n = 2, 3 and every ordered pair i != j, for n = 4 the six ordered pairs that contain the "
                                "entry p1; (2) every program over three ring predicates with one or two single-atom rules each "
                                "(bodies p0..p3, ordered), a cycle through >= 2 predicates, and a goal rule over every ordered pair, "
                                "one representative per renaming of the ring predicates; (3) every recursive rule p2 :- A, T, B with one "
                                "of 9 tests T (!=, =, negated atoms, binding =) between the binding atom A and the recursive atom B, "
                                "both clause orders, base facts needing several incremental rounds; MaxProofs 1 and 2 alternate; "
                                "(4) " if nexh else "") + ("all stratifiable safe programs made of the seed rule p2(X) :- p1(X), one rule for p2(X) and one for "
                                "p3(X) with bodies of <=2 literals (7 positive atoms, 5 negated atoms, X = Y, X != Y) over 2 "
                                "extensional and 2 derived predicates, 2 variables, fixed base facts incl. an initial fact of the "
                                "derived, possibly recursive p3; every stored fact explained post-hoc (recorded mode too when p3 "
                                "is not recursive: N80)" if nexh else ""),
           "features": feats, "options": optd, "analysis_stage": st["stage"], "rule_text_mismatch": st["rule_mismatch"],
           "store_differs_with_recorder": st["store_diff"], "verdicts": {str(k): n for k, n in sorted(vc.items())},
           "samples": [go_cases[min(len(go_cases) - 1, ncorpus)]["src"], go_cases[min(len(go_cases) - 1, ncorpus + 1)]["src"]]}
    rejected = sum(n for k, n in st["stage"].items() if k != "ok") + st["rule_mismatch"]
    if rejected > 0.1 * max(1, len(progs)):
        ck.violation({"property": "C15", "kind": "generator: more than 10% of the programs rejected / not evaluated / reordered",
                      "no_longer_checks": "correspondence Run.C15.judge (input distribution broken)",
                      "stages": st["stage"], "rule_text_mismatch": st["rule_mismatch"]}, "no-failing-input-found")
    return ck.finish(cov, assumptions=[
        "observer and reference explainer hand-written (coq/Prov/*.v) over C01's Datalog model (coq/Datalog/*.v); the Go proofs "
        "are converted to trees by harness/c15 (rule = index of the printed rule in ProgramInfo.Rules) and judged inside Coq",
        "bindings may be incomplete (wildcards, variables that occur only in equalities or negated atoms): check_proof starts "
        "from the reported bindings and lets positive premises and equalities bind the rest, as the engine's join does",
        "a leaf is accepted for facts of the program text / the caller's store that the evaluated store holds; the caller's "
        "store only holds facts of extensional predicates",
        "fragment: names, int64 numbers; fn:plus/minus/mult in equalities and in heads of non-recursive rules; no built-in "
        "predicate atoms (N17), let-transforms in recorded mode only, no do-transforms; typed columns (F8)",
        "a complete proof is owed post-hoc for transform-free programs and in recorded mode with MaxProofs = 1, at the default "
        "depth limit; recorded mode with MaxProofs > 1 (N81) and initial facts of recursive predicates in recorded mode (N80) "
        "are known findings: there only validity of the proofs not flagged partial is judged",
        "proof identifiers are checked in the correspondence (content <-> id on every run); their Coq model (coq/Prov/ProofId.v, hash as an argument) is not evaluated against the Go code"])


def replay(ck, path):
    ck.build_harness()
    rep = json.load(open(path))
    prog, opts = rep["program"], rep["opts"]
    outs, go_cases, where, verdicts, st = evaluate(ck, [prog], [opts], ["replay"], ref_every=1)
    bad = "out" not in outs[0] or outs[0]["out"]["stage"] != "ok" or st["store_diff"] or st["rule_mismatch"] or st["alt_bad"]
    if "out" in outs[0] and outs[0]["out"]["stage"] == "ok":
        b, _ = id_findings(outs[0]["out"]["goals"])
        bad = bad or bool(b)
    for (i, idx), v in zip(where, verdicts):
        code = v % 10
        what = CODES.get(code, "reference explainer disagrees" if code == 4 else "ok")
        if code in (2, 3):
            mode, gi, need = idx[v // 10 - 1]
            what += " (%s, goal %s)" % (mode, json.dumps(outs[i]["out"]["goals"][gi]["fact"]))
        print("replay: verdict %d %s" % (v, what))
        bad = bad or code >= 2
    if bad:
        print("VIOLATION property=C15 replay=%s" % path)
        return 1
    return 0


META = {
    "text": "Machine-checked theorems (coq/Props/C15.v) about a proof-tree observer and a reference explainer over the shared "
            "Datalog model: check_proof accepts a tree exactly when it is a valid derivation (every inner node is an instance of "
            "its rule under the reported bindings with the premises in body order, leaves are base facts in the store, absence "
            "leaves are ground and genuinely absent, equalities and inequalities hold, no fact is its own ancestor); every proof "
            "the reference explainer builds is accepted; proof_exists: for a transform-free program without built-in comparison "
            "atoms (positive atoms, negated atoms, = and != are covered) whose negated atoms are ground when reached (decidable "
            "sufficient test prog_fine_b), a valid stratification and the store the engine model returns (= the stratified least "
            "model, C01 strata_exact), every fact of the store has a proof that check_proof accepts and the reference explainer "
            "returns one with its default fuel length St + 1 - no further hypotheses (strat_ok_from_valid and "
            "explain_ref_fuel_suffices discharge the two steps that proof_exists_partial assumed). Identifiers: in a model of "
            "edbProofID/absenceProofID/derivedProofID with the hash as argument the identifier is a function of (rule, fact, "
            "sub-identifiers), the framing of the hashed parts is injective, and with an injective hash equal identifiers mean "
            "equal content. On every run generated programs (mutual recursion with cycle cuts, rings of 2-4 mutually recursive "
            "predicates with chords, several entries and goal rules over several ring members in every clause order, "
            "closures, negation, (in)equalities, tests in front of the recursive atom of a rule, goal rules with 3-8 positive body "
            "atoms over fan-out relations explained with MaxProofs 2/3/5 (alternatives that differ in the last or a middle "
            "premise only), equalities that bind fresh "
            "variables, initial facts of derived predicates, let-transforms in recorded mode) are evaluated by the real engine with and without a MemoryRecorder; for every "
            "stored fact the proofs of provenance.Explain and BuildFromRecording (several MaxProofs / MaxDepth) are judged by "
            "check_proof inside Coq: a rejected proof, a missing complete proof, identifiers that are not a function of proof "
            "content, or a store changed by the recorder are violations; a node whose rule is not (textually) one of the program's "
            "rules has no rule for check_proof and is rejected. Every returned alternative is judged on its own; an additional oracle "
            "on Go's output (alternatives of one rule with equal premises agree on the variables of positive body atoms) is backed "
            "by Prov/SeededProofs.v alternatives_bindings_agree (accepted nodes always do). Thorough adds exhaustive blocks: a 2-rule schema, every clause "
            "order of ring programs with 2-4 predicates, every 3-predicate ring structure (up to renaming), every recursive rule "
            "with a test between the binding atom and the recursive atom.",
    "note": "Trusted: Coq kernel + vm_compute; the Go-proof-to-tree conversion in harness/c15 and the hand-written Datalog model "
            "(tied to the engine by C01). After fixes F9, F9b, N16, N82 (function application in a head). Known findings: N80/N81 (recorded mode under cycles), "
            "N83 (wildcard in a body atom, recorded mode), N17, F8. The identifier model (coq/Prov/ProofId.v) is not run against Go; the Go identifiers are checked per run (content <-> id).",
}
