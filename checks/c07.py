"""C07 - built-in functions and predicates obey their defining laws.

Theorems: coq/Props/C07.v about the model coq/Builtin/{Const,Fn}.v.
Correspondence: argument tuples on functional.EvalApplyFn / EvalReduceFn / builtin.Decide
(and a subset through one-rule programs) vs the model evaluated inside Coq (Run.C07.judge).
Independently of the model the laws are evaluated on Go's own outputs (law groups below),
so a violated law is reported with the concrete tuple.
"""
import glob
import json
import math
import os
import struct

from vlib.core import known_for

MIN64, MAX64 = -(1 << 63), (1 << 63) - 1
M64 = 1 << 64
P53 = 1 << 53


def wrap(z):
    return (z + (1 << 63)) % M64 - (1 << 63)


# ------------------------------------------------------------------ constants
def N(n): return ["n", n]
def Fl(bits): return ["f", bits]
def T(n): return ["t", n]
def D(n): return ["d", n]
def S(b): return ["s", bytes(b).hex()]
def By(b): return ["b", bytes(b).hex()]
def A(b): return ["a", bytes(b).hex()]
def P(a, b): return ["P", a, b]
def L(es): return ["L", list(es)]
def M(kvs): return ["M", [[k, v] for k, v in kvs]]
def St(kvs): return ["S", [[k, v] for k, v in kvs]]


def raw(c):
    return bytes.fromhex(c[1])


def fbits(x):
    return struct.unpack("<q", struct.pack("<d", x))[0]


def bits_float(b):
    return struct.unpack("<d", struct.pack("<q", b))[0]


def fnv64(b):
    h = 14695981039346656037
    for x in b:
        h = (h * 1099511628211) % M64
        h ^= x
    return h


def szudzik(a, b):
    return (a * a + a + b) % M64 if a >= b else (b * b + a) % M64


SHAPE_CODE = {"P": 7, "L": 8, "M": 9, "S": 10}


def cell_hash(tag, a_hash, b_hash):
    return szudzik((a_hash << SHAPE_CODE[tag]) % M64, b_hash)


def py_hash(c, literal=False):
    """Constant.Hash() recomputed in Python (used to keep hash-equal map keys - finding N9 -
    out of the main stream). Maps/structs given as input are hashed in canonical order."""
    t = c[0]
    if t in "nftd":
        return c[1] % M64
    if t in "sba":
        return fnv64(raw(c))
    if t == "P":
        return cell_hash("P", py_hash(c[1], literal), py_hash(c[2], literal))
    if t == "L":
        h = 0
        for e in reversed(c[1]):
            h = cell_hash("L", py_hash(e, literal), h)
        return h
    ents = c[1] if literal else canon_entries(c[1])
    h = 0
    for k, v in reversed(ents):
        h = cell_hash(t, cell_hash("P", py_hash(k, literal), py_hash(v, literal)), h)
    return h


def canon_entries(ents):
    """stored order of ast.Map / ast.Struct for keys with distinct hashes: descending hash"""
    return sorted(ents, key=lambda kv: -py_hash(kv[0]))


def canon(c):
    """the constant as Go stores it (maps in stored order, recursively)"""
    t = c[0]
    if t == "P":
        return ["P", canon(c[1]), canon(c[2])]
    if t == "L":
        return ["L", [canon(e) for e in c[1]]]
    if t in "MS":
        return [t, [[canon(k), canon(v)] for k, v in canon_entries(c[1])]]
    return c


# ------------------------------------------------------------------ Coq encoding
def cq_bytes(b):
    return "[" + "; ".join(str(x) for x in b) + "]"


def cq_z(n):
    return str(n) if n >= 0 else "(%d)" % n


SH = {"M": "SMap", "S": "SStruct"}


def cq(c, inp):
    """inp=True: value handed to Go as input (maps built by the model's mk_map);
    inp=False: value observed from Go (maps literally in the observed stored order)."""
    t = c[0]
    if t == "n": return "(CNum %s)" % cq_z(c[1])
    if t == "f": return "(CFloat %s)" % cq_z(c[1])
    if t == "t": return "(CTime %s)" % cq_z(c[1])
    if t == "d": return "(CDur %s)" % cq_z(c[1])
    if t == "s": return "(CStr %s)" % cq_bytes(raw(c))
    if t == "b": return "(CBytes %s)" % cq_bytes(raw(c))
    if t == "a": return "(CName %s)" % cq_bytes(raw(c))
    if t == "P": return "(CCell SPair %s %s)" % (cq(c[1], inp), cq(c[2], inp))
    if t == "L": return "(of_list [%s])" % "; ".join(cq(e, inp) for e in c[1])
    if t in "MS":
        return "(%s %s [%s])" % ("mk_map" if inp else "lit_map", SH[t],
                                 "; ".join("(%s, %s)" % (cq(k, inp), cq(v, inp)) for k, v in c[1]))
    raise ValueError(c)


def cq_obs(out):
    return "(Some %s)" % cq(out["v"], False) if "v" in out else "None"


FN = {
    "fn:list:append": "FAppend", "fn:list:contains": "FListContains", "fn:list:cons": "FCons",
    "fn:pair": "FPair", "fn:list:len": "FLen", "fn:list": "FList", "fn:map": "FMap",
    "fn:struct": "FStruct", "fn:tuple": "FTuple",
    "fn:max": "(FListRed TNum RMax)", "fn:min": "(FListRed TNum RMin)", "fn:sum": "(FListRed TNum RSum)",
    "fn:duration:max": "(FListRed TDur RMax)", "fn:duration:min": "(FListRed TDur RMin)",
    "fn:duration:sum": "(FListRed TDur RSum)",
    "fn:time:max": "(FListRed TTime RMax)", "fn:time:min": "(FListRed TTime RMin)",
    "fn:number:to_string": "FNumToStr", "fn:name:root": "FNameRoot", "fn:name:tip": "FNameTip",
    "fn:name:list": "FNameList", "fn:name:to_string": "FNameToStr", "fn:string:concat": "FConcat",
    "fn:string:replace": "FReplace", "fn:list:get": "FListGet", "fn:map:get": "FMapGet",
    "fn:struct:get": "FStructGet", "fn:time:add": "FTimeAdd", "fn:time:sub": "FTimeSub",
    "fn:duration:add": "FDurAdd", "fn:duration:mult": "FDurMult", "fn:duration:nanos": "FDurNanos",
    "fn:duration:from_nanos": "FDurFromNanos", "fn:time:from_unix_nanos": "FTimeFromNanos",
    "fn:time:to_unix_nanos": "FTimeToNanos", "fn:interval:start": "FIntervalStart",
    "fn:interval:end": "FIntervalEnd", "fn:interval:duration": "FIntervalDuration",
    "fn:div": "FDiv", "fn:mod": "FMod", "fn:mult": "FMult", "fn:plus": "FPlus", "fn:minus": "FMinus",
}
RED = {
    "fn:collect": "RCollect", "fn:collect_distinct": "RCollectDistinct", "fn:count": "RCount",
    "fn:sum": "(RNum TNum RSum)", "fn:min": "(RNum TNum RMin)", "fn:max": "(RNum TNum RMax)",
    "fn:duration:sum": "(RNum TDur RSum)", "fn:duration:min": "(RNum TDur RMin)",
    "fn:duration:max": "(RNum TDur RMax)", "fn:time:min": "(RNum TTime RMin)", "fn:time:max": "(RNum TTime RMax)",
}
PRED = {":match_pair": "PMatchPair", ":match_cons": "PMatchCons", ":match_nil": "PMatchNil",
        ":match_entry": "PMatchEntry", ":match_field": "PMatchField", ":match_prefix": "PMatchPrefix",
        ":string:starts_with": "PStartsWith", ":string:ends_with": "PEndsWith",
        ":string:contains": "PContains", ":list:member": "PListMember",
        ":within_distance": "PWithinDistance"}
for _pfx, _ty in (("", "TNum"), (":time", "TTime"), (":duration", "TDur")):
    for _o, _c in (("lt", "OLt"), ("le", "OLe"), ("gt", "OGt"), ("ge", "OGe")):
        PRED["%s:%s" % (_pfx, _o)] = "(PCmp %s %s)" % (_ty, _c)

# the theorem of Props/C07.v that covers a function / predicate (named in replays)
LAW = {}
for _f in ("fn:plus", "fn:minus", "fn:mult"):
    LAW[_f] = "plus_mult_ring (plus_assoc, plus_comm, mult_assoc, mult_comm, mult_plus_distr, neutral, plus_minus_inverse, nary_plus/mult/minus)"
for _f in ("fn:div", "fn:mod"):
    LAW[_f] = "div_mod_law, mod_sign, div_truncates, div_minint_wraps, div_by_zero_is_error, nary_div"
for _f in ("fn:pair", ":match_pair"):
    LAW[_f] = "match_pair_pair"
for _f in ("fn:list:cons", ":match_cons", ":match_nil"):
    LAW[_f] = "match_cons_cons, match_nil_nil"
for _f in ("fn:list", "fn:list:get", "fn:list:len", "fn:list:append", "fn:list:contains", ":list:member"):
    LAW[_f] = "list_get_list, list_len_list, list_member_enumerates, list_member_checks"
for _f in ("fn:map", "fn:map:get", ":match_entry", "fn:struct", "fn:struct:get", ":match_field"):
    LAW[_f] = "map_get_map, match_entry_map, map_order_irrelevant"
for _f in (":string:starts_with", ":string:ends_with", ":string:contains", "fn:string:concat",
           "fn:name:list", "fn:name:root", "fn:name:tip", ":match_prefix"):
    LAW[_f] = "starts_with_prefix, ends_with_suffix, contains_infix, concat_app, name_list_concat"
for _k in list(PRED):
    if PRED[_k].startswith("(PCmp"):
        LAW[_k] = "lt_strict_total_order, le_reflexive_closure, gt_ge_converse"
for _f in ("fn:sum", "fn:min", "fn:max", "fn:count", "fn:collect_distinct", "fn:avg", "fn:collect",
           "fn:duration:sum", "fn:duration:min", "fn:duration:max", "fn:time:min", "fn:time:max"):
    LAW["red/" + _f] = "count_perm, sum_min_max_perm, collect_distinct_perm_set, avg_perm"


def cq_case(case, out):
    k = case["k"]
    if k == "fn":
        return "(KFn %s [%s] %s)" % (FN[case["f"]], "; ".join(cq(a, True) for a in case["args"]), cq_obs(out))
    if k == "red" and case["f"] == "fn:avg":
        if "v" not in out:
            return None
        x = bits_float(out["v"][1])
        if math.isnan(x):
            m, e, nan = 0, 0, True
        elif math.isinf(x):
            m, e, nan = (1 if x > 0 else -1), 2000, False
        else:
            fr, ex = math.frexp(x)
            m, e, nan = int(fr * P53), ex - 53, False
        return "(KAvg [%s] %s %s %s)" % ("; ".join(cq_z(r[0][1]) for r in case["rows"]),
                                          "true" if nan else "false", cq_z(m), cq_z(e))
    if k == "red":
        rows = "; ".join("[%s]" % "; ".join(cq(a, True) for a in r) for r in case["rows"])
        return "(KRed %s [%s] %s)" % (RED[case["f"]], rows, cq_obs(out))
    if k == "dec":
        args = "; ".join("PVar" if a is None else "(PConst %s)" % cq(a, True) for a in case["args"])
        if "e" in out:
            obs = "DErr"
        elif not out["r"]:
            obs = "DFalse"
        else:
            obs = "(DTrue [%s])" % "; ".join("[%s]" % "; ".join(cq(v, False) for v in s) for s in out.get("sols", []))
        return "(KDec %s [%s] %s)" % (PRED[case["f"]], args, obs)
    raise ValueError(k)


# ------------------------------------------------------------------ generators
BOUND = [0, 1, -1, 2, -2, 3, -3, 7, -7, 10, 1 << 31, -(1 << 31), (1 << 31) - 1, 1 << 32, P53, -P53, P53 + 1,
         P53 - 1, -(P53 + 1), MAX64, -MAX64, MIN64, MAX64 - 1, MIN64 + 1, 1 << 62, -(1 << 62), 3037000500, -3037000500]
WORDS = [b"", b"a", b"b", b"ab", b"abc", b"aaa", b"abab", b"foo", b"bar/baz", "é".encode(), "日本".encode(),
         "naïve café".encode(), b"\xff\xfe", b"/", b"a/b", b"x y", b"\x00", "\U0001f600".encode(), b"ba", b"aab"]
PARTS = [b"a", b"b", b"foo", b"bar", "é".encode(), "日本".encode(), b"a1", b"x_y", b"true", b"z.z"]


def gen_int(rng):
    r = rng.random()
    if r < 0.45:
        return rng.choice(BOUND)
    if r < 0.7:
        return rng.randint(-20, 20)
    if r < 0.85:
        return wrap(rng.choice(BOUND) + rng.randint(-3, 3))
    return rng.randint(MIN64, MAX64)


def gen_bytes(rng):
    r = rng.random()
    if r < 0.6:
        return rng.choice(WORDS)
    if r < 0.9:
        return rng.choice(WORDS) + rng.choice(WORDS)
    return bytes(rng.randrange(256) for _ in range(rng.randint(0, 6)))


def gen_name(rng):
    return b"".join(b"/" + rng.choice(PARTS) for _ in range(rng.choice([1, 1, 2, 3, 4])))


def gen_scalar(rng):
    r = rng.random()
    if r < 0.35: return N(gen_int(rng))
    if r < 0.5: return S(gen_bytes(rng))
    if r < 0.65: return A(gen_name(rng))
    if r < 0.72: return T(gen_int(rng))
    if r < 0.79: return D(gen_int(rng))
    if r < 0.86: return Fl(fbits(rng.choice([0.0, -0.0, 1.0, 1.5, -2.25, 1e21, float("nan"), float("inf")])))
    if r < 0.9: return By(gen_bytes(rng))
    return N(rng.randint(-3, 3))


def gen_const(rng, depth=2):
    if depth <= 0 or rng.random() < 0.45:
        return gen_scalar(rng)
    r = rng.random()
    if r < 0.25:
        return P(gen_const(rng, depth - 1), gen_const(rng, depth - 1))
    if r < 0.6:
        return L([gen_const(rng, depth - 1) for _ in range(rng.randint(0, 3))])
    if r < 0.8:
        return gen_map(rng, depth - 1, "M")
    return gen_map(rng, depth - 1, "S")


def gen_map(rng, depth, tag, n=None):
    """keys with pairwise distinct hashes (duplicate / hash-equal keys are finding N9)"""
    n = rng.randint(0, 4) if n is None else n
    ents, seen = [], set()
    for _ in range(n * 3):
        if len(ents) >= n:
            break
        k = A(gen_name(rng)) if tag == "S" or rng.random() < 0.4 else gen_const(rng, min(depth, 1))
        h = py_hash(k)
        if h in seen:
            continue
        seen.add(h)
        ents.append([k, gen_const(rng, depth)])
    return [tag, ents]


def noise(rng, args):
    """occasionally break arity or a type so that the error paths are compared too"""
    r = rng.random()
    if r < 0.04 and args:
        args = list(args)
        args[rng.randrange(len(args))] = gen_const(rng, 1)
    elif r < 0.06:
        args = list(args) + [gen_const(rng, 1)]
    elif r < 0.08 and args:
        args = list(args)[:-1]
    return args


def gen_numlist(rng, mk=N):
    return L([mk(gen_int(rng)) for _ in range(rng.randint(0, 5))])


def gen_fn_case(rng):
    f = rng.choice(list(FN))
    if f in ("fn:plus", "fn:mult", "fn:minus"):
        args = [N(gen_int(rng)) for _ in range(rng.choice([0, 1, 2, 2, 3, 4]))]
    elif f == "fn:div":
        args = [N(gen_int(rng)) for _ in range(rng.choice([0, 1, 1, 2, 2, 2, 3, 4]))]
    elif f == "fn:mod":
        args = [N(gen_int(rng)), N(gen_int(rng))]
    elif f in ("fn:list", "fn:tuple"):
        args = [gen_const(rng, 1) for _ in range(rng.randint(0, 4))]
    elif f == "fn:pair":
        args = [gen_const(rng), gen_const(rng)]
    elif f == "fn:list:cons":
        args = [gen_const(rng, 1), L([gen_const(rng, 1) for _ in range(rng.randint(0, 3))]) if rng.random() < 0.9 else gen_const(rng, 1)]
    elif f in ("fn:list:append", "fn:list:contains"):
        es = [gen_const(rng, 1) for _ in range(rng.randint(0, 4))]
        args = [L(es), rng.choice(es) if es and rng.random() < 0.5 else gen_const(rng, 1)]
    elif f == "fn:list:len":
        args = [L([gen_const(rng, 1) for _ in range(rng.randint(0, 5))])]
    elif f == "fn:list:get":
        es = [gen_const(rng, 1) for _ in range(rng.randint(0, 4))]
        args = [L(es), N(rng.choice([rng.randint(-1, len(es) + 1), gen_int(rng), rng.randint(0, max(0, len(es) - 1))]))]
    elif f in ("fn:map", "fn:struct"):
        m = gen_map(rng, 1, "M" if f == "fn:map" else "S")
        args = [x for kv in m[1] for x in kv]
        if rng.random() < 0.05:
            args = args[:-1]
    elif f in ("fn:map:get", "fn:struct:get"):
        m = gen_map(rng, 1, "M" if f == "fn:map:get" else "S")
        ks = [kv[0] for kv in m[1]]
        args = [m, rng.choice(ks) if ks and rng.random() < 0.7 else gen_const(rng, 1)]
    elif f in ("fn:max", "fn:min", "fn:sum"):
        args = [gen_numlist(rng)]
    elif f.startswith("fn:duration:") and f[12:] in ("max", "min", "sum"):
        args = [gen_numlist(rng, D)]
    elif f in ("fn:time:max", "fn:time:min"):
        args = [gen_numlist(rng, T)]
    elif f == "fn:number:to_string":
        args = [N(gen_int(rng))]
    elif f.startswith("fn:name:"):
        args = [A(gen_name(rng))]
    elif f == "fn:string:concat":
        args = [rng.choice([S(gen_bytes(rng)), S(gen_bytes(rng)), A(gen_name(rng)), N(gen_int(rng))])
                for _ in range(rng.randint(0, 4))]
    elif f == "fn:string:replace":
        s = gen_bytes(rng) + gen_bytes(rng)
        old = s[rng.randrange(len(s)):][:rng.randint(1, 3)] if s and rng.random() < 0.7 else gen_bytes(rng)
        args = [S(s), S(old), S(gen_bytes(rng)), N(rng.choice([-1, 0, 1, 2, 5, gen_int(rng)]))]
    elif f == "fn:time:add":
        args = [T(gen_int(rng)), D(gen_int(rng))]
    elif f == "fn:time:sub":
        args = [T(gen_int(rng)), T(gen_int(rng))]
    elif f == "fn:duration:add":
        args = [D(gen_int(rng)), D(gen_int(rng))]
    elif f == "fn:duration:mult":
        args = [D(gen_int(rng)), N(gen_int(rng))]
    elif f == "fn:duration:nanos":
        args = [D(gen_int(rng))]
    elif f in ("fn:duration:from_nanos", "fn:time:from_unix_nanos"):
        args = [N(gen_int(rng))]
    elif f == "fn:time:to_unix_nanos":
        args = [T(gen_int(rng))]
    elif f.startswith("fn:interval:"):
        args = [P(T(gen_int(rng)), T(gen_int(rng))) if rng.random() < 0.85 else gen_const(rng, 1)]
    else:
        raise ValueError(f)
    return {"k": "fn", "f": f, "args": noise(rng, args)}


def gen_red_case(rng):
    f = rng.choice(list(RED) + ["fn:avg", "fn:sum", "fn:collect_distinct"])
    n = rng.randint(0, 7)
    if f == "fn:avg":
        # main stream: sum of absolute values <= 2^53 (beyond: finding N10)
        vals, budget = [], P53
        for _ in range(n):
            v = rng.choice([gen_int(rng), rng.randint(-1000, 1000), rng.randint(-P53, P53)])
            if abs(v) > budget:
                v = rng.randint(-min(budget, 50), min(budget, 50))
            budget -= abs(v)
            vals.append(v)
        return {"k": "red", "f": f, "nv": 1, "rows": [[N(v)] for v in vals]}
    if f == "fn:count":
        return {"k": "red", "f": f, "nv": 0, "rows": [[] for _ in range(n)]}
    if f in ("fn:collect", "fn:collect_distinct"):
        nv = rng.choice([1, 1, 2, 3])
        pool = [gen_const(rng, 1) for _ in range(3)]
        return {"k": "red", "f": f, "nv": nv, "rows": [[rng.choice(pool) for _ in range(nv)] for _ in range(n)]}
    mk = D if "duration" in f else T if "time" in f else N
    rows = [[mk(gen_int(rng))] for _ in range(n)]
    if rows and rng.random() < 0.05:
        rows[rng.randrange(len(rows))] = [gen_scalar(rng)]
    return {"k": "red", "f": f, "nv": 1, "rows": rows}


def gen_dec_case(rng):
    f = rng.choice(list(PRED))
    if PRED[f].startswith("(PCmp"):
        mk = D if "duration" in f else T if "time" in f else N
        a = gen_int(rng)
        b = rng.choice([a, a, wrap(a + 1), wrap(a - 1), gen_int(rng), gen_int(rng)])
        args = [mk(a), mk(b)]
        if rng.random() < 0.05:
            args[rng.randrange(2)] = gen_scalar(rng)
    elif f == ":within_distance":
        args = [N(gen_int(rng)), N(gen_int(rng)), N(gen_int(rng))]
    elif f == ":list:member":
        es = [gen_const(rng, 1) for _ in range(rng.randint(0, 4))]
        lst = L(es) if rng.random() < 0.9 else gen_const(rng, 1)
        args = [None if rng.random() < 0.5 else (rng.choice(es) if es and rng.random() < 0.6 else gen_const(rng, 1)), lst]
    elif f == ":match_pair":
        args = [P(gen_const(rng, 1), gen_const(rng, 1)) if rng.random() < 0.8 else gen_const(rng), None, None]
    elif f == ":match_cons":
        args = [L([gen_const(rng, 1) for _ in range(rng.randint(0, 3))]) if rng.random() < 0.85 else gen_const(rng), None, None]
    elif f == ":match_nil":
        args = [rng.choice([L([]), L([N(1)]), gen_const(rng), M([]), St([])])]
    elif f in (":match_entry", ":match_field"):
        tag = "M" if f == ":match_entry" else "S"
        m = gen_map(rng, 1, tag) if rng.random() < 0.9 else gen_const(rng)
        ks = [kv[0] for kv in m[1]] if m[0] in "MS" else []
        key = rng.choice(ks) if ks and rng.random() < 0.7 else gen_const(rng, 1)
        pat = None
        if rng.random() < 0.35:
            vs = [kv[1] for kv in m[1] if kv[0] == key] if m[0] in "MS" else []
            pat = vs[0] if vs and rng.random() < 0.6 else gen_const(rng, 1)
        args = [m, key, pat]
    elif f == ":match_prefix":
        n = gen_name(rng)
        cut = rng.choice([len(n), n.rfind(b"/"), rng.randint(1, len(n))])
        p = n[:cut] if cut > 1 and rng.random() < 0.7 else gen_name(rng)
        if len(p) <= 1 or p.endswith(b"/") or b"//" in p:
            p = gen_name(rng)
        args = [A(n) if rng.random() < 0.9 else gen_scalar(rng), A(p) if rng.random() < 0.95 else gen_scalar(rng)]
    else:  # string predicates
        s = gen_bytes(rng) + gen_bytes(rng)
        r = rng.random()
        if r < 0.25 and s: p = s[:rng.randint(0, len(s))]
        elif r < 0.5 and s: p = s[rng.randint(0, len(s)):]
        elif r < 0.75 and s:
            i = rng.randint(0, len(s)); p = s[i:rng.randint(i, len(s))]
        else: p = gen_bytes(rng)
        args = [S(s) if rng.random() < 0.93 else gen_scalar(rng), S(p) if rng.random() < 0.95 else gen_scalar(rng)]
    return {"k": "dec", "f": f, "args": args}


# ------------------------------------------------------------------ one-rule programs
INFIX = {":lt": "<", ":le": "<=", ":gt": ">", ":ge": ">="}


def prog_of(case):
    """source text of a one-rule program computing the same thing, for the subset whose
    arguments are numbers (or None)."""
    if case["k"] == "fn" and case["f"] in ("fn:plus", "fn:minus", "fn:mult", "fn:div", "fn:mod") \
            and all(a[0] == "n" for a in case["args"]):
        return "r(Z) :- Z = %s(%s)." % (case["f"], ", ".join(str(a[1]) for a in case["args"]))
    if case["k"] == "dec" and case["f"] in INFIX and all(a and a[0] == "n" for a in case["args"]) \
            and len(case["args"]) == 2:
        return "r(1) :- %d %s %d." % (case["args"][0][1], INFIX[case["f"]], case["args"][1][1])
    if case["k"] == "red" and case["f"] in ("fn:sum", "fn:min", "fn:max", "fn:count") and case["rows"] \
            and all(len(r) <= 1 and (not r or r[0][0] == "n") for r in case["rows"]):
        facts = " ".join("p(%d, %d)." % (i, r[0][1] if r else 0) for i, r in enumerate(case["rows"]))
        arg = "" if case["f"] == "fn:count" else "X"
        return "%s r(S) :- p(I, X) |> do fn:group_by(), let S = %s(%s)." % (facts, case["f"], arg)
    return None


def prog_as_single(case, out):
    """what the program run says about the single case: an output dict in the format of the
    direct call"""
    if "e" in out:
        return {"e": out["e"]}
    facts = out.get("facts", [])
    if case["k"] == "dec":
        return {"r": bool(facts), "sols": [[]]} if facts else {"r": False}
    if len(facts) == 1 and len(facts[0]) == 1:
        return {"v": facts[0][0]}
    return {"e": "no single result fact: %s" % json.dumps(facts)}


# ------------------------------------------------------------------ independent oracle
def cmp_ref(f, a, b):
    o = f.rsplit(":", 1)[1]
    return {"lt": a < b, "le": a <= b, "gt": a > b, "ge": a >= b}[o]


def tquot(x, y):
    q = abs(x) // abs(y)
    return q if (x < 0) == (y < 0) else -q


def py_ref(case):
    """what plain integer / byte-string operations say the result must be; None when this
    oracle does not cover the case. ("err",) = an error is required."""
    k, f = case["k"], case["f"]
    try:
        if k == "fn":
            a = case["args"]
            if f in ("fn:plus", "fn:mult", "fn:minus", "fn:div", "fn:mod"):
                if any(x[0] != "n" for x in a):
                    return ("err",)
                v = [x[1] for x in a]
                if f == "fn:plus": return N(wrap(sum(v)))
                if f == "fn:mult":
                    p = 1
                    for x in v: p *= x
                    return N(wrap(p))
                if f == "fn:minus":
                    if not v: return ("err",)
                    return N(wrap(-v[0])) if len(v) == 1 else N(wrap(v[0] - sum(v[1:])))
                if f == "fn:mod":
                    if len(v) != 2 or v[1] == 0: return ("err",)
                    return N(v[0] - tquot(v[0], v[1]) * v[1])
                if not v: return ("err",)
                if len(v) == 1: v = [1] + v
                if any(d == 0 for d in v[1:]): return ("err",)
                acc = v[0]
                for d in v[1:]: acc = wrap(tquot(acc, d))
                return N(acc)
            if f == "fn:string:concat" and all(x[0] in "sa" for x in a):
                return S(b"".join(raw(x) for x in a))
            if f == "fn:pair" and len(a) == 2: return canon(P(a[0], a[1]))
            if f == "fn:list": return canon(L(a))
            if f == "fn:list:len" and len(a) == 1 and a[0][0] == "L": return N(len(a[0][1]))
            if f == "fn:list:get" and len(a) == 2 and a[0][0] == "L" and a[1][0] == "n":
                return canon(a[0][1][a[1][1]]) if 0 <= a[1][1] < len(a[0][1]) else ("err",)
            if f in ("fn:map:get", "fn:struct:get") and len(a) == 2 and a[0][0] == ("M" if f == "fn:map:get" else "S"):
                vs = [kv[1] for kv in a[0][1] if canon(kv[0]) == canon(a[1])]
                return canon(vs[0]) if vs else ("err",)
            if f == "fn:name:list" and len(a) == 1 and a[0][0] == "a":
                return L([A(b"/" + p) for p in raw(a[0])[1:].split(b"/")])
        if k == "dec":
            a = case["args"]
            if PRED[f].startswith("(PCmp") and len(a) == 2:
                tag = "d" if "duration" in f else "t" if "time" in f else "n"
                if any(x is None or x[0] != tag for x in a): return ("err",)
                return ("bool", cmp_ref(f, a[0][1], a[1][1]))
            if f in (":string:starts_with", ":string:ends_with", ":string:contains") and len(a) == 2 \
                    and all(x and x[0] == "s" for x in a):
                s, p = raw(a[0]), raw(a[1])
                return ("bool", s.startswith(p) if f.endswith("starts_with") else s.endswith(p) if f.endswith("ends_with") else p in s)
            if f == ":match_pair" and a[0][0] == "P" and a[1:] == [None, None]:
                return ("sols", [[canon(a[0][1]), canon(a[0][2])]])
            if f == ":list:member" and a[0] is None and a[1][0] == "L" and a[1][1]:
                return ("sols", [[canon(e)] for e in a[1][1]])
        if k == "red":
            rows = case["rows"]
            if f == "fn:count": return N(len(rows))
            tag = "d" if "duration" in f else "t" if "time" in f else "n"
            base = f.rsplit(":", 1)[1]
            if base in ("sum", "min", "max") and rows and all(r[0][0] == tag for r in rows):
                v = [r[0][1] for r in rows]
                return [tag, wrap(sum(v)) if base == "sum" else min(v) if base == "min" else max(v)]
    except Exception:
        return None
    return None


def agrees(ref, out):
    if ref == ("err",): return "e" in out
    if isinstance(ref, tuple) and ref[0] == "bool":
        return "e" not in out and bool(out.get("r")) == ref[1]
    if isinstance(ref, tuple) and ref[0] == "sols":
        return "e" not in out and out.get("r") and out.get("sols") == ref[1]
    return out.get("v") == ref


# ------------------------------------------------------------------ laws on Go's own outputs
def app(f, *args):
    return {"f": f, "args": list(args)}


def fncase(f, *args):
    return {"k": "fn", "f": f, "args": list(args)}


def val(o):
    return o.get("v")


def law_groups(rng, n):
    """each group: (law name, input description, [cases], check(outs) -> None | message)"""
    groups = []
    for _ in range(n):
        kind = rng.choice(["divmod", "divmod", "ring", "order", "inverse", "map", "strings", "perm", "nary_div"])
        if kind == "divmod":
            x, y = gen_int(rng), rng.choice([gen_int(rng), gen_int(rng), 0, -1, 1])
            X, Y = N(x), N(y)
            cases = [fncase("fn:plus", app("fn:mult", app("fn:div", X, Y), Y), app("fn:mod", X, Y)),
                     fncase("fn:mod", X, Y), fncase("fn:div", X, Y)]

            def chk(o, x=x, y=y):
                if y == 0:
                    return None if all("e" in r for r in o) else "division by zero is not reported as an error"
                if any("e" in r for r in o):
                    return "error for a non-zero divisor"
                if val(o[0]) != N(x):
                    return "x = (x div y)*y + (x mod y) fails: recomposed %s" % val(o[0])
                r, q = val(o[1])[1], val(o[2])[1]
                if not (r == 0 or (r < 0) == (x < 0)) or abs(r) >= abs(y):
                    return "x mod y = %d has the wrong sign or magnitude" % r
                if q != wrap(tquot(x, y)):
                    return "x div y = %d is not the truncated quotient" % q
                return None
            groups.append(("div_mod_law", {"x": x, "y": y}, cases, chk))
        elif kind == "nary_div":
            v = [gen_int(rng) for _ in range(rng.choice([1, 3, 3, 4]))]
            if rng.random() < 0.5:
                v[0] = rng.choice([1, -1, 2, 5, 0]) if len(v) > 1 else rng.choice([1, -1, 2, -2, 0, MIN64])
            if len(v) > 1 and rng.random() < 0.4:
                v[rng.randrange(1, len(v))] = 0
            if len(v) == 1:
                cases = [fncase("fn:div", N(v[0])), fncase("fn:div", N(1), N(v[0]))]
            else:
                nest = N(v[0])
                for d in v[1:]:
                    nest = app("fn:div", nest, N(d))
                cases = [fncase("fn:div", *[N(x) for x in v]), dict(fncase("fn:plus", nest))]

            def chk(o, v=v):
                if ("e" in o[0]) != ("e" in o[1]) or val(o[0]) != val(o[1]):
                    return "n-ary / unary fn:div differs from the iterated binary division: %s vs %s" % (o[0], o[1])
                return None
            groups.append(("nary_div", {"args": v}, cases, chk))
        elif kind == "ring":
            a, b, c = gen_int(rng), gen_int(rng), gen_int(rng)
            A_, B_, C_ = N(a), N(b), N(c)
            cases = [fncase("fn:plus", A_, B_), fncase("fn:plus", B_, A_),
                     fncase("fn:plus", app("fn:plus", A_, B_), C_), fncase("fn:plus", A_, app("fn:plus", B_, C_)),
                     fncase("fn:plus", A_, B_, C_),
                     fncase("fn:mult", A_, B_), fncase("fn:mult", B_, A_),
                     fncase("fn:mult", app("fn:mult", A_, B_), C_), fncase("fn:mult", A_, app("fn:mult", B_, C_)),
                     fncase("fn:mult", A_, B_, C_),
                     fncase("fn:mult", A_, app("fn:plus", B_, C_)),
                     fncase("fn:plus", app("fn:mult", A_, B_), app("fn:mult", A_, C_)),
                     fncase("fn:plus", A_, N(0)), fncase("fn:mult", A_, N(1)),
                     fncase("fn:plus", A_, app("fn:minus", A_)), fncase("fn:minus", A_, A_),
                     fncase("fn:minus", A_, B_), fncase("fn:plus", A_, app("fn:minus", B_))]

            def chk(o, a=a):
                if any("e" in r for r in o): return "arithmetic on numbers returned an error"
                v = [val(r)[1] for r in o]
                if v[0] != v[1]: return "plus is not commutative"
                if not (v[2] == v[3] == v[4]): return "plus is not associative"
                if v[5] != v[6]: return "mult is not commutative"
                if not (v[7] == v[8] == v[9]): return "mult is not associative"
                if v[10] != v[11]: return "mult does not distribute over plus"
                if v[12] != a or v[13] != a: return "0 / 1 are not neutral"
                if v[14] != 0 or v[15] != 0: return "minus is not the additive inverse"
                if v[16] != v[17]: return "a - b differs from a + (-b)"
                return None
            groups.append(("plus_mult_ring", {"a": a, "b": b, "c": c}, cases, chk))
        elif kind == "order":
            pfx, mk = rng.choice([("", N), (":time", T), (":duration", D)])
            a = gen_int(rng)
            b = rng.choice([a, wrap(a + 1), gen_int(rng)])
            c = rng.choice([b, wrap(b + 1), gen_int(rng)])
            def d(o, x, y, pfx=pfx, mk=mk): return {"k": "dec", "f": "%s:%s" % (pfx, o), "args": [mk(x), mk(y)]}
            cases = [d("lt", a, b), d("lt", b, a), d("le", a, b), d("gt", a, b), d("ge", a, b),
                     d("lt", b, c), d("lt", a, c), d("lt", a, a), d("le", a, a), d("gt", b, a), d("ge", b, a), d("le", b, a)]

            def chk(o, a=a, b=b):
                if any("e" in r for r in o): return "comparison of two values of the type returned an error"
                t = [bool(r["r"]) for r in o]
                if [t[0], a == b, t[1]].count(True) != 1: return "lt is not total/asymmetric (trichotomy fails)"
                if t[7]: return "lt is not irreflexive"
                if t[0] and t[5] and not t[6]: return "lt is not transitive"
                if t[2] != (t[0] or a == b) or not t[8]: return "le is not the reflexive closure of lt"
                if t[3] != t[1] or t[9] != t[0]: return "gt is not the converse of lt"
                if t[4] != t[11] or t[10] != t[2]: return "ge is not the converse of le"
                return None
            groups.append(("lt_strict_total_order", {"type": pfx or "number", "a": a, "b": b, "c": c}, cases, chk))
        elif kind == "inverse":
            a, b = gen_const(rng, 1), gen_const(rng, 1)
            es = [gen_const(rng, 1) for _ in range(rng.randint(0, 4))]
            i = rng.randint(0, max(0, len(es) - 1))
            cases = [{"k": "dec", "f": ":match_pair", "args": [app("fn:pair", a, b), None, None]},
                     {"k": "dec", "f": ":match_cons", "args": [app("fn:list:cons", a, app("fn:list", *es)), None, None]},
                     fncase("fn:list", *es),
                     fncase("fn:list:get", app("fn:list", *es), N(i)),
                     {"k": "dec", "f": ":list:member", "args": [None, app("fn:list", *es)]},
                     fncase("fn:list:len", app("fn:list", *es)),
                     {"k": "dec", "f": ":match_nil", "args": [app("fn:list")]},
                     {"k": "dec", "f": ":list:member", "args": [a, app("fn:list", *es)]},
                     fncase("fn:list:get", app("fn:list:append", app("fn:list", *es), a), N(len(es)))]

            def chk(o, a=a, b=b, es=es, i=i):
                ca, cb, ces = canon(a), canon(b), [canon(e) for e in es]
                if o[0].get("sols") != [[ca, cb]]: return "match_pair(fn:pair(a,b)) does not return (a,b)"
                if o[1].get("sols") != [[ca, ["L", ces]]]: return "match_cons(fn:list:cons(h,t)) does not return (h,t)"
                if val(o[2]) != ["L", ces]: return "fn:list does not hold its arguments"
                if es and val(o[3]) != ces[i]: return "fn:list:get(fn:list(..), i) is not the i-th argument"
                if not es and "e" not in o[3]: return "fn:list:get on the empty list is not an error"
                if (o[4].get("sols") or []) != [[e] for e in ces]: return "list member does not enumerate exactly the elements"
                if val(o[5]) != N(len(es)): return "fn:list:len is not the number of elements"
                if not o[6].get("r"): return "match_nil(fn:list()) fails"
                if bool(o[7].get("r")) != (ca in ces): return "list member test differs from membership"
                if val(o[8]) != ca: return "the element appended is not the last"
                return None
            groups.append(("constructor_accessor_inverse", {"a": a, "b": b, "list": es, "i": i}, cases, chk))
        elif kind == "map":
            tag = rng.choice("MS")
            m = gen_map(rng, 1, tag, n=rng.randint(1, 4))
            flat = [x for kv in m[1] for x in kv]
            ctor, get, mt = ("fn:map", "fn:map:get", ":match_entry") if tag == "M" else ("fn:struct", "fn:struct:get", ":match_field")
            other = A(b"/not/a/key/of/it")
            rev = [x for kv in reversed(m[1]) for x in kv]
            cases = [fncase(ctor, *flat), fncase(ctor, *rev), fncase(get, app(ctor, *flat), other),
                     {"k": "dec", "f": mt, "args": [app(ctor, *flat), other, None]}]
            for k_, v_ in m[1]:
                cases.append(fncase(get, app(ctor, *flat), k_))
                cases.append({"k": "dec", "f": mt, "args": [app(ctor, *flat), k_, None]})

            def chk(o, m=m):
                if val(o[0]) is None or val(o[0]) != val(o[1]): return "the map depends on the argument order"
                if sorted(json.dumps(e) for e in val(o[0])[1]) != sorted(json.dumps([canon(k), canon(v)]) for k, v in m[1]):
                    return "the map does not hold exactly the given entries"
                if "e" not in o[2] or o[3].get("r"): return "a key that was not put in is found"
                for j, (k_, v_) in enumerate(m[1]):
                    if val(o[4 + 2 * j]) != canon(v_): return "get(map, k) is not the value put in"
                    if o[5 + 2 * j].get("sols") != [[canon(v_)]]: return "match_entry/field does not return the value put in"
                return None
            groups.append(("map_get_map", {"map": m}, cases, chk))
        elif kind == "strings":
            s, p = gen_bytes(rng) + gen_bytes(rng), gen_bytes(rng)
            if rng.random() < 0.5 and s:
                i = rng.randint(0, len(s)); p = s[i:rng.randint(i, len(s))]
            nm = gen_name(rng)
            def sp(f, x, y): return {"k": "dec", "f": f, "args": [S(x), S(y)]}
            cases = [fncase("fn:string:concat", S(s), S(p)), sp(":string:starts_with", s, p),
                     sp(":string:ends_with", s, p), sp(":string:contains", s, p),
                     sp(":string:starts_with", s + p, s), sp(":string:ends_with", s + p, p), sp(":string:contains", p + s + p, s),
                     fncase("fn:name:list", A(nm)), fncase("fn:name:root", A(nm)), fncase("fn:name:tip", A(nm)),
                     fncase("fn:name:to_string", A(nm))]

            def chk(o, s=s, p=p, nm=nm):
                if val(o[0]) != S(s + p): return "concat is not concatenation"
                if bool(o[1].get("r")) != s.startswith(p): return "starts_with differs from prefix"
                if bool(o[2].get("r")) != s.endswith(p): return "ends_with differs from suffix"
                if bool(o[3].get("r")) != (p in s): return "contains differs from infix"
                if not (o[4].get("r") and o[5].get("r") and o[6].get("r")): return "a ++ b does not start with a / end with b / contain"
                parts = [raw(e) for e in val(o[7])[1]]
                if b"".join(parts) != nm or any(not x.startswith(b"/") or b"/" in x[1:] for x in parts):
                    return "name:list parts do not concatenate to the name"
                if raw(val(o[8])) != parts[0] or raw(val(o[9])) != parts[-1]: return "root/tip are not the first/last part"
                if val(o[10]) != S(nm): return "name:to_string is not the name's text"
                return None
            groups.append(("string_functions", {"s": s.hex(), "p": p.hex(), "name": nm.hex()}, cases, chk))
        else:  # perm
            c = gen_red_case(rng)
            rows2 = list(c["rows"]); rng.shuffle(rows2)
            rows3 = list(reversed(c["rows"]))
            cases = [c, dict(c, rows=rows2), dict(c, rows=rows3)]

            def chk(o, c=c):
                if c["f"] == "fn:collect":
                    return None
                if c["f"] == "fn:collect_distinct":
                    if any("v" not in r for r in o): return "collect_distinct returned an error"
                    sets = [sorted(json.dumps(e) for e in val(r)[1]) for r in o]
                    if any(len(s_) != len(set(s_)) for s_ in sets): return "collect_distinct returns a duplicate"
                    if not (sets[0] == sets[1] == sets[2]): return "collect_distinct read as a set depends on the row order"
                    return None
                if not (o[0] == o[1] == o[2]) and not all("e" in r for r in o):
                    return "%s depends on the row order: %s / %s / %s" % (c["f"], o[0], o[1], o[2])
                return None
            groups.append(("reducer_permutation_invariance", {"f": c["f"], "rows": c["rows"], "shuffled": rows2}, cases, chk))
    return groups


# ------------------------------------------------------------------ fn:avg over large integers
# PROPERTY-LEVEL ORACLE on Go's own output (not the Coq model: avg_perm_invariant keeps its
# hypothesis sum |x| <= 2^53, and WHICH float within the tolerance is returned depends on the row
# order - that is the known finding N10, probed separately and not judged here).
# What must hold despite N10's rounding, for n <= 20 integer rows x_i with M = max |x_i|:
# evalAvg converts each row to float64 (relative error <= u = 2^-53 each, absolute <= u*M), adds them
# one by one (n-1 roundings, each <= u * |partial sum| <= u * n*M*(1+O(u)), so the computed sum is off
# by <= (n-1)*u*n*M; the standard bound |fl(sum) - sum| <= (n-1) u sum|x_i| + O(u^2)), and divides
# once (one more rounding, <= u * |mean| <= u*M). After the division by n the absolute error of the
# result is <= u*M + (n-1)*u*M + u*M = (n+1)*u*M + O(u^2). The tolerance used is twice that first-order
# bound rounded up, AVG_TOL(n, M) = 2*(n+2)*2^-53*M (<= 44 ulps of M for n = 20), compared exactly
# in rational arithmetic. A wrong accumulator (int64 wrap-around, 32-bit truncation, a dropped or
# doubled row, division by n+-1 for large values) is off by a constant fraction of M.
AVG_U_DEN = 1 << 53


def avg_tol(vals):
    from fractions import Fraction
    return Fraction(2 * (len(vals) + 2) * max(abs(v) for v in vals), AVG_U_DEN)


def gen_avg_large(rng):
    """integer groups for fn:avg with values up to +-MaxInt64: equal boundary values, groups whose
    exact sum leaves int64 (both signs), mixed signs that cancel, boundary values next to small ones"""
    big = [MAX64, MAX64 - 1, MIN64, MIN64 + 1, 1 << 62, -(1 << 62), (1 << 62) + 1, 3 << 61, -(3 << 61),
           1 << 61, 1 << 60, -(1 << 60), P53 + 1, -(P53 + 1), 1 << 54, (1 << 63) - (1 << 10)]
    n = rng.choice([1, 2, 2, 3, 3, 4, 5, 7, 10, 20])
    r = rng.random()
    if r < 0.2:        # equal values
        vals = [rng.choice(big + [rng.randint(MIN64, MAX64)])] * n
    elif r < 0.45:     # one sign, sum overflows int64 as soon as n >= 2 or 3
        sg = rng.choice([1, -1])
        vals = [sg * rng.choice([MAX64, 1 << 62, 3 << 61, rng.randint(1 << 61, MAX64)]) for _ in range(n)]
    elif r < 0.65:     # mixed signs
        vals = [rng.choice(big + [rng.randint(MIN64, MAX64)]) for _ in range(n)]
    elif r < 0.8:      # uniformly random int64
        vals = [rng.randint(MIN64, MAX64) for _ in range(n)]
    elif r < 0.9:      # large next to small
        vals = [rng.choice([rng.choice(big), rng.randint(-1000, 1000), gen_int(rng)]) for _ in range(n)]
    else:              # just beyond 2^53 .. 2^56
        vals = [rng.choice([1, -1]) * rng.randint(P53, 1 << 56) for _ in range(n)]
    return vals


def avg_case(vals):
    return {"k": "red", "f": "fn:avg", "nv": 1, "rows": [[N(v)] for v in vals]}


def avg_prog(vals):
    facts = " ".join("p(%d, %d)." % (i, v) for i, v in enumerate(vals))
    return {"k": "prog", "src": "%s r(S) :- p(I, X) |> do fn:group_by(), let S = fn:avg(X)." % facts, "pred": "r"}


def judge_avg_large(vals, out):
    """None | message; out is the harness's output dict for the group"""
    from fractions import Fraction
    if "v" not in out or out["v"][0] != "f":
        return "fn:avg over integers did not return a float64: %s" % json.dumps(out)
    x = bits_float(out["v"][1])
    if math.isnan(x) or math.isinf(x):
        return "fn:avg over %d integers is %r" % (len(vals), x)
    fx, tol = Fraction(x), avg_tol(vals)
    lo, hi = min(vals), max(vals)
    if fx < lo - tol or fx > hi + tol:
        return "the average %r lies outside [min, max] = [%d, %d] of the group (tolerance %s)" % (x, lo, hi, float(tol))
    if lo == hi and abs(fx - lo) > tol:
        return "the average %r of %d equal values %d is not that value (tolerance %s)" % (x, len(vals), lo, float(tol))
    mean = Fraction(sum(vals), len(vals))
    if abs(fx - mean) > tol:
        return "the average %r differs from the exact mean %s (= %r) by more than the float64 summation tolerance %s" % (
            x, mean, float(mean), float(tol))
    return None



# ------------------------------------------------------------------ exhaustive block
def exhaustive_cases():
    """every pair / triple over a set of boundary integers for the binary arithmetic
    functions and comparisons, unary and ternary div"""
    pts = [0, 1, -1, 2, -2, 3, -3, 7, P53, -P53, P53 + 1, 1 << 31, -(1 << 31), 1 << 32, 3037000500,
           MAX64, MIN64, MAX64 - 1, MIN64 + 1, 1 << 62, -(1 << 62)]
    cases = []
    for a in pts:
        cases.append(fncase("fn:div", N(a)))
        cases.append(fncase("fn:minus", N(a)))
        for b in pts:
            for f in ("fn:plus", "fn:minus", "fn:mult", "fn:div", "fn:mod"):
                cases.append(fncase(f, N(a), N(b)))
            for pfx, mk in (("", N), (":time", T), (":duration", D)):
                for o in ("lt", "le", "gt", "ge"):
                    cases.append({"k": "dec", "f": "%s:%s" % (pfx, o), "args": [mk(a), mk(b)]})
    small = [0, 1, -1, 2, -3, 7, MIN64, MAX64]
    for a in small:
        for b in small:
            for c in small:
                cases.append(fncase("fn:div", N(a), N(b), N(c)))
                cases.append(fncase("fn:plus", N(a), N(b), N(c)))
                cases.append(fncase("fn:mult", N(a), N(b), N(c)))
                cases.append({"k": "dec", "f": ":within_distance", "args": [N(a), N(b), N(c)]})
    return cases


# ------------------------------------------------------------------ probes
def probes(ck):
    for k in known_for("C07"):
        if k["id"] == "N10":
            a = {"k": "red", "f": "fn:avg", "nv": 1, "rows": [[N(P53)], [N(1)], [N(-P53)], [N(1)]]}
            b = dict(a, rows=[[N(P53)], [N(-P53)], [N(1)], [N(1)]])
            o = ck.run_go("c07", [a, b])
            if o[0].get("out") != o[1].get("out"):
                ck.known("N10 fn:avg over integers whose partial sums leave +-2^53 depends on the row order "
                         "(rows 2^53,1,-2^53,1 give %s, the same rows reordered give %s)"
                         % (bits_float(o[0]["out"]["v"][1]), bits_float(o[1]["out"]["v"][1])))


# ------------------------------------------------------------------ the check
_reported = set()


def classify(ck, case, out, via):
    """a case on which Go and the model disagree"""
    key = json.dumps([case, via], sort_keys=True)
    if key in _reported:
        return None
    _reported.add(key)
    lawkey = ("red/" + case["f"]) if case["k"] == "red" else case["f"]
    law = LAW.get(lawkey)
    ref = py_ref(case)
    term = cq_case(case, out)
    rep = {"property": "C07", "case": case, "via": via, "impl": out,
           "model": ck.coq_show("C07", model_expr(case)), "law": law,
           "independent_oracle": None if ref is None else json.dumps(ref)}
    if ref is not None and agrees(ref, out):
        rep["kind"] = "correspondence model/implementation broken: the implementation agrees with the plain-operation oracle, the model does not"
        rep["no_longer_checks"] = "correspondence Run.C07.judge (coq/Builtin/Fn.v vs functional/builtin); theorems: %s" % law
        ck.violation(rep, "no-failing-input-found")
    elif law is not None:
        rep["kind"] = "the implementation's result differs from the model for which [%s] is proved%s" % (
            law, "" if ref is None else " and from the plain-operation oracle")
        ck.violation(rep)
    else:
        rep["kind"] = "model/implementation disagree on a function outside the listed laws"
        rep["no_longer_checks"] = "correspondence Run.C07.judge on %s" % case["f"]
        ck.violation(rep, "no-failing-input-found")
    return term


def model_expr(case):
    k = case["k"]
    if k == "fn":
        return "model_fn %s [%s]" % (FN[case["f"]], "; ".join(cq(a, True) for a in case["args"]))
    if k == "red" and case["f"] == "fn:avg":
        return "model_avg [%s]" % "; ".join(cq_z(r[0][1]) for r in case["rows"])
    if k == "red":
        return "model_red %s [%s]" % (RED[case["f"]], "; ".join("[%s]" % "; ".join(cq(a, True) for a in r) for r in case["rows"]))
    return "model_dec %s [%s]" % (PRED[case["f"]], "; ".join("PVar" if a is None else "(PConst %s)" % cq(a, True) for a in case["args"]))


def judge_cases(ck, cases, outs, pcases, pouts):
    """judge direct calls and program runs in one Coq batch;
    returns (#agree, #unmodelled, #disagree, #program agree, #program disagree)"""
    terms, idx = [], []
    allc = [(c, o, "direct call") for c, o in zip(cases, outs)] + [(c, o, "one-rule program") for c, o in zip(pcases, pouts)]
    for i, (c, o, via) in enumerate(allc):
        if "out" not in o:
            if len(ck.violations) < 5:
                ck.violation({"property": "C07", "kind": "panic / harness failure on an argument tuple", "case": c, "via": via, "impl": o})
            continue
        t = cq_case(c, o["out"])
        if t is None:      # fn:avg returned an error
            if len(ck.violations) < 5:
                ck.violation({"property": "C07", "kind": "fn:avg over integers returned an error", "case": c, "via": via, "impl": o})
            continue
        terms.append(t)
        idx.append(i)
    verdicts = ck.run_coq("C07", "judge", terms, shard=max(500, len(terms) // 16 + 1))
    agree = unmod = dis = pa = pd = 0
    for i, v in zip(idx, verdicts):
        c, o, via = allc[i]
        prog = via != "direct call"
        if v == 0:
            agree, pa = agree + (not prog), pa + prog
        elif v == 3:
            unmod += 1
        else:
            dis, pd = dis + (not prog), pd + prog
            if len(ck.violations) < 5:
                classify(ck, c, o["out"], via)
    return agree, unmod, dis, pa, pd


def run(ck):
    ck.obligations()
    ck.build_harness()
    rng = ck.rng
    # ---- corpus first
    corpus = []
    for path in sorted(glob.glob(os.path.join(os.path.dirname(__file__), "..", "corpus", "C07", "*.json"))):
        corpus += json.load(open(path))["cases"]
    # ---- main stream
    n = ck.n(3000, 60000)
    stream = []
    for _ in range(n):
        r = rng.random()
        stream.append(gen_fn_case(rng) if r < 0.55 else gen_dec_case(rng) if r < 0.82 else gen_red_case(rng))
    exhaustive = []
    if not ck.quick:
        exhaustive = exhaustive_cases()
    cases = corpus + stream + exhaustive
    ck.log("generated %d cases" % len(cases))
    outs = ck.run_go("c07", cases)
    # ---- the same through one-rule programs (subset with number arguments)
    pc, psrc = [], []
    for c in stream[:ck.n(6000, 40000)] + corpus:
        src = prog_of(c)
        if src is not None and len(pc) < ck.n(400, 4000):
            pc.append(c)
            psrc.append({"k": "prog", "src": src, "pred": "r"})
    pouts = ck.run_go("c07", psrc)
    pouts2 = []
    for c, o in zip(pc, pouts):
        pouts2.append({"out": prog_as_single(c, o["out"])} if "out" in o else o)
    ck.log("go done")
    agree, unmod, dis, pa, pd = judge_cases(ck, cases, outs, pc, pouts2)
    ck.log("model judged: agree %d, outside model %d, disagree %d; programs: agree %d, disagree %d"
           % (agree, unmod, dis, pa, pd))
    # ---- laws evaluated on Go's own outputs
    groups = law_groups(rng, ck.n(800, 12000))
    flat = [c for g in groups for c in g[2]]
    fouts = ck.run_go("c07", flat)
    ck.log("law groups run: %d groups, %d calls" % (len(groups), len(flat)))
    pos, law_counts, law_fail = 0, {}, 0
    for name, desc, gcases, chk in groups:
        o = fouts[pos:pos + len(gcases)]
        pos += len(gcases)
        law_counts[name] = law_counts.get(name, 0) + 1
        if any("out" not in r for r in o):
            msg = "panic: %s" % [r for r in o if "out" not in r][0]
        else:
            try:
                msg = chk([r["out"] for r in o])
            except Exception as ex:   # malformed output is a failure of the law too
                msg = "unexpected output shape (%r): %s" % (ex, o)
        if msg:
            law_fail += 1
            if len(ck.violations) < 5:
                ck.violation({"property": "C07", "kind": "law violated on the implementation's own outputs",
                              "law": name, "input": desc, "why": msg, "cases": gcases,
                              "impl_outputs": o})
    # ---- fn:avg over large integers (inside N10's trigger region): property-level oracle on Go's output
    avg_groups = []
    for path in sorted(glob.glob(os.path.join(os.path.dirname(__file__), "..", "corpus", "C07", "*.json"))):
        avg_groups += json.load(open(path)).get("avg_large", [])
    n_avg_corpus = len(avg_groups)
    avg_groups += [gen_avg_large(rng) for _ in range(ck.n(400, 6000))]
    n_avg_prog = ck.n(40, 400)
    aouts = ck.run_go("c07", [avg_case(v) for v in avg_groups] + [avg_prog(v) for v in avg_groups[:n_avg_prog]])
    avg_fail = avg_overflow = 0
    for i, o in enumerate(aouts):
        vals = avg_groups[i] if i < len(avg_groups) else avg_groups[i - len(avg_groups)]
        via = "direct call" if i < len(avg_groups) else "one-rule program"
        if i < len(avg_groups) and not MIN64 <= sum(vals) <= MAX64:
            avg_overflow += 1
        if "out" not in o:
            msg, out = "panic / harness failure: %s" % json.dumps(o), o
        else:
            out = o["out"] if via == "direct call" else prog_as_single(avg_case(vals), o["out"])
            msg = judge_avg_large(vals, out)
        if msg:
            avg_fail += 1
            if len(ck.violations) < 5:
                ck.violation({"property": "C07", "kind": "fn:avg over large integers: property-level oracle on the "
                              "implementation's output (result within the float64 summation tolerance of the exact mean, "
                              "inside [min, max], equal values average to themselves)",
                              "law": "avg_value_large (oracle; not a Coq theorem)", "avg_large": vals, "via": via,
                              "why": msg, "impl": out, "exact_mean": str(__import__("fractions").Fraction(sum(vals), len(vals)))})
    ck.log("fn:avg over large integers: %d groups (%d with an exact sum outside int64), %d again as programs, %d failures"
           % (len(avg_groups), avg_overflow, n_avg_prog, avg_fail))
    # ---- float addition law assumed by avg_perm_invariant, sampled on the real float64
    fa = []
    for _ in range(ck.n(300, 3000)):
        a = rng.choice([rng.randint(-P53, P53), rng.choice(BOUND), rng.randint(-100, 100)])
        b = rng.choice([rng.randint(-P53, P53), rng.choice(BOUND), rng.randint(-100, 100)])
        if abs(a) <= P53 and abs(b) <= P53 and abs(a + b) <= P53:
            fa.append({"k": "fadd", "a": a, "b": b})
    for c, o in zip(fa, ck.run_go("c07", fa)):
        if not o.get("out", {}).get("r"):
            ck.violation({"property": "C07", "kind": "float64 addition is not exact on integers within +-2^53 "
                          "(hypothesis of avg_perm_invariant)", "case": c, "impl": o}, "no-failing-input-found")
            break
    probes(ck)
    byf = {}
    for c in cases:
        key = c["k"] + " " + c["f"]
        byf[key] = byf.get(key, 0) + 1
    errs = sum(1 for o in outs if "out" in o and "e" in o["out"])
    distinct = len(set(json.dumps(c, sort_keys=True) for c in cases if c.get("args") or c.get("rows")))
    cov = {"evaluations": len(cases) + len(pc) + len(flat) + len(fa) + len(aouts), "distinct_nontrivial": distinct,
           "rule": "argument tuples on EvalApplyFn/EvalReduceFn/Decide judged against the model in Coq "
                   "(corpus %d, random %d, exhaustive block %d), %d of them again through one-rule programs, "
                   "%d law groups (%d calls) judged on Go's outputs alone, %d float-addition samples; "
                   "non-trivial = at least one argument or row; distinct by JSON text"
                   % (len(corpus), len(stream), len(exhaustive), len(pc), len(groups), len(flat), len(fa)),
           "exhaustive": bool(exhaustive),
           "exhaustive_scope": "all pairs over 21 boundary integers for plus/minus/mult/div/mod and the 12 comparisons, "
                               "unary div/minus, all triples over 8 boundary integers for div/plus/mult/within_distance"
                               if exhaustive else "",
           "per_function": byf, "model_agree": agree, "outside_model": unmod, "disagreements": dis + pd,
           "go_error_results": errs, "program_cases_agree": pa, "law_groups": law_counts, "law_failures": law_fail,
           "avg_large": {"oracle": "property-level oracle on Go's output (exact rational mean in Python, tolerance "
                                   "2*(n+2)*2^-53*max|x|); not the Coq model",
                         "groups": len(avg_groups), "from_corpus": n_avg_corpus, "exact_sum_outside_int64": avg_overflow,
                         "again_as_programs": n_avg_prog, "failures": avg_fail},
           "samples": [stream[0], stream[1], stream[2], psrc[0] if psrc else None]}
    return ck.finish(cov, assumptions=[
        "model hand-written (coq/Builtin/Const.v, Fn.v); tied to functional/functional.go, builtin/builtin.go, ast/ast.go by differential evaluation only",
        "maps/structs in the main stream have keys with pairwise distinct Hash() (finding N9 otherwise)",
        "fn:avg judged by the model: sum of |x| <= 2^53 (finding N10 beyond); avg_perm_invariant assumes float64 addition exact on such integers (sampled)",
        "fn:avg beyond 2^53 (values up to +-MaxInt64, exact sums outside int64): judged by a property-level oracle on Go's output "
        "(within 2*(n+2)*2^-53*max|x| of the exact mean, inside [min,max]); the row-order dependence inside that tolerance stays finding N10",
        "float formatting, fn:string:replace with empty pattern, float reducers, time formatting/parsing: outside the model",
        "Constant.Equals is modelled as structural equality (hash is a function of the structure; C08)"])


def replay(ck, path):
    ck.build_harness()
    rep = json.load(open(path))
    if "avg_large" in rep:
        vals = rep["avg_large"]
        if rep.get("via") == "one-rule program":
            o = ck.run_go("c07", [avg_prog(vals)])[0]
            out = prog_as_single(avg_case(vals), o["out"]) if "out" in o else o
        else:
            o = ck.run_go("c07", [avg_case(vals)])[0]
            out = o.get("out", o)
        msg = judge_avg_large(vals, out)
        print("replay: fn:avg%s -> %s ; oracle: %s" % (vals, json.dumps(out), msg or "ok"))
        if msg:
            print("VIOLATION property=C07 replay=%s" % path)
            return 1
        return 0
    if "cases" in rep and "law" in rep and "case" not in rep:
        print("replay of a law group: re-run the listed cases through build/harness_c07 c07; law: %s; %s" % (rep["law"], rep.get("why")))
        outs = ck.run_go("c07", rep["cases"])
        print(json.dumps([o.get("out", o) for o in outs]))
        same = [o.get("out", o) for o in outs] == [o.get("out", o) for o in rep["impl_outputs"]]
        if same:
            print("VIOLATION property=C07 replay=%s" % path)
            return 1
        return 0
    case = rep["case"]
    if rep.get("via") == "one-rule program":
        o = ck.run_go("c07", [{"k": "prog", "src": prog_of(case), "pred": "r"}])[0]
        out = prog_as_single(case, o["out"]) if "out" in o else None
    else:
        o = ck.run_go("c07", [case])[0]
        out = o.get("out")
    if out is None:
        print("VIOLATION property=C07 replay=%s" % path)
        return 1
    v = ck.run_coq("C07", "judge", [cq_case(case, out)])[0]
    print("replay: impl %s ; judge code %d (0 agree, 1 disagree, 3 outside model)" % (json.dumps(out), v))
    if v == 1:
        print("VIOLATION property=C07 replay=%s" % path)
        return 1
    return 0


META = {
    "text": "Machine-checked theorems (coq/Props/C07.v) about a Gallina model of the built-in functions and predicates "
            "(cons-cell constants with Go's Hash(), int64 arithmetic as wrap on Z): pair/cons/list/map/struct constructor-accessor "
            "inverses, list membership enumerates exactly the elements, plus/minus/mult form the ring Z/2^64, "
            "x = (x div y)*y + x mod y with truncation and MinInt64 div -1 wrapping, division by zero is the error value, "
            "lt/le/gt/ge are one strict total order and its closure, string predicates equal prefix/suffix/infix on byte lists, "
            "count/sum/min/max/avg invariant under permutation of the rows (avg: for rows with sum |x| <= 2^53), collect_distinct up to set equality. The model is tied "
            "to functional.EvalApplyFn / EvalReduceFn / builtin.Decide on every run by evaluating generated argument tuples "
            "(boundary integers, nested structures, multi-part names, non-ASCII strings; exhaustive over boundary pairs in the "
            "thorough tier) on both sides, a subset again through one-rule programs, and the laws are evaluated directly on Go's outputs. "
            "fn:avg over integers beyond 2^53 (up to +-MaxInt64, exact sums outside int64, mixed signs) is judged by a property-level "
            "oracle on Go's output, not by a theorem: the result is within 2*(n+2)*2^-53*max|x| of the exact rational mean and inside [min, max].",
    "note": "Trusted: Coq kernel + vm_compute (primitive floats only in the judge of fn:avg and in avg_order_refuted); the hand-written "
            "model is tied to the code by sampled differential evaluation; hash-equal map keys (N9) and fn:avg beyond 2^53 (N10) "
            "are excluded from the model-judged stream and probed (N10 = row-order dependence within the float64 summation tolerance; "
            "a result outside that tolerance is reported); float formatting and time formatting are not modelled.",
}
