"""C09 - printing then parsing returns the same term, atom or clause.

Theorems: coq/Props/C09.v. Correspondence, every run:
 (a) model printer (coq/Term/Print.v, coq/Serde/Clause.v) vs Go String(), byte for byte, on every constant and atom and on the
     generated clauses without temporal syntax;
 (b) model lexer + term parser (coq/Serde/{Escape,Utf8,Lexer,Parse}.v) vs Go's parser on the printed
     texts and on near-miss mutants of them (accept / reject and the tree must agree), model
     escape / unescape vs ast.Escape / ast.Unescape on arbitrary byte strings; model clause parser (coq/Serde/ClauseParse.v) vs
     parse.Clause on the printed clauses and vs parse.Unit on clause near misses and mutants;
 (c) the Go round trip itself - parse(String(x)) structurally equal to x, constants compared after
     functional.EvalExpr - for constants, atoms, base terms with function applications (type
     expressions) and clauses with negation, (in)equalities, comparisons, transforms, temporal
     annotations and operators. (c) is the property verdict, decided on Go's own outputs.
"""
import glob
import json
import os
import re
from vlib.core import C, Raw, coq, known_for
from checks import term_common as T

MAX64, MIN64 = (1 << 63) - 1, -(1 << 63)
MS = 10 ** 6


# ------------------------------------------------------------------ encoding
def hx(b):
    return bytes(b).hex()


def cq_tables(tb, ptab):
    def ftab(d):
        return [(int(k), T.cq_bytes(bytes.fromhex(v))) for k, v in sorted(d.items(), key=lambda kv: int(kv[0]))]

    def ptabf(d):
        return [(T.cq_bytes(bytes.fromhex(k)), C("Some", int(v)) if v is not None else None)
                for k, v in sorted(d.items())]
    tb = tb or {"f": {}, "t": {}, "d": {}}
    ptab = ptab or {"pf": {}, "pt": {}, "pd": {}}
    return C("Tables", ftab(tb["f"]), ftab(tb["t"]), ftab(tb["d"]),
             ptabf(ptab["pf"]), ptabf(ptab["pt"]), ptabf(ptab["pd"]))


def cq_gterm(j):
    k = j[0]
    if k == "var":
        return C("GVar", T.cq_bytes(bytes.fromhex(j[1])))
    if k == "app":
        return C("GApply", T.cq_bytes(bytes.fromhex(j[1])), [cq_gterm(x) for x in j[2]])
    return C("GConst", T.to_coq(T.from_json(j)))


def cq_arg(t):
    if t[0] == "var":
        return C("AVar", T.cq_bytes(t[1]))
    return C("AConst", T.to_coq(t))


def cq_optvar(h):
    return C("Some", T.cq_bytes(bytes.fromhex(h))) if h is not None else None


def model_clause(c):
    """is the clause (JSON description) inside the Coq clause model? (no temporal syntax)"""
    return not c.get("no_model") and not c.get("headtime") and all(p["k"] != "temporal" for p in c["premises"] or [])


def cq_gclause_in(c):
    """JSON description of a clause (gen_clause) -> Run.C09.gclause"""
    def prem(p):
        if p["k"] in ("atom", "neg"):
            return C("GPAtom" if p["k"] == "atom" else "GPNeg", T.cq_bytes(bytes.fromhex(p["atom"]["sym"])),
                     [cq_gterm(a) for a in p["atom"]["args"]])
        return C("GPEq" if p["k"] == "eq" else "GPIneq", cq_gterm(p["l"]), cq_gterm(p["r"]))

    def stmt(st):
        return C("GStmt", cq_optvar(st["var"]), T.cq_bytes(bytes.fromhex(st["fn"][1])), [cq_gterm(a) for a in st["fn"][2]])
    return C("GClause", T.cq_bytes(bytes.fromhex(c["head"]["sym"])), [cq_gterm(a) for a in c["head"]["args"]],
             C("Some", [prem(p) for p in c["premises"]]) if c["premises"] is not None else None,
             [[stmt(st) for st in stage] for stage in c["transform"] or []])


def cq_gclause_tree(t):
    """clauseJ of harness/c09/clause.go -> Coq option gclause (None: rejected)"""
    if t is None:
        return None

    def prem(p):
        if p[0] in ("atom", "neg"):
            return C("GPAtom" if p[0] == "atom" else "GPNeg", T.cq_bytes(bytes.fromhex(p[1][1])), [cq_gterm(a) for a in p[1][2]])
        return C("GPEq" if p[0] == "eq" else "GPIneq", cq_gterm(p[1]), cq_gterm(p[2]))

    def stmt(st):
        return C("GStmt", cq_optvar(st["var"]), T.cq_bytes(bytes.fromhex(st["fn"][1])), [cq_gterm(a) for a in st["fn"][2]])
    return C("Some", C("GClause", T.cq_bytes(bytes.fromhex(t["head"][1])), [cq_gterm(a) for a in t["head"][2]],
                       C("Some", [prem(p) for p in t["prem"]]) if t["prem"] is not None else None,
                       [[stmt(st) for st in stage] for stage in t["trans"]]))


def opt_bytes(o):
    """outcome of c09_unescape / c09_escape -> Coq option (list Z); a panic counts as an error"""
    if "out" in o and o["out"].get("ok"):
        return C("Some", T.cq_bytes(bytes.fromhex(o["out"]["r"])))
    return None


# ---------------------------------------------------------------- generators
SPECIAL_CHARS = [0x22, 0x27, 0x5C, 0x0A, 0x09, 0x0D, 0x00, 0x01, 0x1F, 0x20, 0x7F, 0x60, 0x2C, 0x3A, 0x5D, 0x7D,
                 0x29, 0x2F, 0x2D, 0x2E, 0x23, 0x6E, 0x78, 0x75, 0x7B]


def gen_string(rng):
    r = rng.random()
    if r < 0.3:
        return T.gen_string_bytes(rng)
    n = rng.choice([0, 1, 2, 3, 5, 8])
    out = []
    for _ in range(n):
        q = rng.random()
        if q < 0.45:
            out.append(chr(rng.choice(SPECIAL_CHARS)))
        elif q < 0.6:
            out.append(chr(rng.randrange(0x20)))          # every control character
        elif q < 0.8:
            out.append(chr(rng.randint(0x20, 0x7E)))
        elif q < 0.9:
            out.append(chr(rng.choice(T.CODEPOINTS)))
        else:
            cp = rng.randint(0x80, 0x10FFFF)
            out.append(chr(0xE000 if 0xD800 <= cp <= 0xDFFF else cp))
    return "".join(out).encode("utf-8")


def gen_scalar(rng):
    r = rng.random()
    if r < 0.25:
        return ("str", gen_string(rng))
    if r < 0.37:
        return ("bytes", bytes(rng.choice(SPECIAL_CHARS + [0x80, 0xFF, 0xC3]) if rng.random() < 0.5 else rng.randrange(256)
                               for _ in range(rng.choice([0, 1, 2, 3, 6]))))
    return T.gen_scalar(rng, 0.0)


def gen_const(rng, depth):
    """valid domain only (lexer-valid names, finite floats), never the N9 trigger"""
    for _ in range(50):
        if depth <= 0 or rng.random() < 0.35:
            t = gen_scalar(rng)
        else:
            t = T.gen_const(rng, depth, 0.0)
            if rng.random() < 0.5:
                # a sign right after the opening bracket (N18)
                lead = rng.choice([("num", -1), ("num", MIN64), ("f64", T.f64_bits(-0.0)), ("f64", T.f64_bits(-2.5)), ("num", -7)])
                q = rng.random()
                if q < 0.4:
                    t = ("list", [lead, t])
                elif q < 0.7:
                    t = ("map", [(lead, t)])
                elif q < 0.85:
                    t = ("list", [("list", [lead]), t])
                else:
                    t = ("pair", lead, t)
        if T.valid(t) and not T.dup_keys(t) and T.size(t) <= 60:
            return t
    return ("num", 0)


SAFE_PREDS = [b"p", b"q", b"r", b"foo", b"bar_1", b"a.b", b"p:q", b"b", b"n", b"x9", b"lets", b"dot", b"nowhere",
              b"bounded", b":lt", b":le", b":gt", b":ge", b":match_prefix", b"t", b"u", b"e1"]
VARS = [b"X", b"Y", b"Z", b"Xs", b"X1", b"Tmp", b"_", b"A", b"Nd"]
FNS = [b"fn:plus", b"fn:sum", b"fn:group_by", b"fn:List", b"fn:Pair", b"fn:opt", b"fn:Struct", b"fn:collect",
       b"fn:Map", b"fn:Union", b"fn:list:get", b"fn:some", b"fn:list", b"fn:pair"]


def gen_pred(rng):
    if rng.random() < 0.6:
        return rng.choice(SAFE_PREDS)
    for _ in range(20):
        s = T.gen_pred(rng)
        if s not in KEYWORDS and not s.startswith(b"fn:"):
            return s
    return b"p"


KEYWORDS = {b"Package", b"Use", b"Decl", b"bound", b"let", b"do", b"descr", b"inclusion", b"now", b"opt", b"temporal"}


def gen_base(rng, depth, var_prob=0.35, app_prob=0.3):
    """atom argument / equality side: variable, constant or function application"""
    r = rng.random()
    if r < var_prob:
        return ("var", rng.choice(VARS))
    if r < var_prob + app_prob and depth > 0:
        return ("app", rng.choice(FNS), [gen_base(rng, depth - 1, var_prob, app_prob) for _ in range(rng.choice([0, 1, 2, 2, 3]))])
    return gen_const(rng, min(depth, 1))


def base_json(t):
    if t[0] == "app":
        return ["app", hx(t[1]), [base_json(x) for x in t[2]]]
    return T.to_json(t)


def gen_atom(rng, depth=1, var_prob=0.4, app_prob=0.0):
    return (gen_pred(rng), [gen_base(rng, depth, var_prob, app_prob) for _ in range(rng.choice([0, 1, 1, 2, 2, 3]))])


def atom_json(a):
    return {"sym": hx(a[0]), "args": [base_json(x) for x in a[1]]}


TS = [0, 1, -1, 999999999, 10 ** 9, 1700000000123456789, 1700000000000000000, 1700000000500000000, MAX64, MIN64,
      MIN64 + 1, MAX64 - 1, -10 ** 9, 86400 * 10 ** 9, 1705314600 * 10 ** 9]
DURS_MS = [0, 1, 500, 1000, 1500, 60000, 90000, 3600000, 5400000, 86400000, 36 * 3600000, 7 * 86400000,
           106751 * 86400000, 9223372036854, 2562047 * 3600000, 999, 61001]


def gen_bound(rng, where):
    """where: 'start' / 'end' of an annotation, 'op' = operator bound (no infinities: finding N51)"""
    r = rng.random()
    if r < 0.35:
        return ["ts", str(rng.choice(TS) if rng.random() < 0.7 else rng.randint(MIN64, MAX64))]
    if r < 0.55:
        return ["var", hx(rng.choice([b"T", b"S", b"T1", b"End"]))]
    if r < 0.65:
        return ["now"]
    if r < 0.85 or where == "op":
        ms = rng.choice(DURS_MS) if rng.random() < 0.7 else rng.randint(0, 10 ** 9)
        return ["dur", str(ms * MS)]            # whole milliseconds, not negative (finding N52 otherwise)
    return ["neginf"] if where == "start" else ["posinf"]


def gen_interval(rng):
    while True:
        a, b = gen_bound(rng, "start"), gen_bound(rng, "end")
        if rng.random() < 0.25:
            b = a if a[0] != "neginf" else b      # a point interval @[t]
        if a[0] == "neginf" and b[0] == "posinf":
            continue                               # eternal = no annotation
        return [a, b]


def gen_premise(rng, temporal=True):
    r = rng.random() * (1.0 if temporal else 0.72)
    if r < 0.3:
        return {"k": "atom", "atom": atom_json(gen_atom(rng))}
    if r < 0.45:
        return {"k": "neg", "atom": atom_json(gen_atom(rng))}
    if r < 0.6:
        return {"k": "eq", "l": base_json(gen_base(rng, 2)), "r": base_json(gen_base(rng, 2, 0.25, 0.35))}
    if r < 0.72:
        return {"k": "ineq", "l": base_json(gen_base(rng, 1)), "r": base_json(gen_base(rng, 1, 0.3, 0.1))}
    p = {"k": "temporal", "atom": atom_json(gen_atom(rng))}
    q = rng.random()
    if q < 0.7:
        p["op"] = rng.randrange(4)
        p["opb"] = [gen_bound(rng, "op"), gen_bound(rng, "op")]
    if q >= 0.7 or rng.random() < 0.4:
        p["iv"] = gen_interval(rng)
    return p


def gen_app(rng):
    return ["app", hx(rng.choice(FNS)), [base_json(gen_base(rng, 1, 0.6, 0.2)) for _ in range(rng.choice([0, 1, 1, 2]))]]


def gen_transform(rng):
    stages = []
    for _ in range(rng.choice([1, 1, 1, 2, 3])):
        stmts = []
        if rng.random() < 0.5:
            stmts.append({"var": None, "fn": gen_app(rng)})
        for _ in range(rng.choice([0, 1, 2]) if stmts else rng.choice([1, 2])):
            stmts.append({"var": hx(rng.choice([b"S", b"N", b"Acc", b"X"])), "fn": gen_app(rng)})
        stages.append(stmts)
    return stages


def gen_clause(rng, temporal=True):
    """temporal=False: inside the Coq clause model (no annotation, no temporal literal)"""
    c = {"head": atom_json(gen_atom(rng)), "headtime": gen_interval(rng) if temporal and rng.random() < 0.35 else None,
         "premises": None, "transform": None}
    if rng.random() < 0.8:
        c["premises"] = [gen_premise(rng, temporal) for _ in range(rng.choice([1, 1, 2, 3, 4]))]
        if rng.random() < 0.35:
            c["transform"] = gen_transform(rng)
    return c


MUT_ALPHA = b" ,:()[]{}\"'\\/.-+_#\n\tXabnxu01e9dhms%~!=@`TZ"
CLAUSE_ALPHA = MUT_ALPHA + b"<>|!=.,  ldeot"


def valid_utf8(s):
    try:
        s.decode("utf-8")
        return True
    except UnicodeDecodeError:
        return False


def mutate_text(rng, s, alpha=MUT_ALPHA):
    MUT_ALPHA = alpha
    s = bytearray(s)
    for _ in range(rng.choice([1, 1, 1, 2, 3])):
        op = rng.random()
        if not s:
            s.append(rng.choice(MUT_ALPHA))
        elif op < 0.3:
            del s[rng.randrange(len(s))]
        elif op < 0.6:
            s.insert(rng.randrange(len(s) + 1), rng.choice(MUT_ALPHA))
        elif op < 0.8:
            s[rng.randrange(len(s))] = rng.choice(MUT_ALPHA)
        elif op < 0.9:
            i = rng.randrange(len(s))
            s[i:i + 1] = s[i:i + 1] * 2
        else:
            i, j = sorted((rng.randrange(len(s) + 1), rng.randrange(len(s) + 1)))
            del s[i:min(j, i + 4)]
    return bytes(s)


NEAR_MISSES = [
    b"[-1, 2]", b"[ -1, 2]", b"[+1]", b"[1, 2,]", b"[,]", b"[1 2]", b"[1 : 2, 3]", b"[1 : 2, 3 : 4,]", b"{/a : 1,}", b"{}", b"[]",
    b"fn:map()", b"{/a 1}", b"p()", b"p(,)", b"p(1,)", b"p(q(1))", b"fn:f(p(1))", b"[p(1)]", b"1.", b".5", b"-.5", b"1.5e3", b"1.5e",
    b"1e5", b"-", b"--1", b"007", b"-0", b"9223372036854775807", b"9223372036854775808", b"-9223372036854775808",
    b"X,", b"[1],", b"p(1),", b"1,", b"1, 2", b"-9223372036854775809", b"010", b"-010", b"00", b"09", b"0x10", b"7d", b"7m", b"5ms", b"2024-01-15", b"2024-01-15T10:30:00Z", b"2024-01-1", b"12024-01-15", b"/a/", b"/",
    b"//a", b"/a//b", b"/a.b-c_d~e%f", b"/a b", b"X", b"_", b"_x", b"X_1", b"X.y", b"X:", b"[X: 1]", b"[X : 1]", b"Package", b"Use",
    b"let", b"do", b"now", b"opt(1)", b"bound(1)", b"b", b"b(1)", b"b\"x\"", b"b'x'", b"b`x`", b"`a\\nb`", b"`a\\`b`", b"'a\"b'", b"\"a'b\"",
    b"\"a\\qb\"", b"\"\\x4g\"", b"\"\\x4A\"", b"\"\\x4a\"", b"\"\\u{41}\"", b"\"\\u{0041}\"", b"\"\\u{000041}\"", b"\"\\u{0000041}\"",
    b"\"\\u{10ffff}\"", b"\"\\u{110000}\"", b"\"\\u{00d800}\"", b"\"\\x7f\"", b"\"\\x80\"", b"b\"\\x80\"", b"\"a\\\nb\"", b"\"a\nb\"",
    b"\"a\rb\"", b"\"a\r\nb\"", b"b\"a\rb\"", b"\"abc", b"\"a\\\"", b"p(X) # c", b"# c\n1", b"1 # c", b":lt(1, 2)", b":-", b":b\"x\"", b": 1",
    b"fn:pair(1,2)", b"fn:pair (1,2)", b"p (1)", b"p\n(1)", b"1 2", b"[1] [2]", b"1)", b"(1)", b"[[1], [2 : 3], {/a : []}]", b"{1 : 2}",
    b"{/a : 1, /a : 2}", b"\"\\t\\n\\\\\\\"\\'\"", b"1.0e+5", b"1.0E-5", b"1.0e+", b"-1.0", b"- 1", b"1 . 5", b"a.b(1)", b"a..b(1)", b"a.(1)",
    b"a:b(1)", b"A(1)", b"/a(1)", b"p(/a.)", b"p(/a .)", b"[/a : /b]", b"[/a :/b]", b"[/a:/b]", b"[/a : 1]", b"[/a: 1]", b"\x0c1", b"\r1\r",
]


CLAUSE_NEAR_MISSES = [
    b"p(X).", b"p(X) :- q(X).", b"p(X) :- q(X),.", b"p(X) :- q(X), .", b"p(X) :- q(X),, r(X).", b"p(X) :- .", b"p(X) :-.", b"p(X)",
    b"p(X) :- q(X)", b"p(X) :- X < 3.", b"p(X) :- X <= 3, X > 1, X >= 2.", b"p(X) :- 3 < X.", b"p(X) :- q(X) < 3.", b"p(X) :- X < q(3).",
    b"p(X) :- X = /a.", b"p(X) :- X = /a .", b"p(X) :- X != /a/b .", b"p(X) :- X = 1.", b"p(X) :- X = 1.5.", b"p(X) :- X = 1..",
    b"p(X) :- X = Y.", b"p(X) :- X = \"a\".", b"p(X) :- X = [1, 2].", b"p(X) :- X = fn:f(Y).", b"p(X) :- fn:f(Y) = X.", b"p(X) :- fn:f(Y).",
    b"p(X) :- !q(X).", b"p(X) :- ! q(X).", b"p(X) :- !fn:f(X).", b"p(X) :- !X.", b"p(X) :- !!q(X).", b"p(X) :- X.", b"p(X) :- 3.",
    b"p(X) :- q(X) = r(X).", b"p(X) :- q(X) != 1.", b"fn:f(X).", b"fn:f(X) :- q(X).", b"X.", b"/a.", b"/a .", b"p(q(X)).", b"p(fn:f(X)).",
    b"p(X) :- q(X) |> do fn:group_by().", b"p(X) :- q(X) |> do fn:group_by(X), let Y = fn:sum(X).", b"p(X) :- q(X) |> let Y = fn:sum(X).",
    b"p(X) :- q(X) |> let Y = fn:sum(X), let Z = fn:max(X).", b"p(X) :- q(X) |> let Y = fn:sum(X) |> let Z = fn:plus(Y, 1).",
    b"p(X) :- q(X) |> do fn:f() |> do fn:g().", b"p(X) :- q(X) |> let Y = fn:sum(X), do fn:f().", b"p(X) :- q(X) |> do q(X).",
    b"p(X) :- q(X) |> let Y = q(X).", b"p(X) :- q(X) |> let Y = 3.", b"p(X) :- q(X) |> let y = fn:f().", b"p(X) :- q(X) |> let _ = fn:f().",
    b"p(X) :- q(X) |> do fn:f(),.", b"p(X) :- q(X) |> do fn:f(), .", b"p(X) :- q(X) |> .", b"p(X) :- q(X) |>.", b"p(X) :- q(X), |> do fn:f().",
    b"p(X) :- |> do fn:f().", b"p(X) |> do fn:f().", b"p(X) :- q(X) | > do fn:f().", b"p(X) :- q(X) |> dofn:f().", b"p(X) :- q(X) |> do  fn:f().",
    b"p(X) :- q(X) |> letY = fn:f().", b"p(X) :- q(X) |> let Y= fn:f().", b"p(X) :- q(X) |> let Y =fn:f().", b"p(X) :- q(X) |> let Y = fn:f()",
    b"p(X) :- q(X) |> do fn:f() let Y = fn:g().", b"p(X) :- q(X) |> do fn:f(), do fn:g().", b"p(X) :- q(X) |> let Y = fn:f() |> .",
    b"p(X):-q(X).", b"p(X) : - q(X).", b"p(X) :- q(X). ", b"p(X) :- q(X).\n", b"p(X) :- q(X). # c", b"# c\np(X).", b"p(X). q(X).",
    b"p(X) :- q(X) r(X).", b"p(X) :- q(X), r(X),.", b"p(X) :- q(X); r(X).", b"p(X) :- X = Y = Z.", b"p(X) :- X = Y, Y != Z.", b"p(X) :- X == Y.",
    b"p(X) :- X =< Y.", b"p(X) :- X => Y.", b"p(X) :- X <> Y.", b"p(X) :- X ! = Y.", b"p(X) :- X !=Y.", b"p(X) :- X!=Y.", b"p(X) :- X=Y.",
    b"p(X) :- X<Y.", b"p(X) :- X<-Y.", b"p(X) :- X < -1.", b"p(X) :- X <-1.", b"p(X) :- [1] = X.", b"p(X) :- :lt(X, 3).", b"p(X) :- let(X).",
    b"p(X) :- do(X).", b"let(X).", b"p(X) :- q(X)!", b"p(X)!", b"p(X)..", b"p(X) .", b"p(X)\n.", b"p().", b"p.", b"p(X) :- q().",
    b"p(X) :- X = 1.e5.", b"p(X) :- X = 1.X.", b"p(X) :- X = Y.p(X).", b"p(X) :- X = Y .p(X).", b"p(/a).", b"p(/a.).", b"p(X) :- q(/a.).",
    b"p(X) :- X = \"a.\".", b"p(X) :- X = b\"a\".", b"p(X) :- X = {/a : 1}.", b"p(X) :- X = [/a : /b].", b"p(X) :- X = [/a].", b"p(X) :- X = [/a.].",
    b"p(X) :- X = 7d.", b"p(X) :- X = 2024-01-15.", b"p(X) :- q(X), X = fn:pair(1, 2), !r(X, \"s\") |> do fn:group_by(X), let N = fn:count().",
]


# ------------------------------------------------------------- known findings
def probes(ck):
    ids = {k["id"] for k in known_for("C09")}
    p = lambda **kw: dict({"head": {"sym": hx(b"p"), "args": [["var", hx(b"X")]]}, "headtime": None, "transform": None}, **kw)
    if "N51" in ids:
        c = p(premises=[{"k": "temporal", "atom": {"sym": hx(b"q"), "args": [["var", hx(b"X")]]}, "op": 0,
                         "opb": [["neginf"], ["dur", str(3600 * 10 ** 9)]]}])
        o = ck.run_go("c09_clause", [c])[0]
        if o.get("out", {}).get("rt"):
            ck.known("N51 a temporal operator with an infinite bound prints %s, which reads back with the variable bound `_`: %s"
                     % (bytes.fromhex(o["out"]["s"]).decode(), o["out"]["rt"][:120]))
    if "N52" in ids:
        fails = []
        for d in (-10 ** 9, 1500):
            c = p(premises=[{"k": "temporal", "atom": {"sym": hx(b"q"), "args": [["var", hx(b"X")]]}, "op": 0,
                             "opb": [["dur", "0"], ["dur", str(d)]]}])
            o = ck.run_go("c09_clause", [c])[0]
            if o.get("out", {}).get("rt"):
                fails.append(bytes.fromhex(o["out"]["s"]).decode())
        if fails:
            ck.known("N52 a duration bound that is negative or not a whole number of milliseconds has no spelling in the grammar: %s do not parse"
                     % " / ".join(fails))


# ------------------------------------------------------------------ the check
def corpus_cases():
    out = []
    for path in sorted(glob.glob(os.path.join(os.path.dirname(__file__), "..", "corpus", "C09", "*.json"))):
        j = json.load(open(path))
        for c in j["cases"]:
            out.append(c)
    return out


def run_group(ck, kind, items):
    """items: list of inputs of one kind. Returns list of (input, go outcome, coq term or None)."""
    if kind == "const":
        outs = ck.run_go("c09_const", [{"term": T.to_json(t)} for t in items])
    elif kind == "atom":
        outs = ck.run_go("c09_atom", [atom_json(a) for a in items])
    elif kind == "term":
        outs = ck.run_go("c09_term", [{"term": base_json(t)} for t in items])
    elif kind == "clause":
        outs = ck.run_go("c09_clause", items)
    elif kind == "parse":
        outs = ck.run_go("c09_parse", [{"text": hx(s)} for s in items])
    elif kind == "clause_text":
        outs = ck.run_go("c09_clause_text", [{"text": hx(s)} for s in items])
    elif kind in ("unescape", "escape"):
        outs = ck.run_go("c09_" + kind, [{"text": hx(s), "bytes": b} for s, b in items])
    res = []
    for x, o in zip(items, outs):
        term = None
        if kind == "const" and "out" in o:
            term = coq(C("KRound", cq_tables(o["out"]["tables"], o["out"]["ptab"]), T.to_coq(x),
                         T.cq_bytes(bytes.fromhex(o["out"]["s"]))))
        elif kind == "atom" and "out" in o:
            term = coq(C("KAtom", cq_tables(o["out"]["tables"], o["out"]["ptab"]), T.cq_bytes(x[0]),
                         [cq_arg(a) for a in x[1]], T.cq_bytes(bytes.fromhex(o["out"]["s"]))))
        elif kind == "parse" and "out" in o:
            tree = o["out"]["tree"]
            term = coq(C("KParse", cq_tables(None, o["out"]["ptab"]), T.cq_bytes(x),
                         C("Some", cq_gterm(tree)) if tree is not None else None))
        elif kind == "clause" and "out" in o and model_clause(x) and not o["out"]["rt"]:
            # the clause model: printer vs String(), parser vs parse.Clause on the printed text, model round trip
            term = coq(C("KClause", cq_tables(o["out"]["tables"], o["out"]["ptab"]), cq_gclause_in(x),
                         T.cq_bytes(bytes.fromhex(o["out"]["s"])), cq_gclause_tree(o["out"].get("tree"))))
        elif kind == "clause_text" and "out" in o:
            tree = o["out"]["tree"]
            if tree is None or not tree.get("unsup"):
                term = coq(C("KClauseText", cq_tables(None, o["out"]["ptab"]), T.cq_bytes(x), cq_gclause_tree(tree)))
        elif kind == "unescape":
            term = coq(C("KUnescape", x[1], T.cq_bytes(x[0]), opt_bytes(o)))
        elif kind == "escape":
            term = coq(C("KEscape", x[1], T.cq_bytes(x[0]), opt_bytes(o)))
        res.append((x, o, term))
    return res


CODES = {1: "model parser rejects what Go accepts / results differ", 2: "model parser accepts what Go rejects",
         3: "both accept, different trees", 4: "model printer differs from String()", 5: "model parser rejects the printed text",
         6: "the parsed expression does not evaluate to a constant in the model", 7: "model round trip gives a different term",
         8: "temporal syntax, outside the clause model", 9: "model parser out of fuel"}
CLAUSE_KINDS = ("clause", "clause_text")


def input_json(kind, x):
    if kind == "const":
        return T.to_json(x)
    if kind == "atom":
        return atom_json(x)
    if kind == "term":
        return base_json(x)
    if kind == "clause":
        return x
    if kind in ("parse", "clause_text"):
        return {"text_hex": hx(x), "text": x.decode("utf-8", "replace")}
    return {"text_hex": hx(x[0]), "bytes": x[1]}


def input_from_json(kind, j):
    if kind == "const":
        return T.from_json(j)
    if kind == "atom":
        return (bytes.fromhex(j["sym"]), [base_from_json(a) for a in j["args"]])
    if kind == "term":
        return base_from_json(j)
    if kind == "clause":
        return j
    if kind in ("parse", "clause_text"):
        return bytes.fromhex(j["text_hex"])
    return (bytes.fromhex(j["text_hex"]), j["bytes"])


def base_from_json(j):
    if j[0] == "app":
        return ("app", bytes.fromhex(j[1]), [base_from_json(x) for x in j[2]])
    return T.from_json(j)


def judge_groups(ck, groups, limit=5):
    """groups: {kind: [(x, o, term)]}. Runs the Coq judge, classifies, records violations.
    Returns statistics."""
    stats = {"rt_failures": 0, "model_disagreements": 0, "go_errors": 0, "clause_model_cases": 0, "clause_text_temporal_skipped": 0,
             "unit_vs_clause_differs": 0}
    terms, where, cterms, cwhere = [], [], [], []
    for kind, res in groups.items():
        for i, (x, o, term) in enumerate(res):
            if term is not None and kind in CLAUSE_KINDS:
                cterms.append(term)
                cwhere.append((kind, i))
            elif term is not None:
                terms.append(term)
                where.append((kind, i))
    # both judges run at the same time, on at most 16 shards together
    nsh = 16
    from concurrent.futures import ThreadPoolExecutor
    with ThreadPoolExecutor(max_workers=2) as ex:
        # a clause case costs about 0.45 of a term / parse case (measured); shards in proportion to the work
        share = max(1, min(8, round(nsh * 0.45 * len(cterms) / max(1.0, len(terms) + 0.45 * len(cterms))))) if cterms else 0
        f1 = ex.submit(lambda: ck.run_coq("C09", "judge", terms, shard=max(25, len(terms) // max(1, nsh - share) + 1)) if terms else [])
        f2 = ex.submit(lambda: ck.run_coq("C09", "judge_clause", cterms, shard=max(10, len(cterms) // max(1, share) + 1), tag="clauses")
                       if cterms else [])
        verdicts, cverdicts = f1.result(), f2.result()
    vmap = dict(zip(where, verdicts))
    vmap.update(zip(cwhere, cverdicts))
    stats["clause_model_cases"] = len(cterms)
    for kind, res in groups.items():
        for i, (x, o, term) in enumerate(res):
            if kind in ("const", "atom", "term", "clause"):
                if "out" not in o:
                    stats["go_errors"] += 1
                    if len(ck.violations) < limit:
                        ck.violation({"property": "C09", "kind": "error / panic while building, printing or parsing a legal term",
                                      "case_kind": kind, "input": input_json(kind, x), "impl": o})
                    continue
                rt = o["out"]["rt"]
                if rt:
                    stats["rt_failures"] += 1
                    if len(ck.violations) < limit:
                        ck.violation({"property": "C09", "kind": "implementation violates the property: the printed text does not parse back to the same tree",
                                      "case_kind": kind, "input": input_json(kind, x),
                                      "printed": bytes.fromhex(o["out"]["s"]).decode("utf-8", "replace"),
                                      "printed_hex": o["out"]["s"], "verdict": rt})
                    continue
            v = vmap.get((kind, i), 0)
            if kind == "clause_text" and "out" in o and o["out"].get("clause_differs"):
                # Go against Go: parse.Unit read one clause, parse.Clause something else
                stats["unit_vs_clause_differs"] += 1
                if len(ck.violations) < limit:
                    ck.violation({"property": "C09", "kind": "parse.Clause and parse.Unit read different clauses from the same text",
                                  "case_kind": kind, "input": input_json(kind, x), "impl": o["out"],
                                  "no_longer_checks": "correspondence: parse.Unit stands for parse.Clause on whole texts"},
                                 "no-failing-input-found")
                continue
            if v == 8 and kind == "clause_text":
                stats["clause_text_temporal_skipped"] += 1
                continue
            if v != 0:
                stats["model_disagreements"] += 1
                if len(ck.violations) < limit:
                    rep = {"property": "C09", "case_kind": kind, "input": input_json(kind, x), "impl": o.get("out", o),
                           "verdict_code": v, "verdict": CODES.get(v, "?"),
                           "model_outputs": ck.coq_show("C09", ("show_clause " if kind in CLAUSE_KINDS else "show ") + term)[-1500:],
                           "kind": "correspondence model/implementation broken (theorems of Props/C09.v no longer tied to the code); "
                                   "the Go round trip itself holds on this input",
                           "no_longer_checks": ("correspondence Run.C09.judge_clause: model Serde/{Clause,ClauseParse}.v vs Clause.String / parse.Clause "
                                                "(theorem parse_print_clause)") if kind in CLAUSE_KINDS else
                                               "correspondence Run.C09.judge: model Serde/{Escape,Lexer,Parse}.v + Term/Print.v vs ast / parse"}
                    ck.violation(rep, "no-failing-input-found")
    return stats


def exhaustive_items():
    alpha = [0x22, 0x27, 0x5C, 0x0A, 0x09, 0x0D, 0x00, 0x60, 0x41, 0x6E, 0x78, 0x75, 0x7B, 0x7D, 0x30, 0x20, 0x2D, 0x2E, 0x5D, 0x2C]
    consts = [("str", bytes([c])) for c in range(128)] + [("bytes", bytes([c])) for c in range(256)]
    consts += [("str", bytes([a, b])) for a in alpha for b in alpha]
    consts += [("bytes", bytes([a, b])) for a in alpha + [0x80, 0xFF] for b in alpha + [0x80, 0xFF]]
    consts += [("str", chr(cp).encode()) for cp in T.CODEPOINTS] + [("str", ("a" + chr(cp) + "\r").encode()) for cp in T.CODEPOINTS]
    consts += [("num", n) for n in T.INT_BOUNDARY] + [("f64", b) for b in T.FLOAT_BOUNDARY]
    consts += [("time", n) for n in T.TIME_BOUNDARY] + [("dur", n) for n in T.DUR_BOUNDARY]
    leads = [("num", -1), ("num", MIN64), ("f64", T.f64_bits(-0.0)), ("f64", T.f64_bits(-1e21)), ("num", 1), ("str", b"-"), ("name", b"/a")]
    for a in leads:
        consts += [("list", [a]), ("list", [("list", [a])]), ("map", [(a, a)]), ("pair", a, a), ("list", [a, a])]
        if a[0] == "name":
            consts.append(("struct", [(a, a)]))
    return consts


def run(ck):
    ck.obligations()
    ck.build_harness()
    rng = ck.rng
    groups_in = {"const": [], "atom": [], "term": [], "clause": [], "parse": [], "unescape": [], "escape": [], "clause_text": []}
    ncorpus = 0
    for c in corpus_cases():
        groups_in[c["kind"]].append(input_from_json(c["kind"], c["input"]))
        ncorpus += 1
    for _ in range(ck.n(300, 4000)):
        groups_in["const"].append(gen_const(rng, rng.choice([0, 1, 2, 2, 3] if ck.quick else [0, 1, 2, 3, 4])))
    nexh = 0
    if not ck.quick:
        ex = exhaustive_items()
        nexh = len(ex)
        groups_in["const"] += ex
    for _ in range(ck.n(120, 1500)):
        groups_in["atom"].append(gen_atom(rng, rng.choice([0, 1, 2]), 0.25))
    for _ in range(ck.n(100, 1500)):
        groups_in["term"].append(("app", rng.choice(FNS), [gen_base(rng, 2, 0.3, 0.4) for _ in range(rng.choice([0, 1, 2, 3]))]))
    for _ in range(ck.n(600, 15000)):
        groups_in["clause"].append(gen_clause(rng))
    # clauses inside the Coq clause model (no temporal syntax): model printer / parser / round trip besides the Go round trip
    for _ in range(ck.n(130, 3000)):
        groups_in["clause"].append(gen_clause(rng, temporal=False))
    if ck.quick:
        # the quick tier sends a sample of the model-eligible clauses to Coq (elaboration cost), thorough all of them
        elig = [i for i, c in enumerate(groups_in["clause"]) if model_clause(c)]
        keep = set(rng.sample(elig, min(len(elig), 330)))
        for i in elig:
            if i not in keep:
                groups_in["clause"][i] = dict(groups_in["clause"][i], no_model=True)
    ck.log("generated; running the Go round trips")
    groups = {k: run_group(ck, k, groups_in[k]) for k in ("const", "atom", "term", "clause")}
    # texts for the parser correspondence: printed constants and atoms, mutants of them, hand-written near misses
    printed = [bytes.fromhex(o["out"]["s"]) for k in ("const", "atom", "term") for _, o, _ in groups[k] if "out" in o]
    texts = list(NEAR_MISSES) + groups_in["parse"]
    nmut = ck.n(350, 4000)
    pool = [s for s in printed if len(s) <= 120]
    for _ in range(nmut):
        s = mutate_text(rng, rng.choice(pool))
        if (b"<" in s and re.search(rb"\.[A-Z]", s)) or not valid_utf8(s):
            continue      # `.Type<...>` syntax is not modelled; a mutant that cuts a multi-byte character (the micro sign of a
            #               printed duration) is not valid UTF-8: Go's input stream reads U+FFFD, the byte-level lexer model the byte
        texts.append(s)
    for s in rng.sample(pool, min(len(pool), ck.n(60, 600))):
        texts.append(s)
    groups["parse"] = run_group(ck, "parse", texts)
    # texts for the clause parser correspondence: near misses, mutants of printed clauses of the model's domain
    ctexts = list(CLAUSE_NEAR_MISSES) + groups_in["clause_text"]
    cpool = [bytes.fromhex(o["out"]["s"]) for x, o, _ in groups["clause"]
             if "out" in o and not x.get("headtime") and all(p["k"] != "temporal" for p in x["premises"] or []) and len(o["out"]["s"]) <= 400]
    for _ in range(ck.n(120, 3000) if cpool else 0):
        s = mutate_text(rng, rng.choice(cpool), CLAUSE_ALPHA)
        if (b"<" in s and re.search(rb"\.[A-Z]", s)) or re.search(rb"Package|Use|Decl", s) or not valid_utf8(s):
            continue      # `.Type<...>` syntax and declarations are not modelled; Go reads an invalid byte as U+FFFD
        ctexts.append(s)
    groups["clause_text"] = run_group(ck, "clause_text", ctexts)
    # escape / unescape on arbitrary byte strings
    un, es = list(groups_in["unescape"]), list(groups_in["escape"])
    ualpha = b"\\\\\\\\xxuu{{}}nt\"'`\n\r\r0123456789abcdefABCDEFg qz\x00\x7f"
    for _ in range(ck.n(250, 3000)):
        n = rng.choice([0, 1, 2, 3, 4, 6, 9, 12])
        s = bytearray()
        for _ in range(n):
            q = rng.random()
            if q < 0.75:
                s.append(rng.choice(ualpha))
            elif q < 0.85:
                s += chr(rng.choice(T.CODEPOINTS)).encode()
            elif q < 0.93:
                s += rng.choice([b"\\u{", b"\\x", b"\\u{00", b"\\u{10ffff}", b"\\u{110000}", b"\\x7f", b"\\x80", b"\\xff", b"\r\n", b"\\\n"])
            else:
                s.append(rng.randrange(256))
        un.append((bytes(s), rng.random() < 0.4))
    for _ in range(ck.n(150, 2000)):
        b = rng.random() < 0.4
        q = rng.random()
        s = gen_string(rng) if q < 0.6 else bytes(rng.randrange(256) for _ in range(rng.choice([1, 2, 3, 5])))
        es.append((s, b))
    # hex digits at the edges of the accepted ranges, in \x and \u{...}
    for ch in b"09afAFgG/:@`":
        for m in (False, True):
            un += [(b"\\x0" + bytes([ch]), m), (b"\\x" + bytes([ch]) + b"0", m),
                   (b"\\u{000" + bytes([ch]) + b"}", m), (b"\\u{" + bytes([ch]) + b"000}", m)]
    if not ck.quick:
        es += [(bytes([c]), m) for c in range(256) for m in (False, True)]
        un += [(bytes([0x5C, c]), m) for c in range(256) for m in (False, True)]
        un += [(b"\\x" + bytes([a, b]), m) for a in b"09afAFg/:@G`" for b in b"09afAFg/:@G`" for m in (False, True)]
    groups["unescape"] = run_group(ck, "unescape", un)
    groups["escape"] = run_group(ck, "escape", es)
    ck.log("go done (%s)" % ", ".join("%s %d" % (k, len(v)) for k, v in groups.items()))
    stats = judge_groups(ck, groups)
    ck.log("coq done")
    probes(ck)
    # statistics
    kinds, distinct = {}, set()
    for t in groups_in["const"]:
        T.kinds(t, kinds)
        if T.size(t) > 1:
            distinct.add(json.dumps(T.to_json(t)))
    for c in groups_in["clause"]:
        distinct.add(json.dumps(c, sort_keys=True))
    clause_features = {"facts": 0, "with_headtime": 0, "neg": 0, "eq": 0, "ineq": 0, "temporal_op": 0, "temporal_annot": 0,
                       "transform": 0, "transform_chain": 0, "ends_with_name": 0}
    for c in groups_in["clause"]:
        if c["premises"] is None:
            clause_features["facts"] += 1
        if c["headtime"]:
            clause_features["with_headtime"] += 1
        for p in c["premises"] or []:
            if p["k"] in ("neg", "eq", "ineq"):
                clause_features[p["k"]] += 1
            if p["k"] == "temporal":
                clause_features["temporal_op"] += 1 if "op" in p else 0
                clause_features["temporal_annot"] += 1 if p.get("iv") else 0
        if c["transform"]:
            clause_features["transform"] += 1
            clause_features["transform_chain"] += 1 if len(c["transform"]) > 1 else 0
        if c["premises"] and not c["transform"] and c["premises"][-1]["k"] in ("eq", "ineq") and c["premises"][-1]["r"][0] == "name":
            clause_features["ends_with_name"] += 1
    clause_model = sum(1 for _, _, t in groups["clause"] if t is not None)
    ctext_n = sum(1 for _, _, t in groups["clause_text"] if t is not None)
    ctext_acc = sum(1 for _, o, t in groups["clause_text"] if t is not None and o["out"]["tree"] is not None)
    clause_model_features = {"facts": 0, "neg": 0, "eq": 0, "ineq": 0, "comparison_atom": 0, "transform": 0, "transform_chain": 0,
                             "ends_with_name": 0, "nested_application": 0}
    for c, _, t in groups["clause"]:
        if t is None:
            continue
        clause_model_features["facts"] += 1 if c["premises"] is None else 0
        for q in c["premises"] or []:
            if q["k"] in ("neg", "eq", "ineq"):
                clause_model_features[q["k"]] += 1
            if q["k"] in ("atom", "neg") and bytes.fromhex(q["atom"]["sym"]) in (b":lt", b":le", b":gt", b":ge"):
                clause_model_features["comparison_atom"] += 1
            if q["k"] in ("eq", "ineq") and any(x[0] == "app" and any(y[0] == "app" for y in x[2]) for x in (q["l"], q["r"])):
                clause_model_features["nested_application"] += 1
        if c["transform"]:
            clause_model_features["transform"] += 1
            clause_model_features["transform_chain"] += 1 if len(c["transform"]) > 1 else 0
        if c["premises"] and not c["transform"] and c["premises"][-1]["k"] in ("eq", "ineq") and c["premises"][-1]["r"][0] == "name":
            clause_model_features["ends_with_name"] += 1
    parse_acc = sum(1 for _, o, _ in groups["parse"] if "out" in o and o["out"]["tree"] is not None)
    lenient = sum(1 for _, o, _ in groups["parse"] if "out" in o and o["out"]["term_ok"] and o["out"]["tree"] is None)
    unesc_ok = sum(1 for _, o, _ in groups["unescape"] if "out" in o and o["out"].get("ok"))
    unesc_panic = sum(1 for _, o, _ in groups["unescape"] if "panic" in o)
    total = sum(len(v) for v in groups.values())
    cov = {"evaluations": total, "distinct_nontrivial": len(distinct),
           "rule": "Go round trip parse(String(x)) = x on generated constants (%d), atoms (%d), base terms with function applications (%d) and "
                   "clauses (%d); model printer / parser / evaluator vs Go on the same constants and atoms; model parser vs parse.Unit on %d texts "
                   "(hand-written near misses, printed texts and random mutants of them); clause model (printer vs Clause.String, parser vs "
                   "parse.Clause on the printed text, model round trip) on %d of the clauses without temporal syntax; clause parser model vs "
                   "parse.Unit on %d clause texts (near misses and mutants of printed clauses); model unescape vs ast.Unescape on %d byte "
                   "strings, model escape vs ast.Escape on %d; corpus %d; non-trivial = nested constant or clause; distinct by JSON text"
                   % (len(groups["const"]), len(groups["atom"]), len(groups["term"]), len(groups["clause"]), len(groups["parse"]),
                      clause_model, ctext_n, len(groups["unescape"]), len(groups["escape"]), ncorpus),
           "exhaustive": not ck.quick,
           "exhaustive_scope": ("every 1-byte string (128) and byte string (256), every 2-byte string over a 20-character alphabet of quotes, "
                                "backslash, control characters, escape letters and brackets (400 + 484 byte strings), every boundary number / float / "
                                "time / duration, signed first elements after every bracket (%d constants); ast.Escape on every single byte in both "
                                "modes, ast.Unescape on every backslash + byte and on \\x followed by every pair of 12 hex / non-hex characters" % nexh)
           if not ck.quick else "",
           "go_round_trip_failures": stats["rt_failures"], "model_disagreements": stats["model_disagreements"],
           "go_errors": stats["go_errors"], "leaf_and_shape_kinds": kinds, "clause_features": clause_features,
           "clause_model_cases": clause_model, "clause_model_features": clause_model_features,
           "clause_texts_judged": ctext_n, "clause_texts_accepted": ctext_acc, "clause_texts_rejected": ctext_n - ctext_acc,
           "clause_texts_temporal_skipped": stats["clause_text_temporal_skipped"]
           + sum(1 for _, o, t in groups["clause_text"] if t is None and "out" in o),
           "parse_texts_accepted": parse_acc, "parse_texts_rejected": len(groups["parse"]) - parse_acc,
           "parse_term_accepts_prefix_but_unit_rejects": lenient,
           "unescape_ok": unesc_ok, "unescape_error": len(groups["unescape"]) - unesc_ok, "unescape_panics_counted_as_error": unesc_panic,
           "samples": [input_json("const", groups_in["const"][min(ncorpus, len(groups_in["const"]) - 1)]), groups_in["clause"][-1],
                       input_json("parse", texts[-1])]}
    return ck.finish(cov, assumptions=[
        "model hand-written (coq/Serde/*.v, coq/Term/*.v); tied to ast/serde.go, ast/ast.go, parse/parse.go and the generated lexer by "
        "differential comparison only; the clause level is modelled (Serde/Clause.v, ClauseParse.v) for head, atoms, negated atoms, "
        "(in)equalities, comparison atoms and transforms; temporal annotations / operators are not modelled in Coq - they are covered by "
        "the Go round trip (c) alone",
        "parse_print_clause_partial covers every clause of the model's clause type; `_partial` = temporal syntax is not in the model",
        "clause texts are compared through parse.Unit (end of input required); parse.Clause stops after the final '.' - both read the same "
        "clause from every accepted text (checked, Go against Go)",
        "strconv.FormatFloat/ParseFloat, time.Format/Parse(RFC3339), time.Duration.String/ParseDuration enter the model as per-case tables "
        "observed from Go; the theorems assume their round-trip laws (each round trip in (c) samples them)",
        "domain: lexer-valid names and predicate symbols that are not keywords, valid UTF-8 strings, finite floats, maps / structs built by "
        "ast.Map / ast.Struct with pairwise distinct key hashes (finding N9 otherwise), premises non-empty or nil, temporal literals over "
        "positive atoms, `do` only as first statement of a transform, annotations not eternal; operator bounds not infinite (finding N51), "
        "duration bounds non-negative whole milliseconds (finding N52)",
        "parse.Term does not require the end of input; the parser correspondence goes through parse.Unit on m(<text>) which does"])


def replay(ck, path):
    ck.build_harness()
    rep = json.load(open(path))
    kind = rep["case_kind"]
    x = input_from_json(kind, rep["input"])
    groups = {kind: run_group(ck, kind, [x])}
    stats = judge_groups(ck, groups)
    print("replay: %s" % stats)
    if ck.violations:
        print("VIOLATION property=C09 replay=%s" % path)
        return 1
    return 0


META = {
    "text": "Machine-checked theorems (coq/Props/C09.v) about a Gallina model of ast.Escape / ast.Unescape, the lexer rules and the term "
            "parser of mangle with the constructor cases of functional.EvalExpr: unescaping an escaped string or byte string returns it, a "
            "printed literal is exactly one token, and - for every kind of constant at any nesting depth (names, strings, byte strings, every "
            "int64, finite floats, times, durations, pairs, lists, maps, structs as ast.Map / ast.Struct order them) and for atoms over such "
            "constants and variables - parsing the printed text, followed by nothing or by a character outside names and numbers, with fuel "
            "2 * length + 2, returns an expression that evaluates to that constant (parse_print_const, parse_print_atom; strconv / time enter as "
            "oracles with their round-trip laws as hypotheses). Clause level (parse_print_clause_partial): for every clause with a head atom and "
            "a body of atoms, negated atoms, equalities, inequalities and comparison atoms over such constants, variables and function "
            "applications of any nesting, with let / do transforms of any number of stages, the text Clause.String writes (with the ' .' after a "
            "trailing name constant), followed by nothing or a character that cannot continue a name, parses back with that fuel to a clause "
            "of the same shape whose constants evaluate to the printed ones; excluded: temporal annotations / operators (not modelled in "
            "Coq, covered by the Go round trip). Refutation theorems for the pre-fix "
            "printers (chained transform dropped, trailing name constant). The model is tied to "
            "the code on every run: printer, lexer + parser (also on mutated near-miss texts: accept / reject and tree), escape and unescape, "
            "and the clause printer / clause parser (printed clauses, clause near misses and mutants through parse.Unit) "
            "are compared with Go inside Coq, and the round trip parse(String(x)) = x itself is executed in Go on generated constants, atoms, "
            "type expressions and clauses with negation, comparisons, transforms, temporal annotations and operators.",
    "note": "Trusted: Coq kernel + vm_compute; hand-written model tied to the code by sampled differential comparison; strconv / time "
            "round-trip laws assumed (sampled); temporal clause syntax covered by the Go round trip only; fixes F5, F6, F15, N14, N18, N50, N53 "
            "applied; findings N51 (infinite operator bounds) and N52 (durations outside whole milliseconds) probed and reported as known.",
}
