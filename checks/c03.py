"""C03 - stratification respects every dependency or reports failure.

Theorems: coq/Props/C03.v (observer valid_layers exact, neg_cycle exact,
stratifiable iff no negative cycle, reference valid, F4 refutation).
Correspondence: analysis.Stratify of /repo is run several times on generated rule
sets (its answer depends on Go map iteration); every distinct answer is judged in
Coq by the verified observer against the dependency graph the *model* builds from
the rule shapes (coq/Strat/DepGraph.v mirrors makeDepGraph after fix F4).
"""
import glob
import itertools
import json
import os
from vlib.core import C, Raw, coq

EDB = [0, 1]          # p0/1, p0/2 (same name, two arities)
BUILTIN = [100, 101]  # mapped to :lt/2, :le/2 by the harness
UNDEF = 50            # neither EDB nor head of a rule
BASE = 2              # graph vertex u is predicate BASE + u


# ------------------------------------------------------------------ encoding
def rows_of(c, answers):
    """Compact wire format of Run/C03.v (zcase): rows of numbers."""
    rows = [[0] + list(c["builtins"]), [1] + list(c["edb"])]
    for r in c["rules"]:
        rows.append([2, r["h"], r["k"]] + [t * 1000 + p for t, p in r["b"]])
    for a in answers:
        if a["err"]:
            rows.append([3])
        else:
            for l in a.get("layers", []):
                rows.append([5] + list(l))
            rows.append([4] + [x for p, i in a.get("map", []) for x in (p, i)])
    return rows


def cq_case(c, answers, ref=False):
    return coq(rows_of(c, answers) + ([[6]] if ref else []))


# ---------------------------------------------------------------- generators
def mention(rng, p, negated, temporal):
    """A body item mentioning p. temporal: 'plain' | 'mixed' | 'all'."""
    t = temporal == "all" or (temporal == "mixed" and rng.random() < 0.5)
    if negated:
        return [3 if t else 1, p]
    if t:
        return [rng.choice([2, 2, 4]), p]
    return [0, p]


def noise(rng, temporal, quirks):
    r = rng.random()
    if r < 0.35:
        return mention(rng, rng.choice(EDB), False, temporal)
    if r < 0.5:
        return mention(rng, rng.choice(EDB), True, temporal)
    if r < 0.65:
        return [0, rng.choice(BUILTIN)]
    if r < 0.8:
        return [5, rng.randrange(3)]
    if quirks:
        q = rng.random()
        if q < 0.3:
            return [1, rng.choice(BUILTIN)]       # negated builtin: makeDepGraph adds an edge to it
        if q < 0.6:
            return mention(rng, UNDEF, rng.random() < 0.3, temporal)
        if q < 0.8:
            return [rng.choice([2, 4]), rng.choice(BUILTIN)]
    return [0, rng.choice(EDB)]


def realise(rng, n, lab, temporal, quirks=False, always_rule=True):
    """Rule shapes whose dependency graph is the labelling lab[u][v] in {0,1,2}
    (absent, positive, negative) over vertices 0..n-1 (exactly, when quirks=False)."""
    rules = []
    for u in range(n):
        h = BASE + u
        neg = [v for v in range(n) if lab[u][v] == 2]
        pos = [v for v in range(n) if lab[u][v] == 1]
        normal = []        # premises for normal rules
        dorule = None
        if neg and rng.random() < 0.45:
            k = rng.randint(1, len(neg))
            grp = rng.sample(neg, k)
            neg = [v for v in neg if v not in grp] if rng.random() < 0.7 else neg
            dorule = [mention(rng, BASE + v, False, temporal) for v in grp]
            if rng.random() < 0.3:      # a negated atom inside the aggregating rule as well
                dorule.append(mention(rng, BASE + rng.choice(grp), True, temporal))
        for v in neg:
            normal.append(mention(rng, BASE + v, True, temporal))
            if rng.random() < 0.3:      # positive and negative mention: negative wins
                normal.append(mention(rng, BASE + v, False, temporal))
        if dorule is not None and rng.random() < 0.3:
            for it in dorule[:1]:
                normal.append(mention(rng, it[1], False, temporal))
        for v in pos:
            normal.append(mention(rng, BASE + v, False, temporal))
            if rng.random() < 0.15:
                normal.append(mention(rng, BASE + v, False, temporal))
        rng.shuffle(normal)
        nrules = rng.randint(1, 3) if normal else (1 if (always_rule and dorule is None) else 0)
        bodies = [[] for _ in range(nrules)]
        for it in normal:
            bodies[rng.randrange(nrules)].append(it)
        for b in bodies:
            for _ in range(rng.choice([0, 0, 1, 1, 2])):
                b.insert(rng.randint(0, len(b)), noise(rng, temporal, quirks))
            if not b:
                b.append([0, rng.choice(EDB)])
            rules.append({"h": h, "k": rng.choice([0, 0, 0, 1]), "b": b})
        if dorule is not None:
            for _ in range(rng.choice([0, 1, 1])):
                dorule.insert(rng.randint(0, len(dorule)), noise(rng, temporal, False))
            rng.shuffle(dorule)
            rules.append({"h": h, "k": 2, "b": dorule})
    rng.shuffle(rules)
    return {"builtins": BUILTIN, "edb": EDB, "rules": rules}


def gen_lab(rng, n):
    shape = rng.choice(["sparse", "dense", "chain", "two-scc", "dag", "pos-cycle", "neg-free"])
    lab = [[0] * n for _ in range(n)]
    if shape == "sparse":
        for _ in range(rng.randint(0, n + 2)):
            lab[rng.randrange(n)][rng.randrange(n)] = rng.choice([1, 1, 2])
    elif shape == "dense":
        for u in range(n):
            for v in range(n):
                lab[u][v] = rng.choice([0, 0, 1, 1, 2])
    elif shape == "chain":
        order = list(range(n))
        rng.shuffle(order)
        for a, b in zip(order, order[1:]):
            lab[b][a] = rng.choice([1, 1, 1, 2])
    elif shape == "two-scc":
        order = list(range(n))
        rng.shuffle(order)
        cut = rng.randint(1, n - 1)
        for comp in (order[:cut], order[cut:]):
            for a, b in zip(comp, comp[1:] + comp[:1]):
                lab[a][b] = 1
        if rng.random() < 0.8:
            lab[rng.choice(order[cut:])][rng.choice(order[:cut])] = rng.choice([1, 2])
        if rng.random() < 0.15:
            lab[rng.choice(order[:cut])][rng.choice(order[:cut])] = 2
    elif shape == "dag":
        order = list(range(n))
        rng.shuffle(order)
        for i in range(n):
            for j in range(i):
                if rng.random() < 0.5:
                    lab[order[i]][order[j]] = rng.choice([1, 2])
    elif shape == "pos-cycle":
        order = list(range(n))
        rng.shuffle(order)
        for a, b in zip(order, order[1:] + order[:1]):
            lab[a][b] = 1
        for _ in range(rng.randint(0, 2)):
            lab[rng.randrange(n)][rng.randrange(n)] = rng.choice([1, 2])
        if rng.random() < 0.3:
            u = rng.randrange(n)
            lab[u][u] = 1
    else:
        for u in range(n):
            for v in range(n):
                lab[u][v] = rng.choice([0, 0, 1])
    return lab, shape


def graph_of_shapes(case, temporal=True):
    """Independent reading of the rule shapes by the text of the property: the set
    of labelled mentions head -> predicate (True = negated or aggregated)."""
    edges = {}
    heads = set()
    for r in case["rules"]:
        heads.add(r["h"])
        for t, p in r["b"]:
            if t == 5 or (t in (2, 3, 4) and not temporal):
                continue
            if p in case["edb"]:
                continue
            negated = t in (1, 3)
            if p in case["builtins"] and not negated:
                continue
            ng = negated or r["k"] == 2
            edges[(r["h"], p)] = edges.get((r["h"], p), False) or ng
    return heads, edges


def lab_of_case(case, n):
    heads, edges = graph_of_shapes(case)
    lab = [[0] * n for _ in range(n)]
    for (h, p), ng in edges.items():
        if not (BASE <= h < BASE + n and BASE <= p < BASE + n):
            return None
        lab[h - BASE][p - BASE] = 2 if ng else 1
    return lab


# ----------------------------------------- independent property-level oracle
def oracle_violation(case, ans):
    """Judge one answer of Stratify by the property text alone (no Coq model):
    returns a reason string if the answer violates the property, else None."""
    heads, edges = graph_of_shapes(case)
    verts = set(heads)
    for (h, p) in edges:
        verts.add(p)
    succ = {v: set() for v in verts}
    for (h, p) in edges:
        succ[h].add(p)

    def reach(u):
        seen, todo = {u}, [u]
        while todo:
            x = todo.pop()
            for y in succ.get(x, ()):
                if y not in seen:
                    seen.add(y)
                    todo.append(y)
        return seen
    R = {v: reach(v) for v in verts}
    negcyc = [(h, p) for (h, p), ng in edges.items() if ng and h in R[p]]
    if ans["err"]:
        return None if negcyc else "failure reported although no dependency cycle passes through a negated/aggregated mention"
    if negcyc:
        return "layers returned although the cycle through %s -> %s is negated/aggregated" % negcyc[0]
    where = {}
    for i, l in enumerate(ans.get("layers", [])):
        for p in l:
            if p in where:
                return "predicate %d in two layers" % p
            where[p] = i
    m = {p: i for p, i in ans.get("map", [])}
    if m != where:
        return "predicate->layer map disagrees with the layer list"
    for v in verts:
        if v not in where:
            return "predicate %d is in no layer" % v
    for p in where:
        if p not in verts:
            return "layer member %d is not a predicate of the dependency graph" % p
    for (h, p), ng in edges.items():
        if where[p] > where[h] or (ng and where[p] >= where[h]):
            return "mention %d -> %d (%s): layer %d vs %d" % (h, p, "negative" if ng else "positive", where[h], where[p])
    for u in verts:
        for v in verts:
            if (where[u] == where[v]) != (v in R[u] and u in R[v]):
                return "%d and %d: same layer = %s, mutually recursive = %s" % (u, v, where[u] == where[v], v in R[u] and u in R[v])
    return None


# -------------------------------------------------------------- source texts
def gen_source(rng):
    """A program text with temporal syntax; analysed by the real parser/analysis."""
    n = rng.randint(2, 5)
    names = ["q%d" % i for i in range(n)]
    lines = ["e(1).", "e(2).", "t(1)@[2024-01-01, 2024-01-05].", "t(2)@[2024-01-02, 2024-01-03]."]
    lab, shape = gen_lab(rng, n)
    if rng.random() < 0.6:   # keep most of them stratifiable and acyclic enough for the analysis
        for u in range(n):
            for v in range(n):
                if v >= u:
                    lab[u][v] = 0
    tpred = [rng.random() < 0.6 for _ in range(n)]   # derived temporal predicates (head carries @[T])
    for u in range(n):
        items = []
        agg = (not tpred[u]) and rng.random() < 0.25
        for v in range(n):
            if lab[u][v] == 0:
                continue
            r = rng.random()
            if tpred[v]:
                # the analysis wants every use of a temporal predicate annotated
                if r < 0.5:
                    items.append("%s(X)@[T%d]" % (names[v], v))
                elif r < 0.8:
                    items.append("<-[0s, 7d] %s(X)" % names[v])
                else:
                    items.append("[-[0s, 1d] %s(X)" % names[v])
            elif lab[u][v] == 2 and not agg:
                items.append("!%s(X)" % names[v])
            else:
                items.append("%s(X)" % names[v])
        rng.shuffle(items)
        base = "e(X), t(X)@[T]" if tpred[u] else rng.choice(["e(X)", "t(X)@[T]", "e(X), t(X)@[T]"])
        body = ", ".join([base] + items + (["X < 5"] if rng.random() < 0.3 else []))
        if agg:
            lines.append("%s(C) :- %s |> do fn:group_by(), let C = fn:count()." % (names[u], body))
        elif tpred[u]:
            lines.append("%s(X)@[T] :- %s." % (names[u], body))
        elif rng.random() < 0.2:
            lines.append("%s(Y) :- %s |> let Y = fn:plus(X, 1)." % (names[u], body))
        else:
            lines.append("%s(X) :- %s." % (names[u], body))
    return {"src": "\n".join(lines), "shape": shape}


F4_WITNESS_SRC = ("a(1)@[2024-01-01, 2024-01-02].\nb(X)@[T] :- a(X)@[T].\n"
                  "c(X)@[T] :- b(X)@[T].\nd(X)@[T] :- c(X)@[T].")


# ----------------------------------------------------------------- the check
def load_corpus():
    out = []
    for path in sorted(glob.glob(os.path.join(os.path.dirname(__file__), "..", "corpus", "C03", "*.json"))):
        out.append(json.load(open(path)))
    return out


def run(ck):
    ck.obligations()
    ck.build_harness()
    rng = ck.rng
    runs = ck.n(5, 50)
    cases, meta = [], []          # shapes cases
    srcs = []                     # source-text cases
    for c in load_corpus():
        if c.get("kind") == "src":
            srcs.append({"src": c["src"], "shape": "corpus"})
        else:
            cases.append(c["case"])
            meta.append({"origin": "corpus", "temporal": c.get("temporal", "mixed"), "n": 0})
    ncorpus = len(cases) + len(srcs)
    # exhaustive block: every labelling of 3 vertices (thorough; the temporal mode and
    # the realisation by rules are drawn per labelling); quick: a random 120 of them
    all3 = list(itertools.product([0, 1, 2], repeat=9))
    if ck.quick:
        all3 = rng.sample(all3, 120)
    nexh = 0
    for flat in all3:
        lab = [list(flat[0:3]), list(flat[3:6]), list(flat[6:9])]
        temporal = rng.choice(["plain", "mixed", "all", "all"])
        c = realise(rng, 3, lab, temporal)
        if lab_of_case(c, 3) != lab:
            raise RuntimeError("generator does not realise the labelling %r" % (lab,))
        cases.append(c)
        meta.append({"origin": "exhaustive3" if not ck.quick else "sample3", "temporal": temporal, "n": 3})
        nexh += 1
    # random block: 4-6 vertices
    nrand = ck.n(200, 10000)
    for _ in range(nrand):
        n = rng.randint(4, 6)
        lab, shape = gen_lab(rng, n)
        temporal = rng.choice(["plain", "mixed", "mixed", "all"])
        quirks = rng.random() < 0.25
        c = realise(rng, n, lab, temporal, quirks=quirks, always_rule=rng.random() < 0.7)
        cases.append(c)
        meta.append({"origin": "random", "temporal": temporal, "n": n, "shape": shape, "quirks": quirks})
    for _ in range(ck.n(40, 1000)):
        srcs.append(gen_source(rng))

    ck.log("running Go: %d rule sets x %d runs, %d source texts" % (len(cases), runs, len(srcs)))
    outs = ck.run_go("c03", [dict(c, runs=runs) for c in cases])
    souts = ck.run_go("c03_src", [{"src": s["src"], "runs": runs} for s in srcs])

    # assemble Coq cases
    items = []   # (kind, index, case, answers)
    bad = []
    for i, (c, o) in enumerate(zip(cases, outs)):
        if "out" not in o:
            bad.append(("shapes", c, o))
            continue
        items.append(("shapes", i, c, o["out"]))
    rejected = 0
    for i, (s, o) in enumerate(zip(srcs, souts)):
        if "out" not in o:
            bad.append(("src", s, o))
            continue
        if o["out"].get("rejected"):
            rejected += 1
            if s.get("shape") == "corpus":
                bad.append(("src", s, o))
            continue
        r = o["out"]
        c = {"builtins": r["builtins"], "edb": r["edb"], "rules": r["rules"], "names": r["names"], "src": s["src"]}
        items.append(("src", i, c, r["answers"]))
    for kind, c, o in bad[:5]:
        ck.violation({"property": "C03", "kind": "Stratify / harness error or panic on a legal rule set",
                      "input_kind": kind, "case": c, "impl": o})

    ck.log("judging %d rule sets in Coq (%d distinct answers)" % (len(items), sum(len(it[3]) for it in items)))
    terms = [cq_case(c, ans, ref=(j % 5 == 0)) for j, (_, _, c, ans) in enumerate(items)]
    full = ck.run_coq("C03", "judge_full", terms, shard=max(60, len(terms) // 16 + 1))
    verdicts = [v % 1000 for v in full]

    disagreements = 0
    for (kind, i, c, ans), v in zip(items, verdicts):
        if v == 0:
            continue
        disagreements += 1
        if len(ck.violations) >= 5:
            continue
        k = (v - 2) // 10
        a = ans[k] if 0 <= k < len(ans) else None
        why = oracle_violation(c, a) if a is not None else "unexpected verdict code"
        rep = {"property": "C03", "input_kind": kind, "case": c, "runs": runs,
               "impl_answers": ans, "judge_code": v, "violating_answer": a,
               "model": ck.coq_show("C03", "explain_rows " + cq_case(c, []))}
        if why:
            rep["kind"] = "answer of analysis.Stratify violates the property (verified observer and independent oracle agree)"
            rep["oracle"] = why
            ck.violation(rep)
        else:
            rep["kind"] = "correspondence broken: the observer on the model's dependency graph rejects an answer the independent oracle accepts"
            rep["no_longer_checks"] = "correspondence Run.C03.judge: DepGraph.make_dep_graph vs analysis.makeDepGraph"
            ck.violation(rep, "no-failing-input-found")

    # independent oracle on everything (cheap): must agree with the Coq verdicts
    oracle_bad = 0
    for (kind, i, c, ans), v in zip(items, verdicts):
        for a in ans:
            if oracle_violation(c, a) and v == 0:
                oracle_bad += 1
                if len(ck.violations) < 5:
                    ck.violation({"property": "C03", "input_kind": kind, "case": c, "violating_answer": a,
                                  "kind": "independent oracle rejects an answer the observer accepts",
                                  "oracle": oracle_violation(c, a),
                                  "no_longer_checks": "agreement of the Python oracle with Stratify.valid_layers"},
                                 "no-failing-input-found")

    # reference model sanity + how many cases exercise fix F4 (judged against the
    # pre-fix graph the same answers fail)
    ntemporal = sum(1 for it in items if it[0] == "src" or meta[it[1]]["temporal"] != "plain")
    f4_sensitive = sum(1 for v in full if (v // 1000) % 100 != 0)
    refbad = [j for j, v in enumerate(full) if v // 100000 != 0]
    if refbad and len(ck.violations) < 5:
        ck.violation({"property": "C03", "kind": "reference stratification fails its own observer", "case": items[refbad[0]][2],
                      "no_longer_checks": "stratify_ref_valid (evaluation)"}, "no-failing-input-found")

    # coverage
    nans = sum(len(it[3]) for it in items)
    nerr = sum(1 for it in items if any(a["err"] for a in it[3]))
    multi = sum(1 for it in items if len(it[3]) > 1)
    by_origin, by_temporal, by_n, by_shape = {}, {}, {}, {}
    for m in meta:
        by_origin[m["origin"]] = by_origin.get(m["origin"], 0) + 1
        by_temporal[m["temporal"]] = by_temporal.get(m["temporal"], 0) + 1
        by_n[str(m["n"])] = by_n.get(str(m["n"]), 0) + 1
        if "shape" in m:
            by_shape[m["shape"]] = by_shape.get(m["shape"], 0) + 1
    tags = {}
    for c in cases:
        for r in c["rules"]:
            tags["rule_kind_%d" % r["k"]] = tags.get("rule_kind_%d" % r["k"], 0) + 1
            for t, _ in r["b"]:
                tags["premise_tag_%d" % t] = tags.get("premise_tag_%d" % t, 0) + 1
    src_tags = {}
    for it in items:
        if it[0] == "src":
            for r in it[2]["rules"]:
                for t, _ in r["b"]:
                    src_tags["premise_tag_%d" % t] = src_tags.get("premise_tag_%d" % t, 0) + 1
    distinct = len(set(json.dumps(graph_key(it[2]), sort_keys=True) for it in items if len(graph_of_shapes(it[2])[1]) >= 2))
    exhaustive = not ck.quick
    cov = {"evaluations": len(items), "answers_judged": nans, "stratify_calls": (len(cases) + len(srcs)) * runs,
           "distinct_nontrivial": distinct,
           "rule": "rule sets given to analysis.Stratify (corpus %d, 3-vertex block %d, random 4-6 vertices %d, source texts %d of which %d rejected by parser/analysis); "
                   "each run %d times, every distinct answer judged by the Coq observer and by the Python oracle; non-trivial = dependency graph with >= 2 arcs, distinct by labelled graph"
                   % (ncorpus, nexh, nrand, len(srcs), rejected, runs),
           "exhaustive": exhaustive,
           "exhaustive_scope": ("all 3^9 = 19683 labellings {absent, positive, negative} of the 9 ordered pairs over 3 predicates (self loops included); "
                                "the realisation of a labelling by rules (plain / temporal premises, negation vs do-transform) is sampled, one per labelling") if exhaustive else "",
           "runs_per_rule_set": runs,
           "rule_sets_with_error_answer": nerr, "rule_sets_with_several_distinct_answers": multi,
           "origin": by_origin, "temporal_mode": by_temporal, "vertices": by_n, "graph_shapes": by_shape,
           "shape_counts": tags, "source_text_premise_tags": src_tags,
           "f4_sensitive": "%d of %d rule sets with temporal premises: the observed answers fail against the pre-fix dependency graph" % (f4_sensitive, ntemporal),
           "reference_checked": (len(full) + 4) // 5,
           "disagreements_checked": disagreements, "oracle_observer_mismatches": oracle_bad,
           "samples": [cases[len(cases) // 2], srcs[-1]["src"] if srcs else None]}
    return ck.finish(cov, assumptions=[
        "dependency-graph model hand-written (coq/Strat/DepGraph.v); tied to analysis.makeDepGraph through the verdicts only (no hook): an answer of Stratify is judged against the model's graph",
        "predicates abstracted to integers (harness maps them to distinct symbol/arity pairs); only the premise kinds Atom, NegAtom, TemporalLiteral, TemporalAtom, Eq are generated",
        "Kosaraju/topological sort of the Go code are not modelled; each observed answer is judged by the verified observer (sampled over map orders: %d runs per rule set)" % runs])


def graph_key(case):
    heads, edges = graph_of_shapes(case)
    return [sorted(heads), sorted([h, p, ng] for (h, p), ng in edges.items())]


def replay(ck, path):
    ck.build_harness()
    rep = json.load(open(path))
    runs = int(rep.get("runs", 50))
    if rep.get("input_kind", rep.get("kind")) == "src":
        src = rep["case"]["src"] if isinstance(rep.get("case"), dict) else rep["src"]
        o = ck.run_go("c03_src", [{"src": src, "runs": runs}])[0]
        if "out" not in o or o["out"].get("rejected"):
            print("replay: source no longer analysed: %s" % o)
            print("VIOLATION property=C03 replay=%s" % path)
            return 1
        r = o["out"]
        case, ans = {"builtins": r["builtins"], "edb": r["edb"], "rules": r["rules"]}, r["answers"]
    else:
        case = rep["case"]
        o = ck.run_go("c03", [dict(case, runs=runs)])[0]
        if "out" not in o:
            print("VIOLATION property=C03 replay=%s" % path)
            return 1
        ans = o["out"]
    v = ck.run_coq("C03", "judge_full", [cq_case(case, ans)])[0] % 1000
    print("replay: %d distinct answers over %d runs, judge code %d" % (len(ans), runs, v))
    if v != 0:
        print("VIOLATION property=C03 replay=%s" % path)
        return 1
    return 0


META = {
    "text": "Machine-checked theorems (coq/Props/C03.v) about labelled dependency graphs: a fuelled reachability is proved to decide "
            "reachability; the observer valid_layers is proved to accept exactly the layerings in which every predicate is in exactly one "
            "layer, the predicate->layer map agrees, no arc goes to a later layer (strictly earlier for negative arcs) and two predicates "
            "share a layer iff mutually reachable; neg_cycle is proved to be true exactly when a cycle contains a negative arc; such a "
            "layering exists iff neg_cycle is false, and a reference stratification produces one. The dependency-graph model mirrors "
            "makeDepGraph after fix F4 (temporal literals/atoms count; do-transform makes every body atom negative; EDB and builtins skipped; "
            "negative wins), with the theorem depgraph_edges_exact that for every rule set the model's graph has exactly the rule heads as "
            "vertices, a negative arc head->q exactly when some rule with that head mentions q negated or inside a do-transform rule, a "
            "positive arc exactly when some rule mentions q positively and none negatively, mentions of EDB predicates and positive mentions "
            "of built-ins being skipped and a mention inside a temporal literal counting like the plain one; a theorem that a temporal "
            "mention yields the same graph as the plain mention and a refutation of the pre-fix "
            "graph on the chained temporal witness. On every run analysis.Stratify of /repo is executed 5/50 times per generated rule set "
            "(exhaustive over all 3^9 labellings of 3 predicates in the thorough tier, random graphs of 4-6 predicates, real source texts with "
            "temporal syntax) and every distinct answer (layers, map, error) is judged in Coq by the verified observer / neg_cycle against the "
            "model's graph, and by an independent Python oracle.",
    "note": "Trusted: Coq kernel + vm_compute; hand-written model of makeDepGraph tied to the code only through the verdicts (sampled; "
            "exhaustive on 3-predicate labellings); the Go algorithm (Kosaraju + DFS sort) is judged per observed answer, map orders are "
            "sampled by repetition, not enumerated.",
}
