"""Shared Datalog machinery of the engine checks (C01, C02, C04, C05, C11, C15, C17, C20).

* a JSON-friendly program representation (see notes/C01-API.md),
* `to_mangle` / `facts_text`: Mangle source text for the Go side,
* `cq_*`: Coq terms of coq/Datalog/Syntax.v for the model side (vlib.core.coq renders them),
* `gen_program`: random generator of stratifiable programs with base facts,
* `stratify`: layers of an arbitrary program (None if negation is cyclic),
* `canon` / `facts_from_go` / `parse_model_tokens`: the canonical fact-set comparison,
* `atom_hash`: ast.Atom.Hash() re-implemented, to recognise inputs that contain the
  trigger of known finding F8 (two distinct facts of one predicate with equal hash).

Representation
  const   ["n", 5] | ["name", "/a"] | ["s", "txt"] | ["pair", c, c] | ["list", [c, ...]]
  term    ["var", k] | ["wild"] | ["c", const] | ["app", fname, [term, ...]]
          fname in FN (plus minus mult div pair cons list len) or any other "fn:..." text
  atom    {"p": k, "args": [term, ...]}            predicate p<k>
  premise ["atom", atom] | ["neg", atom] | ["eq", t, t] | ["ineq", t, t] | ["cmp", op, t, t]
          op in lt le gt ge
  clause  {"head": atom, "body": [premise, ...], "let": [[k, term], ...]}
  fact    {"p": k, "args": [const, ...]}
  program {"clauses": [...], "layers": [[k, ...], ...], "init": [fact, ...], "pre": [fact, ...]}
          init = facts written in the program text, pre = facts put in the caller's store
"""
from vlib.core import C, Raw, coq

MIN64, MAX64 = -(1 << 63), (1 << 63) - 1
FN = {"plus": "FPlus", "minus": "FMinus", "mult": "FMult", "div": "FDiv",
      "pair": "FPair", "cons": "FCons", "list": "FList", "len": "FLen"}
FN_TEXT = {"plus": "fn:plus", "minus": "fn:minus", "mult": "fn:mult", "div": "fn:div",
           "pair": "fn:pair", "cons": "fn:list:cons", "list": "fn:list", "len": "fn:list:len"}
CMP = {"lt": ("Lt", "<"), "le": ("Le", "<="), "gt": ("Gt", ">"), "ge": ("Ge", ">=")}


# ------------------------------------------------------------------ constructors
def num(n): return ["n", n]
def name(s): return ["name", s]
def string(s): return ["s", s]
def pair(a, b): return ["pair", a, b]
def lst(xs): return ["list", list(xs)]
def var(k): return ["var", k]
def cst(c): return ["c", c]
def app(f, *args): return ["app", f, list(args)]
def atom(p, *args): return {"p": p, "args": list(args)}
def clause(head, body, let=()): return {"head": head, "body": list(body), "let": [list(x) for x in let]}
def fact(p, *args): return {"p": p, "args": list(args)}


# ------------------------------------------------------------------ Mangle text
def pred_name(k):
    return "p%d" % k


def var_name(k):
    # not X<k>: ast.FreshVariable names replaced wildcards X0, X1, ... without looking at
    # the variables of a let-transform, which makes analysis reject such a clause
    return "V%d" % k


def esc(s):
    out = []
    for ch in s:
        if ch == '"':
            out.append('\\"')
        elif ch == "\\":
            out.append("\\\\")
        elif ch == "\n":
            out.append("\\n")
        else:
            out.append(ch)
    return "".join(out)


def const_text(c):
    k = c[0]
    if k == "n":
        return str(c[1])
    if k == "name":
        return c[1]
    if k == "s":
        return '"%s"' % esc(c[1])
    if k == "pair":
        return "fn:pair(%s, %s)" % (const_text(c[1]), const_text(c[2]))
    if k == "list":
        # never "[-1, ..." (finding N18: "[-" lexes as a temporal operator)
        items = [const_text(x) for x in c[1]]
        if items and items[0].startswith("-"):
            return "fn:list(%s)" % ", ".join(items)
        return "[%s]" % ", ".join(items)
    raise ValueError(c)


def term_text(t):
    k = t[0]
    if k == "var":
        return var_name(t[1])
    if k == "wild":
        return "_"
    if k == "c":
        return const_text(t[1])
    if k == "app":
        return "%s(%s)" % (FN_TEXT.get(t[1], t[1]), ", ".join(term_text(x) for x in t[2]))
    raise ValueError(t)


def atom_text(a):
    return "%s(%s)" % (pred_name(a["p"]), ", ".join(term_text(x) for x in a["args"]))


def premise_text(p):
    k = p[0]
    if k == "atom":
        return atom_text(p[1])
    if k == "neg":
        return "!" + atom_text(p[1])
    if k == "eq":
        return "%s = %s" % (term_text(p[1]), term_text(p[2]))
    if k == "ineq":
        return "%s != %s" % (term_text(p[1]), term_text(p[2]))
    if k == "cmp":
        return "%s %s %s" % (term_text(p[2]), CMP[p[1]][1], term_text(p[3]))
    raise ValueError(p)


def clause_text(c):
    s = atom_text(c["head"])
    if c["body"]:
        s += " :- " + ", ".join(premise_text(p) for p in c["body"])
    if c.get("let"):
        s += " |> " + ", ".join("let %s = %s" % (var_name(v), term_text(t)) for v, t in c["let"])
    # "/d." would lex as one name constant
    return s + ("." if s.endswith(")") else " .")


def fact_text(f):
    return "%s(%s)." % (pred_name(f["p"]), ", ".join(const_text(c) for c in f["args"]))


def facts_text(fs):
    return "\n".join(fact_text(f) for f in fs)


def to_mangle(prog, shuffle_rng=None):
    """Program text: facts of prog['init'] and all clauses. With shuffle_rng the
    lines are shuffled (presentation must not matter)."""
    lines = [fact_text(f) for f in prog.get("init", [])] + [clause_text(c) for c in prog["clauses"]]
    if shuffle_rng is not None:
        shuffle_rng.shuffle(lines)
    return "\n".join(lines) + "\n"


# ------------------------------------------------------------------ Coq terms
def cq_bytes(s):
    return list(s.encode("utf-8"))


def cq_const(c):
    k = c[0]
    if k == "n":
        return C("CNum", c[1])
    if k == "name":
        return C("CName", cq_bytes(c[1]))
    if k == "s":
        return C("CStr", cq_bytes(c[1]))
    if k == "pair":
        return C("CPair", cq_const(c[1]), cq_const(c[2]))
    if k == "list":
        r = Raw("CNil")
        for x in reversed(c[1]):
            r = C("CCons", cq_const(x), r)
        return r
    raise ValueError(c)


class _Fresh:
    """Numbers wildcards: every "_" becomes a variable not used in the clause."""

    def __init__(self, used):
        self.next = max(list(used) + [0]) + 1000

    def get(self):
        self.next += 1
        return self.next


def term_vars(t, acc):
    if t[0] == "var":
        acc.add(t[1])
    elif t[0] == "app":
        for x in t[2]:
            term_vars(x, acc)


def clause_vars(c):
    acc = set()
    for t in c["head"]["args"]:
        term_vars(t, acc)
    for p in c["body"]:
        if p[0] in ("atom", "neg"):
            for t in p[1]["args"]:
                term_vars(t, acc)
        elif p[0] == "cmp":
            term_vars(p[2], acc), term_vars(p[3], acc)
        else:
            term_vars(p[1], acc), term_vars(p[2], acc)
    for v, t in c.get("let", []):
        acc.add(v)
        term_vars(t, acc)
    return acc


def cq_term(t, fresh=None):
    k = t[0]
    if k == "var":
        return C("TVar", t[1])
    if k == "wild":
        return C("TVar", fresh.get())
    if k == "c":
        return C("TConst", cq_const(t[1]))
    if k == "app":
        f = Raw(FN[t[1]]) if t[1] in FN else C("FOther", 0)
        return C("TApp", f, [cq_term(x, fresh) for x in t[2]])
    raise ValueError(t)


def cq_atom(a, fresh=None):
    return C("mkAtom", a["p"], [cq_term(x, fresh) for x in a["args"]])


def cq_premise(p, fresh=None):
    k = p[0]
    if k == "atom":
        return C("PAtom", cq_atom(p[1], fresh))
    if k == "neg":
        return C("PNeg", cq_atom(p[1], fresh))
    if k == "eq":
        return C("PEq", cq_term(p[1], fresh), cq_term(p[2], fresh))
    if k == "ineq":
        return C("PIneq", cq_term(p[1], fresh), cq_term(p[2], fresh))
    if k == "cmp":
        return C("PCmp", Raw(CMP[p[1]][0]), cq_term(p[2], fresh), cq_term(p[3], fresh))
    raise ValueError(p)


def cq_clause(c):
    fresh = _Fresh(clause_vars(c))
    return C("mkClause", cq_atom(c["head"], fresh), [cq_premise(p, fresh) for p in c["body"]],
             [(v, cq_term(t, fresh)) for v, t in c.get("let", [])])


def cq_fact(f):
    return (f["p"], [cq_const(c) for c in f["args"]])


def cq_program(prog):
    """list clause"""
    return [cq_clause(c) for c in prog["clauses"]]


def cq_layers(prog):
    return [list(l) for l in prog["layers"]]


# ------------------------------------------------------------------ fact sets
def facts_from_go(go_facts):
    """Harness facts [{"p": "p3", "args": [...]}] -> facts with numeric predicate; a
    predicate or constant outside the representation raises ValueError."""
    out = []
    for f in go_facts:
        nm = f["p"]
        if not (nm.startswith("p") and nm[1:].isdigit()):
            raise ValueError("unexpected predicate %r" % nm)
        for c in f["args"]:
            _check_const(c)
        out.append({"p": int(nm[1:]), "args": f["args"]})
    return out


def _check_const(c):
    if c[0] in ("n", "name", "s"):
        return
    if c[0] == "pair":
        _check_const(c[1]), _check_const(c[2])
        return
    if c[0] == "list":
        for x in c[1]:
            _check_const(x)
        return
    raise ValueError("constant outside the modelled fragment: %r" % (c,))


def canon(facts):
    """Canonical form of a fact set: sorted list of distinct printed facts."""
    return sorted(set(fact_text(f) for f in facts))


def parse_model_tokens(toks):
    """Inverse of Run/C01.v outcome_tokens. Returns ("ok", facts) | ("error", None) | ("fuel", None)."""
    if toks[0] == 1:
        return "error", None
    if toks[0] == 2:
        return "fuel", None
    pos = [2]

    def const():
        t = toks[pos[0]]
        pos[0] += 1
        if t in (0, 1):
            n = toks[pos[0]]
            b = bytes(toks[pos[0] + 1: pos[0] + 1 + n])
            pos[0] += 1 + n
            return ["name" if t == 0 else "s", b.decode("utf-8")]
        if t == 2:
            pos[0] += 1
            return ["n", toks[pos[0] - 1]]
        if t == 3:
            a = const()
            return ["pair", a, const()]
        if t == 4:
            return ["list", []]
        if t == 5:
            h = const()
            tl = const()
            if tl[0] != "list":
                raise ValueError("improper list")
            return ["list", [h] + tl[1]]
        raise ValueError("bad token %r" % t)
    facts = []
    for _ in range(toks[1]):
        p, n = toks[pos[0]], toks[pos[0] + 1]
        pos[0] += 2
        facts.append({"p": p, "args": [const() for _ in range(n)]})
    return "ok", facts


# ------------------------------------------------------------------ ast.Atom.Hash (finding F8)
M64 = (1 << 64) - 1


def fnv1_64(data, h=14695981039346656037):
    for b in data:
        h = (h * 1099511628211) & M64
        h ^= b
    return h


def szudzik(a, b):
    return (a * a + a + b) & M64 if a >= b else (b * b + a) & M64


def const_hash(c):
    k = c[0]
    if k == "n":
        return c[1] & M64
    if k in ("name", "s"):
        return fnv1_64(c[1].encode("utf-8"))
    if k == "pair":
        return szudzik((const_hash(c[1]) << 7) & M64, const_hash(c[2]))
    if k == "list":
        h = 0
        for x in reversed(c[1]):
            h = szudzik((const_hash(x) << 8) & M64, h)
        return h
    raise ValueError(c)


def atom_hash(f):
    h = fnv1_64(pred_name(f["p"]).encode())
    for c in f["args"]:
        h = fnv1_64(const_hash(c).to_bytes(8, "little"), h)
    return h


def f8_collisions(facts):
    """Pairs of distinct facts with equal Atom.Hash() (trigger of known finding F8)."""
    seen, out = {}, []
    for f in facts:
        t = fact_text(f)
        h = atom_hash(f)
        if h in seen and seen[h] != t:
            out.append((seen[h], t))
        seen.setdefault(h, t)
    return out


# ------------------------------------------------------------------ stratification
def body_preds(c):
    pos = [p[1]["p"] for p in c["body"] if p[0] == "atom"]
    neg = [p[1]["p"] for p in c["body"] if p[0] == "neg"]
    return pos, neg


def stratify(clauses):
    """Layers (lists of predicate ids, lowest first) of the head predicates: strongly
    connected components of the dependency graph in topological order. None if a
    negated dependency lies inside a component."""
    heads = sorted(set(c["head"]["p"] for c in clauses))
    dep = {h: set() for h in heads}
    negdep = set()
    for c in clauses:
        pos, neg = body_preds(c)
        for q in pos + neg:
            if q in dep:
                dep[c["head"]["p"]].add(q)
        for q in neg:
            if q in dep:
                negdep.add((c["head"]["p"], q))
    index, low, on, stack, comps = {}, {}, set(), [], []

    def visit(v):
        index[v] = low[v] = len(index)
        stack.append(v)
        on.add(v)
        for w in sorted(dep[v]):
            if w not in index:
                visit(w)
                low[v] = min(low[v], low[w])
            elif w in on:
                low[v] = min(low[v], index[w])
        if low[v] == index[v]:
            comp = []
            while True:
                w = stack.pop()
                on.discard(w)
                comp.append(w)
                if w == v:
                    break
            comps.append(sorted(comp))
    for h in heads:
        if h not in index:
            visit(h)
    where = {p: i for i, comp in enumerate(comps) for p in comp}
    for h, q in negdep:
        if where[h] == where[q]:
            return None
    return comps          # Tarjan emits components in reverse topological order = lowest first


# ------------------------------------------------------------------ generator
NAMES = ["/a", "/b", "/c", "/d"]
STRS = ["u", "v w"]


class Gen:
    """Random stratifiable programs. Columns are typed (N number, A name/string,
    P pair of scalars, L non-empty list of scalars) so that two facts of one predicate
    never have equal Atom.Hash() by construction (known finding F8), `!=`, comparisons
    and negated atoms come after the atoms that bind their variables (findings N19,
    F3), recursion that creates new values is guarded by a bound."""

    def __init__(self, rng, big=False):
        self.rng = rng
        self.big = big
        self.sig = {}          # pred -> tuple of column types
        self.npred = 0
        self.clauses = []
        self.layers = []
        self.features = set()

    # -- predicates
    def new_pred(self, sig):
        k = self.npred
        self.npred += 1
        self.sig[k] = tuple(sig)
        return k

    def scalar(self, ty):
        r = self.rng
        if ty == "N":
            return num(r.choice([0, 1, 2, 3, 4, 5]) if r.random() < 0.93 else r.choice([-1, -2, 7, 100]))
        return name(r.choice(NAMES)) if r.random() < 0.8 else string(r.choice(STRS))

    def value(self, ty):
        r = self.rng
        if ty in ("N", "A"):
            return self.scalar(ty)
        if ty == "P":
            return pair(self.scalar(r.choice("NA")), self.scalar(r.choice("NA")))
        n = r.randint(1, 3)
        return lst([num(r.randint(1, 5)) if r.random() < 0.7 else name(r.choice(NAMES)) for _ in range(n)])

    # -- clause construction
    def make_clause(self, head_pred, layer_preds, lower_preds, force_rec=None, shape=None):
        """One clause for head_pred. layer_preds: predicates of the current layer,
        lower_preds: everything below (EDB included)."""
        r = self.rng
        env = {}          # var -> type
        nextv = [1]
        body = []
        let = []

        def fresh(ty):
            v = nextv[0]
            nextv[0] += 1
            env[v] = ty
            return v

        def bound(ty):
            return [v for v, t in env.items() if t == ty]

        def arg_for(ty, allow_new=True, allow_const=True):
            bs = bound(ty)
            x = r.random()
            if bs and x < 0.6:
                return var(r.choice(bs))
            if allow_const and ty in ("N", "A") and x < 0.72:
                return cst(self.scalar(ty))
            if allow_new:
                return var(fresh(ty))
            if bs:
                return var(r.choice(bs))
            return cst(self.value(ty))

        def add_atom(p, wild_ok=True):
            args = []
            for ty in self.sig[p]:
                if wild_ok and r.random() < 0.06:
                    args.append(["wild"])
                else:
                    args.append(arg_for(ty))
            body.append(["atom", atom(p, *args)])

        npos = r.choice([1, 1, 2, 2, 2, 3, 3, 4] if self.big else [1, 1, 2, 2, 3])
        rec = force_rec if force_rec is not None else (layer_preds and r.random() < 0.55)
        cand = list(lower_preds)
        used_rec = 0
        for i in range(npos):
            if rec and layer_preds and (used_rec == 0 or r.random() < 0.45):
                p = r.choice(layer_preds)
                used_rec += 1
            elif cand:
                p = r.choice(cand)
            elif layer_preds:
                p = r.choice(layer_preds)
                used_rec += 1
            else:
                break
            add_atom(p)
        if used_rec >= 2:
            self.features.add("nonlinear")
        if used_rec >= 1:
            self.features.add("recursive")
        recursive = used_rec > 0
        guards = []
        # equalities that build new values
        for _ in range(r.choice([0, 0, 1, 1, 2])):
            ns = bound("N")
            x = r.random()
            if ns and x < 0.04 and not recursive:
                # integer division: truncation, zero results, division by zero (an
                # evaluation error both sides must report)
                a = var(r.choice(ns))
                b = var(r.choice(ns)) if r.random() < 0.5 else cst(num(r.choice([0, 1, 2, -2, 3])))
                v = fresh("N")
                body.append(["eq", var(v), app("div", a, b) if r.random() < 0.8 else app("div", a, b, cst(num(2)))])
                self.features.add("div")
            elif ns and x < 0.5:
                op = r.choice(["plus", "plus", "minus", "mult"])
                a = var(r.choice(ns))
                b = var(r.choice(ns)) if r.random() < 0.3 else cst(num(r.choice([1, 1, 2, 3])))
                e = app(op, a, b) if r.random() < 0.85 else app(op, a, b, cst(num(1)))
                if r.random() < 0.15:
                    e = app("plus", e, app("mult", a, cst(num(2))))
                v = fresh("N")
                body.append(["eq", var(v), e] if r.random() < 0.8 else ["eq", e, var(v)])
                self.features.add("arith")
                if recursive:
                    guards.append(["cmp", "lt", var(v), cst(num(r.choice([6, 8, 12])))])
                    guards.append(["cmp", "gt", var(v), cst(num(-r.choice([3, 6])))])
            elif x < 0.7 and (bound("N") or bound("A")):
                sc = bound("N") + bound("A")
                a, b = var(r.choice(sc)), (var(r.choice(sc)) if r.random() < 0.7 else cst(self.scalar(r.choice("NA"))))
                v = fresh("P")
                body.append(["eq", var(v), app("pair", a, b)])
                self.features.add("pair")
            elif x < 0.9 and (bound("N") or bound("A")):
                sc = bound("N") + bound("A")
                ls = bound("L")
                if ls and r.random() < 0.5:
                    l0 = r.choice(ls)
                    v = fresh("L")
                    body.append(["eq", var(v), app("cons", var(r.choice(sc)), var(l0))])
                    if recursive:
                        guards.append(["cmp", "lt", app("len", var(v)), cst(num(r.choice([3, 4])))])
                else:
                    items = [var(r.choice(sc)) for _ in range(r.randint(1, 2))]
                    if r.random() < 0.3:
                        items.append(cst(self.scalar("A")))
                    v = fresh("L")
                    body.append(["eq", var(v), ["app", "list", items]])
                self.features.add("list")
            elif bound("L") and r.random() < 0.5:
                v = fresh("N")
                body.append(["eq", var(v), app("len", var(r.choice(bound("L"))))])
                self.features.add("list")
        body.extend(guards)
        # tests on bound variables: comparisons, (in)equalities, negation of lower layers
        for _ in range(r.choice([0, 0, 1, 1, 2])):
            x = r.random()
            ns = bound("N")
            if x < 0.35 and ns:
                a = var(r.choice(ns))
                b = var(r.choice(ns)) if r.random() < 0.5 else cst(num(r.choice([1, 2, 3, 4])))
                if r.random() < 0.1:
                    b = app("plus", b, cst(num(1)))
                body.append(["cmp", r.choice(["lt", "le", "gt", "ge"]), a, b])
                self.features.add("cmp")
            elif x < 0.55 and env:
                v = r.choice(list(env))
                same = [w for w in bound(env[v]) if w != v]
                if same and r.random() < 0.6:
                    o = var(r.choice(same))
                elif env[v] in ("N", "A"):
                    o = cst(self.scalar(env[v]))
                else:
                    o = cst(self.value(env[v]))
                body.append([r.choice(["ineq", "ineq", "eq"]), var(v), o])
                self.features.add("ineq")
            elif x < 0.95 and lower_preds:
                p = r.choice(lower_preds)
                args = []
                ok = True
                for ty in self.sig[p]:
                    bs = bound(ty)
                    if bs and r.random() < 0.85:
                        args.append(var(r.choice(bs)))
                    elif ty in ("N", "A"):
                        args.append(cst(self.scalar(ty)))
                    else:
                        args.append(cst(self.value(ty)))
                if ok:
                    body.append(["neg", atom(p, *args)])
                    self.features.add("neg")
        # head
        hargs = []
        for ty in self.sig[head_pred]:
            bs = bound(ty)
            x = r.random()
            if bs and x < 0.82:
                hargs.append(var(r.choice(bs)))
            elif ty == "N" and bound("N") and not recursive and x < 0.9:
                if r.random() < 0.5:
                    hargs.append(app("plus", var(r.choice(bound("N"))), cst(num(1))))
                    self.features.add("head-fn")
                else:
                    v = fresh("N")
                    let.append([v, app(r.choice(["plus", "mult", "minus"]), var(r.choice(bs)), cst(num(2)))])
                    hargs.append(var(v))
                    self.features.add("let")
            elif ty in ("N", "A"):
                hargs.append(cst(self.scalar(ty)))
            elif bs:
                hargs.append(var(r.choice(bs)))
            else:
                hargs.append(cst(self.value(ty)))
        if not let and not recursive and bound("N") and r.random() < 0.08:
            # a let whose variable the head does not use (still evaluated)
            src = var(r.choice(bound("N")))
            let.append([fresh("N"), app("plus", src, cst(num(1)))])
            self.features.add("let")
        return clause(atom(head_pred, *hargs), body, let)

    # -- templates that force joins of facts first derived in the same round (finding F1)
    def template_same_round(self, lower_preds):
        r = self.rng
        unary = [p for p in lower_preds if self.sig[p] == ("N",)] or [self.new_edb(("N",))]
        binary = [p for p in lower_preds if self.sig[p] == ("N", "N")] or [self.new_edb(("N", "N"))]
        base, nxt = r.choice(unary), r.choice(binary)
        p, a, b = self.new_pred(("N",)), self.new_pred(("N",)), self.new_pred(("N",))
        X, Y = var(1), var(2)
        cl = [clause(atom(p, X), [["atom", atom(base, X)]]),
              clause(atom(a, X), [["atom", atom(p, X)]]),
              clause(atom(b, X), [["atom", atom(p, X)]] + ([["cmp", "lt", X, cst(num(9))]] if r.random() < 0.3 else [])),
              clause(atom(p, Y), [["atom", atom(a, X)], ["atom", atom(b, X)], ["atom", atom(nxt, X, Y)]])]
        if r.random() < 0.3:
            cl[3] = clause(atom(p, Y), [["atom", atom(nxt, X, Y)], ["atom", atom(b, X)], ["atom", atom(a, X)]])
        self.features.add("same-round")
        self.features.add("recursive")
        return [p, a, b], cl

    def template_mutual(self, lower_preds):
        r = self.rng
        unary = [p for p in lower_preds if self.sig[p] == ("N",)] or [self.new_edb(("N",))]
        binary = [p for p in lower_preds if self.sig[p] == ("N", "N")] or [self.new_edb(("N", "N"))]
        z, s = r.choice(unary), r.choice(binary)
        ev, od = self.new_pred(("N",)), self.new_pred(("N",))
        X, Y = var(1), var(2)
        cl = [clause(atom(ev, X), [["atom", atom(z, X)]]),
              clause(atom(od, Y), [["atom", atom(ev, X)], ["atom", atom(s, X, Y)]]),
              clause(atom(ev, Y), [["atom", atom(od, X)], ["atom", atom(s, X, Y)]])]
        if r.random() < 0.5:
            both = self.new_pred(("N",))
            cl.append(clause(atom(both, X), [["atom", atom(ev, X)], ["atom", atom(od, X)]]))
            self.features.add("same-round")
            self.features.add("mutual")
            self.features.add("recursive")
            return [ev, od, both], cl
        self.features.add("mutual")
        self.features.add("recursive")
        return [ev, od], cl

    def template_closure(self, lower_preds):
        r = self.rng
        binary = [p for p in lower_preds if len(self.sig[p]) == 2 and self.sig[p][0] == self.sig[p][1]
                  and self.sig[p][0] in "NA"] or [self.new_edb(("N", "N"))]
        e = r.choice(binary)
        t = self.new_pred(self.sig[e])
        X, Y, Z = var(1), var(2), var(3)
        cl = [clause(atom(t, X, Y), [["atom", atom(e, X, Y)]])]
        k = r.random()
        if k < 0.4:
            cl.append(clause(atom(t, X, Z), [["atom", atom(t, X, Y)], ["atom", atom(t, Y, Z)]]))
            self.features.add("nonlinear")
        elif k < 0.7:
            cl.append(clause(atom(t, X, Z), [["atom", atom(t, X, Y)], ["atom", atom(e, Y, Z)]]))
        else:
            cl.append(clause(atom(t, X, Z), [["atom", atom(e, X, Y)], ["atom", atom(t, Y, Z)]]))
        self.features.add("recursive")
        return [t], cl

    def template_counter(self, lower_preds):
        r = self.rng
        unary = [p for p in lower_preds if self.sig[p] == ("N",)] or [self.new_edb(("N",))]
        c = self.new_pred(("N",))
        X, Y = var(1), var(2)
        k = r.choice([5, 7, 9])
        cl = [clause(atom(c, X), [["atom", atom(r.choice(unary), X)]]),
              clause(atom(c, Y), [["atom", atom(c, X)], ["eq", Y, app("plus", X, cst(num(r.choice([1, 2]))))],
                                  ["cmp", "lt", Y, cst(num(k))]])]
        if r.random() < 0.5:
            # two counters met in one body: both sides grow in the same rounds
            d = self.new_pred(("N", "N"))
            cl.append(clause(atom(d, X, Y), [["atom", atom(c, X)], ["atom", atom(c, Y)],
                                             ["eq", Y, app("plus", X, cst(num(1)))]]))
            self.features.add("arith")
            self.features.add("recursive")
            return [c, d], cl
        self.features.add("arith")
        self.features.add("recursive")
        return [c], cl

    def new_edb(self, sig):
        p = self.new_pred(sig)
        self.edb.append(p)
        return p

    def program(self):
        r = self.rng
        self.edb = []
        for _ in range(r.randint(2, 4)):
            ar = r.choice([1, 1, 2, 2, 2, 3])
            sig = [r.choice(["N", "N", "N", "A"]) for _ in range(ar)]
            if r.random() < 0.12:
                sig[-1] = r.choice(["P", "L"])
            self.new_edb(sig)
        if not any(self.sig[p] == ("N",) for p in self.edb):
            self.new_edb(("N",))
        if not any(self.sig[p] == ("N", "N") for p in self.edb):
            self.new_edb(("N", "N"))
        lower = list(self.edb)
        nlayers = r.randint(1, 4 if self.big else 3)
        for _ in range(nlayers):
            x = r.random()
            if x < 0.22:
                preds, cl = self.template_same_round(lower)
            elif x < 0.32:
                preds, cl = self.template_mutual(lower)
            elif x < 0.42:
                preds, cl = self.template_closure(lower)
            elif x < 0.5:
                preds, cl = self.template_counter(lower)
            else:
                preds, cl = [], []
            # free-form predicates of the layer
            nfree = r.randint(0 if preds else 1, 2)
            free = []
            for _ in range(nfree):
                ar = r.choice([1, 1, 2, 2, 3])
                sig = [r.choice(["N", "N", "N", "A"]) for _ in range(ar)]
                if r.random() < 0.2:
                    sig[-1] = r.choice(["P", "L"])
                free.append(self.new_pred(sig))
            allp = preds + free
            for p in free:
                nrules = r.randint(1, 3)
                # the first rule of a predicate is non-recursive so that it can start
                cl.append(self.make_clause(p, [], lower, force_rec=False))
                for _ in range(nrules - 1):
                    cl.append(self.make_clause(p, allp, lower))
            if preds and free and r.random() < 0.5:
                # let a template predicate also depend on a free one of the same layer
                cl.append(self.make_clause(r.choice(preds), free, lower, force_rec=True))
            r.shuffle(cl)
            self.clauses += cl
            self.layers.append(allp)
            lower = lower + allp
        # base facts
        facts = []
        for p in self.edb:
            n = r.randint(0, 6 if self.big else 4)
            if self.sig[p] == ("N", "N") and r.random() < 0.6:
                # successor-like chains make recursion run for several rounds
                start = r.randint(0, 2)
                for i in range(r.randint(2, 6)):
                    facts.append(fact(p, num(start + i), num(start + i + 1)))
                if r.random() < 0.3:
                    facts.append(fact(p, num(start + 3), num(start)))
            for _ in range(n):
                facts.append(fact(p, *[self.value(ty) for ty in self.sig[p]]))
        # a few initial facts of derived predicates
        for layer in self.layers:
            for p in layer:
                if r.random() < 0.1 and all(t in "NA" for t in self.sig[p]):
                    facts.append(fact(p, *[self.value(ty) for ty in self.sig[p]]))
        if r.random() < 0.05:
            p = r.choice(self.edb)
            if "N" in self.sig[p]:
                f = fact(p, *[num(MAX64) if ty == "N" else self.value(ty) for ty in self.sig[p]])
                facts.append(f)
                self.features.add("int64-edge")
        seen, uniq = set(), []
        for f in facts:
            t = fact_text(f)
            if t not in seen:
                seen.add(t)
                uniq.append(f)
        r.shuffle(uniq)
        init, pre = [], []
        mode = r.random()
        for f in uniq:
            (pre if (mode < 0.3 and r.random() < 0.5) else init).append(f)
        return {"clauses": self.clauses, "layers": self.layers, "init": init, "pre": pre,
                "features": sorted(self.features)}


def gen_program(rng, big=False):
    """One random stratifiable program with base facts (see class Gen)."""
    return Gen(rng, big).program()


# ------------------------------------------------------------------ alias stream (C01)
# Variable-variable aliasing (`X = Y` with neither side bound yet) is outside the Coq model
# (Solve.v step_pure: an error of the model). The functions below build, from an alias-free
# clause, declaratively equivalent variants in which some occurrences of a variable are
# replaced by fresh variables tied to it by equalities; checks/c01.py runs both texts on Go
# and requires equal results. Add-only: nothing above this line uses them.
def gen_program_sig(rng, big=False):
    """As gen_program, plus the column types of every predicate ({pred: (ty, ...)})."""
    g = Gen(rng, big)
    prog = g.program()
    return prog, dict(g.sig)


def _walk_clause(c, f):
    """Rebuild clause c, handing every variable occurrence, in the fixed order head, body
    left to right, let statements, to f(var, kind, where) -> var. kind: head, atom, neg, cmp,
    ineq, eq (the variable is one side of the equality), let, or <kind>-fn (inside a function
    application); where: -1 head, body index, len(body) for the transform. The variable a let
    statement defines is not an occurrence."""
    def term(t, kind, where):
        if t[0] == "var":
            return ["var", f(t[1], kind, where)]
        if t[0] == "app":
            k2 = kind if (kind == "let" or kind.endswith("-fn")) else kind + "-fn"
            return ["app", t[1], [term(x, k2, where) for x in t[2]]]
        return t
    head = {"p": c["head"]["p"], "args": [term(t, "head", -1) for t in c["head"]["args"]]}
    body = []
    for j, p in enumerate(c["body"]):
        if p[0] in ("atom", "neg"):
            body.append([p[0], {"p": p[1]["p"], "args": [term(t, p[0], j) for t in p[1]["args"]]}])
        elif p[0] == "cmp":
            body.append(["cmp", p[1], term(p[2], "cmp", j), term(p[3], "cmp", j)])
        else:
            body.append([p[0], term(p[1], p[0], j), term(p[2], p[0], j)])
    let = [[v, term(t, "let", len(c["body"]))] for v, t in c.get("let", [])]
    return {"head": head, "body": body, "let": let}


def clause_occurrences(c):
    """[{"i", "var", "kind", "where"}] in the order of _walk_clause."""
    occs = []

    def f(v, kind, where):
        occs.append({"i": len(occs), "var": v, "kind": kind, "where": where})
        return v
    _walk_clause(c, f)
    return occs


def clause_has_fn(c, fname):
    """Does the function occur anywhere in the clause?"""
    def in_term(t):
        return t[0] == "app" and (t[1] == fname or any(in_term(x) for x in t[2]))
    ts = list(c["head"]["args"]) + [t for _, t in c.get("let", [])]
    for p in c["body"]:
        ts += p[1]["args"] if p[0] in ("atom", "neg") else (p[2:4] if p[0] == "cmp" else p[1:3])
    return any(in_term(t) for t in ts)


ALIAS_MODES = ["let", "head", "neg", "cmp", "ineq", "fn", "atom", "random"]
_MODE_KINDS = {"let": ("let",), "head": ("head",), "neg": ("neg",), "cmp": ("cmp",), "ineq": ("ineq",),
               "fn": ("head-fn", "cmp-fn", "ineq-fn", "eq-fn"), "atom": ("atom",)}


def alias_modes_of(c):
    """The modes of ALIAS_MODES that clause c offers: a body variable (not defined by the
    transform) has an occurrence of the mode's kind."""
    occs = clause_occurrences(c)
    n = len(c["body"])
    letdefs = set(v for v, _ in c.get("let", []))
    cand = set(o["var"] for o in occs if 0 <= o["where"] < n) - letdefs
    if not cand:
        return []
    return [m for m in ALIAS_MODES if m == "random" or
            any(o["kind"] in _MODE_KINDS[m] and o["var"] in cand for o in occs)]


def alias_step(rng, c, tight=False, mode=None):
    """One aliasing step on clause c: a variable V of the body, a chain/tree of 1-3 fresh
    variables W1.. linked to it by equalities (either orientation, inserted at random body
    positions, possibly BEFORE the premise that first mentions V), and some occurrences of V
    handed over to the Wi: those of one kind (mode let / head / neg / cmp / ineq / fn = function
    argument / atom) or a random subset (mode random). CheckRule wants a comparison operand or
    function argument bound by a positive atom, so in modes cmp and fn the alias usually takes
    over an earlier positive-atom occurrence too. The declarative reading is unchanged (the
    equalities force all members equal). With tight=True every equality is placed before the
    first body occurrence of V, so that also every intermediate solution set of the
    left-to-right join is the original one (used for clauses with fn:div, where a wider
    intermediate join could raise an error the original does not raise).
    Returns (clause, info) or None."""
    occs = clause_occurrences(c)
    n = len(c["body"])
    letdefs = set(v for v, _ in c.get("let", []))
    cand = sorted(set(o["var"] for o in occs if 0 <= o["where"] < n) - letdefs)
    if not cand:
        return None
    if mode is None:
        mode = rng.choice(ALIAS_MODES)
    if mode != "random":
        ks = _MODE_KINDS[mode]
        have = sorted(set(o["var"] for o in occs if o["kind"] in ks and o["var"] in cand))
        if not have:
            mode = "random"
        else:
            cand = have
    v = rng.choice(cand)
    mine = [o for o in occs if o["var"] == v]
    length = rng.choice([1, 1, 1, 2, 2, 3])
    nxt = max(clause_vars(c)) + 1
    members = [v] + [nxt + k for k in range(length)]
    links = []                      # (child, parent)
    for k in range(1, length + 1):
        parent = members[k - 1] if rng.random() < 0.7 else rng.choice(members[:k])
        links.append((members[k], parent))
    assign = {}
    if mode == "random":
        for o in mine:
            if rng.random() < 0.5:
                assign[o["i"]] = rng.choice(members[1:])
        if not assign:
            assign[rng.choice(mine)["i"]] = members[-1]
    else:
        tgt = [o for o in mine if o["kind"] in _MODE_KINDS[mode]]
        if len(tgt) > 1 and rng.random() < 0.3:
            tgt = rng.sample(tgt, rng.randint(1, len(tgt) - 1))
        for o in tgt:
            assign[o["i"]] = members[-1]
        if mode in ("cmp", "fn") and rng.random() < 0.9:
            lim = min([o["where"] for o in tgt if o["where"] >= 0] or [n])

            def binds(o):       # a positive atom, or the variable side of `V = fn:..(..)` / `V = constant`
                if o["kind"] == "atom":
                    return True
                if o["kind"] != "eq":
                    return False
                e = c["body"][o["where"]]
                other = e[2] if e[1] == ["var", v] else e[1]
                return other[0] in ("app", "c")
            atoms = [o for o in mine if o["where"] < lim and binds(o)]
            if atoms:
                assign[rng.choice(atoms)["i"]] = members[-1]
                if not [o for o in mine if binds(o) and o["i"] not in assign]:
                    # V has lost its only binder atom: everything that needs a bound operand follows
                    for o in mine:
                        if o["i"] not in assign and (o["kind"] == "cmp" or o["kind"].endswith("-fn")):
                            assign[o["i"]] = members[-1]
        if rng.random() < 0.2:
            for o in mine:
                if o["i"] not in assign and rng.random() < 0.4:
                    assign[o["i"]] = rng.choice(members[1:])
    first = min([o["where"] for o in mine if 0 <= o["where"] < n])
    x = rng.random()
    placement = "before" if (tight or x < 0.5) else ("after" if x < 0.75 else "any")
    # CheckRule's own union-find makes the right-hand side the representative: `new = old`
    # is the orientation it admits when the new variable occurs in no positive atom
    p_new_left = rng.choice([0.5, 0.85, 1.0])
    eqs = []
    for child, parent in links:
        if placement == "before":
            slot = rng.randint(0, first)
        elif placement == "after":
            slot = rng.randint(first + 1, n)
        else:
            slot = rng.randint(0, n)
        new_left = rng.random() < p_new_left
        eqs.append((slot, rng.random(), ["eq", var(child), var(parent)] if new_left else ["eq", var(parent), var(child)],
                    "new=old" if new_left else "old=new"))
    counter = [0]

    def f(w, kind, where):
        i = counter[0]
        counter[0] += 1
        return assign.get(i, w)
    out = _walk_clause(c, f)
    body = []
    for j in range(n + 1):
        for e in sorted([e for e in eqs if e[0] == j], key=lambda e: e[1]):
            body.append(e[2])
        if j < n:
            body.append(out["body"][j])
    out["body"] = body
    moved = sorted(set(o["kind"] for o in mine if o["i"] in assign))
    binder = c["body"][first][0]
    if binder == "eq":
        e = c["body"][first]
        binder = "eq-fn" if (e[1][0] == "app" or e[2][0] == "app") else ("eq-const" if (e[1][0] == "c" or e[2][0] == "c") else "eq-var")
    info = {"var": v, "chain": length, "mode": mode, "placement": placement, "moved": moved,
            "only": moved[0] if len(moved) == 1 else None,
            "orient": [e[3] for e in eqs], "slots": [e[0] for e in eqs], "first_use": first, "binder": binder,
            "eq_before_binder": any(e[0] <= first for e in eqs)}
    return out, info


def alias_candidates(rng, c, k):
    """Up to k distinct aliasing variants of clause c with their descriptions
    [(clause, [info, ...])]: the modes the clause offers are used in turn (starting at a
    random one, mode let first when there is a transform); a quarter get a second step."""
    tight = clause_has_fn(c, "div")
    modes = alias_modes_of(c)
    if not modes:
        return []
    rng.shuffle(modes)
    if "let" in modes:
        modes.remove("let")
        modes.insert(0, "let")
    out, seen = [], set([clause_text(c)])
    for j in range(2 * k):
        if len(out) >= k:
            break
        r = alias_step(rng, c, tight, modes[j % len(modes)])
        if r is None:
            break
        cl, infos = r[0], [r[1]]
        if rng.random() < 0.25:
            r2 = alias_step(rng, cl, tight)
            if r2 is not None:
                cl, infos = r2[0], infos + [r2[1]]
        t = clause_text(cl)
        if t not in seen:
            seen.add(t)
            out.append((cl, infos))
    return out


def clause_var_types(c, sig):
    """{var: column type} as far as the positive atoms (through sig) and the defining
    equalities of the body tell."""
    ty = {}
    for p in c["body"]:
        if p[0] == "atom" and p[1]["p"] in sig:
            for t, col in zip(p[1]["args"], sig[p[1]["p"]]):
                if t[0] == "var":
                    ty.setdefault(t[1], col)
    for p in c["body"]:
        if p[0] == "eq":
            for a, b in ((p[1], p[2]), (p[2], p[1])):
                if a[0] == "var" and b[0] == "app" and a[1] not in ty:
                    ty[a[1]] = {"pair": "P", "list": "L", "cons": "L"}.get(b[1], "N")
    return ty


def add_lets(rng, prog, sig, prob=0.7):
    """Template of the alias stream: give non-recursive clauses without a transform a
    let-transform over their numeric body variables (1-2 statements, the second may use the
    first; never the shapes of findings N64/N65: no use of a later let variable, no function
    application over a let variable in the head); the head's numeric column then sometimes
    shows the let variable. The result stays inside the modelled fragment and is still
    compared with the Coq model. Returns the number of clauses changed."""
    layer_of = {p: i for i, l in enumerate(prog["layers"]) for p in l}
    changed = 0
    for c in prog["clauses"]:
        hp = c["head"]["p"]
        if c.get("let") or rng.random() > prob:
            continue
        if any(p[0] == "atom" and layer_of.get(p[1]["p"]) == layer_of.get(hp) for p in c["body"]):
            continue
        ty = clause_var_types(c, sig)
        ns = sorted(v for v, t in ty.items() if t == "N")
        if not ns:
            continue
        nxt = max(clause_vars(c)) + 1
        lets = []
        a = rng.choice(ns)
        b = var(rng.choice(ns)) if rng.random() < 0.3 else cst(num(rng.choice([1, 1, 2, 3])))
        lets.append([nxt, app(rng.choice(["plus", "minus", "mult"]), var(a), b)])
        if rng.random() < 0.35:
            lets.append([nxt + 1, app(rng.choice(["plus", "minus"]), var(nxt), var(rng.choice(ns)))])
        cols = [i for i, col in enumerate(sig.get(hp, ())) if col == "N" and c["head"]["args"][i][0] in ("var", "c")]
        if cols and rng.random() < 0.75:
            c["head"]["args"][rng.choice(cols)] = var(lets[-1][0])
        c["let"] = lets
        changed += 1
    if changed:
        prog["features"] = sorted(set(prog.get("features", [])) | {"let", "alias-let-template"})
    return changed


# ------------------------------------------------------------------ wildcards in negated atoms (C01)
# `!r(X, _)` reads "there is no fact r(X, anything)": the wildcard is never bound, it is read
# existentially when the negated atom is evaluated (engine/premise.go premiseNegAtom: the atom
# fails iff some stored fact UNIFIES with it). Since fix F3a (RewriteClause no longer drops such
# an atom) the shape is part of the accepted language; class Gen above never writes it (its
# avoidance of the F3a trigger is kept there so that the streams of the other checks stay as they
# are). The model needs nothing new: the encoders give every `_` its own fresh variable (cq_term)
# and Solve.v `step` on `PNeg` fails iff some stored fact unifies, so an unbound variable is read
# existentially, repeated wildcards independently. Add-only: nothing above this line uses these.
def bound_before(c):
    """bound[j] (j = 0..len(body)) = the variables that have a value before body position j:
    arguments of earlier positive atoms, and the variable side of an earlier equality whose
    other side is a constant, a bound variable or a function of bound variables."""
    def tvars(t):
        acc = set()
        term_vars(t, acc)
        return acc
    out, b = [set()], set()
    for p in c["body"]:
        if p[0] == "atom":
            for t in p[1]["args"]:
                if t[0] == "var":
                    b.add(t[1])
        elif p[0] == "eq":
            for x, y in ((p[1], p[2]), (p[2], p[1])):
                if x[0] == "var" and tvars(y) <= b:
                    b.add(x[1])
        out.append(set(b))
    return out


WILDNEG_SHAPES = ["mixed", "mixed", "mixed", "one-wild", "one-wild", "repeat", "repeat", "all-wild"]


def wild_neg_atom(rng, c, p, cols, bb, scalar):
    """One negated atom over predicate p (column types cols) with at least one wildcard for
    clause c. Other columns: a body variable of the column's type that is bound at the end of
    the body (bb = bound_before(c), types from the caller's `ty`), or a scalar constant.
    Returns (atom, shape, variables used)."""
    ty = cols["ty"]
    shape = rng.choice(WILDNEG_SHAPES)
    sig = cols["sig"]
    n = len(sig)
    have = {t: sorted(v for v in bb[-1] if ty.get(v) == t) for t in set(sig)}
    args = [None] * n
    if shape == "all-wild" or n == 1:
        shape = "all-wild"
        args = [["wild"] for _ in range(n)]
    elif shape == "repeat":
        # one bound variable in two (or more) columns of its type, wildcards elsewhere: !r(X, _, X)
        ts = [t for t in set(sig) if sig.count(t) >= 2 and have[t] and n >= 3]
        if not ts:
            shape = "mixed"
        else:
            t = rng.choice(sorted(ts))
            v = rng.choice(have[t])
            idx = [i for i in range(n) if sig[i] == t]
            keep = rng.sample(idx, 2)
            args = [var(v) if i in keep else ["wild"] for i in range(n)]
    if shape == "one-wild":
        w = rng.randrange(n)
        for i in range(n):
            if i == w:
                args[i] = ["wild"]
            elif have[sig[i]] and rng.random() < 0.8:
                args[i] = var(rng.choice(have[sig[i]]))
            elif sig[i] in ("N", "A"):
                args[i] = cst(scalar(sig[i]))
            else:
                args[i] = ["wild"]
    if shape == "mixed":
        for i in range(n):
            x = rng.random()
            if x < 0.45 or (sig[i] not in ("N", "A") and not have[sig[i]]):
                args[i] = ["wild"]
            elif have[sig[i]] and x < 0.88:
                args[i] = var(rng.choice(have[sig[i]]))
            elif sig[i] in ("N", "A"):
                args[i] = cst(scalar(sig[i]))
            else:
                args[i] = ["wild"]
        if not any(a == ["wild"] for a in args):
            args[rng.randrange(n)] = ["wild"]
    used = set(a[1] for a in args if a[0] == "var")
    return atom(p, *args), shape, used


def add_wild_neg(rng, prog, sig, prob=0.4):
    """Template of the C01 wildcard-negation stream: clauses of a generated program get
    wildcards inside negated atoms -
    (a) arguments of negated atoms that are already there are replaced by `_`,
    (b) new negated atoms over predicates of strictly lower layers / extensional predicates are
        inserted: `!r(X, _)`, `!r(_, X)`, `!r(_, _)`, `!r(X, _, X)`, constants mixed in; every
        variable used is bound by the premises before the chosen body position (the generator's
        safety discipline: the analysis would otherwise move the atom, which is C04's subject),
        the position is anywhere from there to the end of the body (also position 0 for atoms
        without variables, also between the atoms of a recursive clause: the delta positions shift).
    Layers, heads and every other premise stay as they are, so the program remains stratified and
    safe; negation only removes solutions, so termination bounds are kept. The result is inside
    the modelled fragment (compared with the Coq model like every other program).
    Returns statistics ({} if nothing was changed)."""
    layer_of = {p: i for i, l in enumerate(prog["layers"]) for p in l}
    st = {}

    def cnt(k):
        st[k] = st.get(k, 0) + 1

    def scalar(t):
        if t == "N":
            return num(rng.choice([0, 1, 2, 3, 4, 5]))
        return name(rng.choice(NAMES))
    for c in prog["clauses"]:
        if not c["body"] or rng.random() > prob:
            continue
        hl = layer_of.get(c["head"]["p"])
        if hl is None:
            continue
        touched = False
        # (a) wildcards into the negated atoms that are there
        for p in c["body"]:
            if p[0] == "neg" and p[1]["args"] and rng.random() < 0.5:
                n = len(p[1]["args"])
                idx = [i for i in range(n) if rng.random() < 0.4] or [rng.randrange(n)]
                for i in idx:
                    if p[1]["args"][i] != ["wild"]:
                        p[1]["args"][i] = ["wild"]
                cnt("existing_atom_wildcarded")
                cnt("existing:%s" % ("all-wild" if all(a == ["wild"] for a in p[1]["args"]) else "some-wild"))
                touched = True
        # (b) new negated atoms
        lower = sorted(q for q in sig if layer_of.get(q, -1) < hl and len(sig[q]) >= 1)
        if lower and (not touched or rng.random() < 0.6):
            for _ in range(rng.choice([1, 1, 1, 2])):
                ty = clause_var_types(c, sig)
                letdefs = set(v for v, _ in c.get("let", []))
                for v in letdefs:
                    ty.pop(v, None)
                bb = bound_before(c)
                q = rng.choices(lower, [(1, 8, 16)[min(len(sig[x]), 3) - 1] * (2 if x in layer_of else 1) for x in lower])[0]
                a, shape, used = wild_neg_atom(rng, c, q, {"sig": sig[q], "ty": ty}, bb, scalar)
                lo = min(j for j in range(len(bb)) if used <= bb[j])
                n = len(c["body"])
                x = rng.random()
                slot = lo if x < 0.3 else (n if x < 0.5 else rng.randint(lo, n))
                c["body"].insert(slot, ["neg", a])
                cnt("new_atom")
                cnt("shape:" + shape)
                cnt("over:" + ("derived" if q in layer_of else "extensional"))
                cnt("slot:" + ("first" if slot == 0 else ("last" if slot == n else "inner")))
                cnt("wildcards_in_atom:%d" % sum(1 for t in a["args"] if t == ["wild"]))
                if len(used) < sum(1 for t in a["args"] if t[0] == "var"):
                    cnt("repeated_variable")
                if any(p[0] == "atom" and layer_of.get(p[1]["p"]) == hl for p in c["body"]):
                    cnt("in_recursive_clause")
                if c.get("let"):
                    cnt("in_clause_with_let")
                touched = True
        if touched:
            cnt("clauses_changed")
    if st:
        prog["features"] = sorted(set(prog.get("features", [])) | {"neg", "neg-wild"})
    return st
