"""C16 - interactive definitions and pop compose like a stack.

Theorems: coq/Props/C16.v about the model coq/Interp/Stack.v.
Correspondence: command histories on the real interpreter.Interpreter (M),
compared after EVERY command with
 (ii) a fresh interpreter.New replaying only the live commands (F) - the
      property's own oracle, it decides VIOLATION; and
 (i)  the Coq model run with the parse/analyse/eval results observed on F
      plugged in as tables (Run/C16.v judge).
"""
import glob
import itertools
import json
import os
from concurrent.futures import ThreadPoolExecutor
from vlib.core import C, Raw, coq

UNIVERSE = ["a", "b", "c", "d", "e", "t", "u", "x"]

FILES = {
    "a.mg": "Decl a(X) bound [/number].\na(1).\na(2).\n",
    "b.mg": "b(X) :- a(X).\n",
    "c.mg": "c(5).\nd(X) :- c(X).\n",
    "x.mg": "Decl x(X) descr [extensional()] bound [/number].\nx(1).\n",
    "x2.mg": "x(2).\nx(1).\n",
    "e.mg": "# nothing here\n",
    "t.mg": "t(1)@[2024-01-01, 2024-02-01].\nt(2)@[2024-03-01, 2024-04-01].\n",
    "bad.mg": "a(1\n",
    "unsafe.mg": "e(X) :- !a(X).\n",
    # pass analysis, fail in evaluation after deriving a fact (fix N32): div.mg only over a
    # loaded a.mg (without a: analysis error), cdiv.mg always
    "div.mg": "e(3).\nu(Y) :- a(X), Y = fn:div(X, 0).\n",
    "cdiv.mg": "c(7).\nd(Y) :- c(X), Y = fn:div(X, 0).\n",
}
# x2.mg (over x.mg) and e.mg add no clause for a new predicate: they load successfully any
# number of times while live (fix N30)
PATHSETS = ["a.mg", "b.mg", "c.mg", "x.mg", "t.mg", "a.mg,b.mg", "x.mg,x2.mg", "a.mg,c.mg",
            "bad.mg", "unsafe.mg", "missing.mg", "a.mg,missing.mg",
            "x2.mg", "e.mg", "e.mg", "div.mg", "div.mg", "cdiv.mg", "a.mg,div.mg", "e.mg,x2.mg"]


# ---------------------------------------------------------------- generators
def gen_define(rng):
    """(text, kind). Kinds name the intent; what actually happens depends on the state."""
    r = rng.random()
    k = rng.randint(1, 4)
    if r < 0.25:
        p = rng.choice(["c", "d", "e"])
        return "%s(%d)." % (p, k), "fact"
    if r < 0.31:
        return "c(%d). e(%d)." % (k, k + 1), "facts2"
    if r < 0.50:
        h = rng.choice(["d", "e", "u"])
        b = rng.choice(["c", "a", "b", "x", "d"])
        if h == b:
            b = "c"
        neg = rng.choice(["", "", ", !c(X)", ", !a(X)"]) if b not in ("c",) else rng.choice(["", ", !a(X)"])
        return "%s(X) :- %s(X)%s." % (h, b, neg), "rule"
    if r < 0.55:
        return "u(X) :- t(X)@[2024-01-05].", "temporal-rule"
    if r < 0.60:
        return "t(%d)@[2024-01-0%d, 2024-01-1%d]." % (k, k, k), "temporal-fact"
    if r < 0.67:
        return "x(%d)." % rng.choice([1, 2, 3]), "ext-fact"
    if r < 0.75:
        return rng.choice(["c(1", "d(X) :- .", ")", "e(X) :- c(X)", "c(1)) ."]), "parse-invalid"
    if r < 0.82:
        return rng.choice(["e(X) :- !c(X).", "d(X, Y) :- c(X).", "u(Y) :- c(X), !d(Y)."]), "unsafe"
    if r < 0.87:
        return rng.choice(["c(1, 2).", "d(1, 2, 3).", "e(X, X) :- c(X)."]), "arity"
    if r < 0.93:
        return rng.choice(["a(9).", "b(X) :- c(X).", "a(X) :- c(X).", "c(%d)." % (k + 4), "t(7)."]), "redefine"
    if r < 0.96:
        return rng.choice(["Decl c(X).", "Decl d(X) bound [/number].", "Decl x(X).", "Decl a(X)."]), "decl"
    return rng.choice(["e(Y) :- c(X), Y = fn:div(X, 0).", "u(Y) :- a(X), Y = fn:div(1, 0)."]), "eval-fail"


def gen_history(rng, maxlen=25):
    n = rng.randint(1, maxlen)
    wd, wl, wp, wq = rng.choice([(50, 20, 18, 12), (35, 35, 25, 5), (65, 10, 20, 5), (40, 15, 40, 5)])
    cmds, kinds = [], []
    loaded = []
    for _ in range(n):
        r = rng.randrange(wd + wl + wp + wq)
        if r < wd:
            t, kind = gen_define(rng)
            cmds.append({"op": "define", "text": t})
            kinds.append("define:" + kind)
        elif r < wd + wl:
            if loaded and rng.random() < 0.2:
                # a pathset that this history loaded before (it may still be live)
                p = rng.choice(loaded)
                cmds.append({"op": "load", "path": p})
                kinds.append("load:again")
                continue
            p = rng.choice(PATHSETS)
            loaded.append(p)
            cmds.append({"op": "load", "path": p})
            kinds.append("load:" + ("two" if "," in p else "one"))
        elif r < wd + wl + wp:
            cmds.append({"op": "pop"})
            kinds.append("pop")
        else:
            cmds.append({"op": "query", "q": rng.choice(UNIVERSE + ["zz"])})
            kinds.append("query")
    return {"files": FILES, "universe": UNIVERSE, "cmds": cmds, "kinds": kinds, "shape": "random"}


ALPHABETS = [
    [{"op": "define", "text": "c(1)."}, {"op": "define", "text": "d(X) :- c(X), a(X)."},
     {"op": "load", "path": "a.mg"}, {"op": "pop"}],
    [{"op": "define", "text": "c(1)."}, {"op": "define", "text": "e(X) :- !c(X)."},
     {"op": "load", "path": "c.mg"}, {"op": "pop"}],
    # the same pathset live several times (N30), loads failing in evaluation / analysis (N32):
    # div.mg is rejected by analysis without a.mg and by evaluation over it, a.mg loads once
    [{"op": "load", "path": "e.mg"}, {"op": "load", "path": "a.mg"},
     {"op": "load", "path": "div.mg"}, {"op": "pop"}],
]


def exhaustive_histories(maxlen):
    for alpha in ALPHABETS:
        for n in range(1, maxlen + 1):
            for combo in itertools.product(alpha, repeat=n):
                yield {"files": FILES, "universe": UNIVERSE, "cmds": list(combo), "shape": "exhaustive"}


# ------------------------------------------------------------------ encoding
class Intern:
    def __init__(self):
        self.d = {}

    def __call__(self, key):
        if key not in self.d:
            self.d[key] = len(self.d) + 1
        return self.d[key]


def cq_case(case, out):
    """Coq term `mk n ptab atab etab history` for Run.C16.judge."""
    univ = case["universe"]
    pidx = {n: i + 1 for i, n in enumerate(univ)}
    pidx[""] = -1    # pseudo predicate: identity of the stack of loaded fragments (see keyKnown in the harness)
    chunk, path, decl, fact = Intern(), Intern(), Intern(), Intern()

    def cq_src(s):
        if s.get("f") is not None:
            return C("SFile", path(s["f"]))
        return C("SInter", [chunk(t) for t in s.get("i") or []])

    def cq_decls(ds):
        return [C("kd", *pd) for pd in sorted((pidx[d["name"]], decl(json.dumps(d["src"], sort_keys=True))) for d in ds)]

    def cq_facts(fs):
        return [C("fa", pidx[f[0]], fact((f[0], f[1]))) for f in fs]

    ptab = [C("pe", cq_src(e["src"]), bool(e["ok"])) for e in out["ptab"]]
    atab = [C("ae", cq_src(e["src"]), cq_decls(e["known"]),
              C("pg", e["prog"], cq_decls(e["decls"])) if e["ok"] else Raw("nopg"))
            for e in out["atab"]]
    etab = [C("ee", e["prog"], cq_facts(e["visible"]), cq_facts(e["facts"]), bool(e["ok"])) for e in out["etab"]]
    hist = []
    for c, st in zip(case["cmds"], out["steps"]):
        if c["op"] == "define":
            cc = C("CDefine", chunk(c["text"]))
        elif c["op"] == "load":
            cc = C("CLoad", path(c["path"]))
        elif c["op"] == "pop":
            cc = Raw("CPop")
        else:
            cc = C("CQuery", pidx.get(c["q"], 0))
        preds = st["obs"]["preds"]
        ob = [C("ob", pidx[n], [C("fa", pidx[n], fact((n, f))) for f in preds[n]]) for n in univ if n in preds]
        hist.append(C("st", cc, st["res"], ob))
    return coq(C("mk", Raw("%d%%nat" % len(univ)), ptab, atab, etab, hist))


# ------------------------------------------------------- the property's oracle
def oracle_violation(case, out):
    """(ii): M must answer every command and every query exactly as the fresh
    interpreter that replayed only the live commands. Returns (index, why) or None."""
    for k, st in enumerate(out["steps"]):
        if st["res"] != st["fres"]:
            return k, "command %d %s: result class %d, a fresh interpreter after the live commands %s gives %d" % (
                k, json.dumps(case["cmds"][k]), st["res"], st["live"], st["fres"])
        if st["obs"]["preds"] != st["fobs"]["preds"]:
            diff = {n: [st["obs"]["preds"].get(n), st["fobs"]["preds"].get(n)] for n in case["universe"]
                    if st["obs"]["preds"].get(n) != st["fobs"]["preds"].get(n)}
            return k, "after command %d %s answers differ from a fresh replay of the live commands %s: {pred: [history, fresh]} = %s" % (
                k, json.dumps(case["cmds"][k]), st["live"], json.dumps(diff))
        if st["obs"]["show"] != st["fobs"]["show"]:
            return k, "after command %d Show(all) differs from a fresh replay: %s vs %s" % (
                k, st["obs"]["show"], st["fobs"]["show"])
    return None


def run_sharded(ck, cases, shards=16):
    if not cases:
        return []
    n = max(1, (len(cases) + shards - 1) // shards)
    parts = [cases[i:i + n] for i in range(0, len(cases), n)]
    strip = [[{"files": c["files"], "universe": c["universe"], "cmds": c["cmds"]} for c in p] for p in parts]
    with ThreadPoolExecutor(max_workers=len(parts)) as ex:
        res = list(ex.map(lambda p: ck.run_go("c16", p), strip))
    return [o for r in res for o in r]


def fails(ck, case):
    o = ck.run_go("c16", [{"files": case["files"], "universe": case["universe"], "cmds": case["cmds"]}])[0]
    if "out" not in o:
        return o, ("harness", o.get("panic") or o.get("err"))
    return o, oracle_violation(case, o["out"])


def shrink(ck, case):
    """Delete commands while the history still fails the oracle."""
    cur = dict(case)
    cur.pop("kinds", None)
    changed = True
    while changed and len(cur["cmds"]) > 1:
        changed = False
        cands = [dict(cur, cmds=cur["cmds"][:i] + cur["cmds"][i + 1:]) for i in range(len(cur["cmds"]))]
        outs = run_sharded(ck, cands, shards=8)
        for cand, o in zip(cands, outs):
            bad = ("out" not in o) or oracle_violation(cand, o["out"])
            if bad:
                cur, changed = cand, True
                break
    return cur


# ----------------------------------------------------------------- the check
def load_corpus():
    cases = []
    for path in sorted(glob.glob(os.path.join(os.path.dirname(__file__), "..", "corpus", "C16", "*.json"))):
        c = json.load(open(path))
        c.setdefault("files", FILES)
        c.setdefault("universe", UNIVERSE)
        c["shape"] = "corpus"
        cases.append(c)
    return cases


def judge_cases(ck, cases, outs):
    terms, idxs = [], []
    for i, (c, o) in enumerate(zip(cases, outs)):
        if "out" in o:
            terms.append(cq_case(c, o["out"]))
            idxs.append(i)
    verdicts = ck.run_coq("C16", "judge", terms, shard=max(150, len(terms) // 16 + 1))
    return idxs, verdicts, terms


def run(ck):
    ck.obligations()
    ck.build_harness()
    rng = ck.rng
    cases = load_corpus()
    ncorpus = len(cases)
    for _ in range(ck.n(300, 10000)):
        cases.append(gen_history(rng))
    nrandom = len(cases) - ncorpus
    exhaustive = False
    if not ck.quick:
        cases += list(exhaustive_histories(6))
        exhaustive = True
    ck.log("running %d histories on the interpreter" % len(cases))
    outs = run_sharded(ck, cases)
    # (ii) the property's own oracle
    nviol = 0
    for i, (c, o) in enumerate(zip(cases, outs)):
        bad = ("harness", o.get("panic") or o.get("err")) if "out" not in o else oracle_violation(c, o["out"])
        if not bad:
            continue
        nviol += 1
        if len(ck.violations) >= 5:
            continue
        small = shrink(ck, c)
        so, sbad = fails(ck, small)
        if not sbad:
            small, so, sbad = c, o, bad
        ck.violation({"property": "C16",
                      "kind": "history answers differ from a fresh interpreter replaying the live commands"
                              if sbad[0] != "harness" else "interpreter panics / harness error on a legal history",
                      "case": {"files": small["files"], "universe": small["universe"], "cmds": small["cmds"]},
                      "why": sbad[1], "impl": so.get("out", so), "original_length": len(c["cmds"])})
    ck.log("oracle (fresh replay of live commands): %d failing histories" % nviol)
    # (i) the Coq model with the observed tables
    idxs, verdicts, terms = judge_cases(ck, cases, outs)
    disagreements = 0
    for i, v, term in zip(idxs, verdicts, terms):
        if v == 0:
            continue
        disagreements += 1
        if oracle_violation(cases[i], outs[i]["out"]):
            continue   # already reported with the oracle's verdict
        if len(ck.violations) >= 5:
            continue
        c = cases[i]
        ck.violation({"property": "C16",
                      "kind": "correspondence model/implementation broken: the interpreter agrees with a fresh replay "
                              "but not with the model",
                      "case": {"files": c["files"], "universe": c["universe"], "cmds": c["cmds"]},
                      "first_disagreeing_command": v, "cmd": c["cmds"][v - 1],
                      "impl": outs[i]["out"]["steps"][v - 1],
                      "model_trace": ck.coq_show("C16", "model_trace " + term),
                      "no_longer_checks": "correspondence Run.C16.judge: model Interp/Stack.v vs interpreter/interpreter.go "
                                          "(theorems of Props/C16.v no longer tied to the code)"},
                     "no-failing-input-found")
    # coverage
    kinds, results, shapes = {}, {}, {}
    lens = {}
    for c, o in zip(cases, outs):
        shapes[c["shape"]] = shapes.get(c["shape"], 0) + 1
        lens[len(c["cmds"])] = lens.get(len(c["cmds"]), 0) + 1
        for j, cmd in enumerate(c["cmds"]):
            kind = c["kinds"][j] if "kinds" in c else cmd["op"]
            kinds[kind] = kinds.get(kind, 0) + 1
            if "out" in o:
                key = "%s:%d" % (cmd["op"], o["out"]["steps"][j]["res"])
                results[key] = results.get(key, 0) + 1
    nontrivial = set()
    depth = {}
    live_twice = 0
    for c, o in zip(cases, outs):
        if "out" not in o:
            continue
        steps = o["out"]["steps"]
        d = max((len(s["live"]) for s in steps), default=0)
        depth[d] = depth.get(d, 0) + 1
        for s in steps:
            paths = [c["cmds"][k]["path"] for k in s["live"] if c["cmds"][k]["op"] == "load"]
            if len(paths) != len(set(paths)):
                live_twice += 1
                break
        shrinks = sum(1 for a, b in zip(steps, steps[1:]) if len(b["live"]) < len(a["live"]))
        if d >= 2 and shrinks >= 1:
            nontrivial.add(json.dumps(c["cmds"], sort_keys=True))
    cov = {"evaluations": len(cases), "distinct_nontrivial": len(nontrivial),
           "rule": "command histories on interpreter.Interpreter (corpus %d, random %d, exhaustive block %d), every "
                   "universe predicate queried after every command on the history interpreter and on a fresh interpreter "
                   "replaying the live commands; non-trivial = at least two live commands at some point and at least one "
                   "command that shrinks the live list (pop / load over interactive definitions); distinct by command list"
                   % (ncorpus, nrandom, len(cases) - ncorpus - nrandom),
           "exhaustive": exhaustive,
           "exhaustive_scope": "every history of length 1..6 over each of two 4-command alphabets "
                               "(define fact, define rule / rejected rule, load, pop) and one of loads only "
                               "(empty file, declared facts, file failing in evaluation over them, pop): 3 x 5460"
                               if exhaustive else "",
           "commands": sum(len(c["cmds"]) for c in cases),
           "command_kinds": kinds, "result_classes(op:class 0 ok 1 parse 2 analysis 3 eval 4 unknown)": results,
           "max_live_depth": depth, "history_lengths": lens, "shapes": shapes,
           "histories_with_a_pathset_live_twice": live_twice,
           "loads_rejected_in_evaluation": results.get("load:3", 0),
           "oracle_failures": nviol, "model_disagreements": disagreements,
           "samples": [cases[ncorpus]["cmds"][:8], cases[-1]["cmds"][:6]]}
    return ck.finish(cov, assumptions=[
        "model hand-written (coq/Interp/Stack.v); tied to interpreter/interpreter.go by differential replay only",
        "parse / analyse / eval are arbitrary deterministic functions in the theorems; in the correspondence they are the "
        "results observed on fresh Go interpreters (tables), so the engine itself is not checked here (C01)",
        "simple and temporal store are one layered store in the model (they are pushed and popped in lock step)",
        "known-predicate table observed through ParseQuery on a fixed universe of predicate names and Show(all)",
        "main stream avoids: a file named interactive-buffer"])


def replay(ck, path):
    ck.build_harness()
    rep = json.load(open(path))
    case = rep["case"]
    case.setdefault("files", FILES)
    case.setdefault("universe", UNIVERSE)
    o, bad = fails(ck, case)
    if bad:
        print("replay: %s" % (bad[1],))
        print("VIOLATION property=C16 replay=%s" % path)
        return 1
    v = ck.run_coq("C16", "judge", [cq_case(case, o["out"])])[0]
    print("replay: oracle agrees; model first disagreeing command = %d" % v)
    if v != 0:
        print("VIOLATION property=C16 replay=%s no-failing-input-found" % path)
        return 1
    return 0


META = {
    "text": "Machine-checked theorems (coq/Props/C16.v) about a Gallina model of the interpreter's state machine "
            "(fragment stack, known-predicate table, interactive buffer, layered teeing stores; Define / Load / Pop / "
            "Query as in interpreter.go after fixes N2, N5, N30, N32) with parsing, analysis and evaluation as arbitrary "
            "functions: after every command history the state equals the state of a fresh interpreter after the live "
            "commands, pop is exact (also with the same pathset live several times), a rejected define is a no-op, a "
            "rejected load pushes nothing, checkpoints are never written. The model is tied to "
            "the Go interpreter on every run by command histories (exhaustive to length 6 over three alphabets in the "
            "thorough tier) whose answers after each command are compared with a fresh interpreter replaying the live "
            "commands and with the model evaluated inside Coq.",
    "note": "Trusted: Coq kernel + vm_compute; model tied to the code by differential replay (sampled; exhaustive for "
            "short histories over small alphabets); the engine/analysis are abstracted (tables observed from Go). "
            "Load drops the interactive definitions before it does anything else, also when it is then rejected "
            "(documented in the help text); this is modelled, not judged.",
}
