"""C14 - temporal operators and annotations mean what the documentation says.

Theorems: coq/Props/C14.v. Correspondence: one- and two-rule temporal programs
evaluated by engine.EvalProgram (WithTemporalStore / WithEvaluationTime) on a
tiny nanosecond timeline vs the model coq/Temporal/Operators.v evaluated in
Coq; interval relations through builtin.Decide vs coq/Temporal/Allen.v. An
independent brute-force oracle (pointwise meaning over the instants of the
timeline, this file) judges the implementation directly on every case in the
documented domain and classifies disagreements.
"""
import glob
import itertools
import json
import os

from vlib.core import C, Raw, coq, known_for

MIN64, MAX64 = -(1 << 63), (1 << 63) - 1
OPS = ["dm", "bm", "dp", "bp"]
OPCOQ = {"dm": "DiamondMinus", "bm": "BoxMinus", "dp": "DiamondPlus", "bp": "BoxPlus"}
RELS = [":interval:before", ":interval:after", ":interval:meets", ":interval:overlaps", ":interval:during",
        ":interval:contains", ":interval:starts", ":interval:finishes", ":interval:equals"]


# ------------------------------------------------------------------ encoding
def cq_cst(c):
    return C({"c": "CName", "n": "CNum", "t": "CTime"}[c[0]], c[1])


def cq_term(t):
    if t[0] == "v":
        return C("TVar", t[1])
    if t[0] == "w":
        return Raw("TWild")
    return C("TCst", cq_cst(t))


def cq_pbound(b):
    k = b[0]
    if k == "ts":
        return C("BTs", b[1])
    if k == "var":
        return C("BVar", b[1])
    if k == "dur":
        return C("BDur", b[1])
    return Raw({"-inf": "BNegInf", "+inf": "BPosInf", "now": "BNow"}[k])


def new_interval(iv):
    """ast.NewInterval as applied by the harness to annotations / head intervals / stored intervals"""
    s, e = iv
    if s[0] == "+inf":
        s = ["-inf"]
    if e[0] == "-inf":
        e = ["+inf"]
    return [s, e]


def cq_bound(b):
    return C("Ts", b[1]) if b[0] == "ts" else Raw("NegInf" if b[0] == "-inf" else "PosInf")


def cq_fact(f):
    iv = new_interval(f["iv"])
    return C("F", f["p"], [cq_cst(a) for a in f["args"]], cq_bound(iv[0]), cq_bound(iv[1]))


OPNUM = {None: 0, "dm": 1, "bm": 2, "dp": 3, "bp": 4}
DUMMY = Raw("BNow")


def cq_prem(p):
    w = p["w"] if p.get("op") else None
    ann = new_interval(p["ann"]) if p.get("ann") is not None else None
    return C("L", OPNUM[p.get("op")], cq_pbound(w[0]) if w else DUMMY, cq_pbound(w[1]) if w else DUMMY,
             p["p"], [cq_term(t) for t in p["args"]], ann is not None,
             cq_pbound(ann[0]) if ann else DUMMY, cq_pbound(ann[1]) if ann else DUMMY)


def cq_rule(r):
    ht = new_interval(r["ht"]) if r.get("ht") is not None else None
    return C("R", r["p"], [cq_term(t) for t in r["args"]], ht is not None,
             cq_pbound(ht[0]) if ht else DUMMY, cq_pbound(ht[1]) if ht else DUMMY, [cq_prem(p) for p in r["prem"]])


def pid(name):
    return int(name[1:])


def cq_obs(out):
    res = []
    for f in out.get("facts") or []:
        args = [cq_cst(a) for a in f["args"]]
        if f["iv"] is None:
            res.append(C("D0", pid(f["p"]), args))
        else:
            res.append(C("D1", pid(f["p"]), args, cq_bound(f["iv"][0]), cq_bound(f["iv"][1])))
    return res


def edb_of(case, out):
    """the stored pairs before evaluation: as sent, or as reported after store.Coalesce"""
    if case.get("coalesce"):
        return [{"p": pid(f["p"]), "args": f["args"], "iv": f["iv"]} for f in out["edb"]]
    return case["edb"]


def batch_masks(case, out):
    """per rule of a batched case the bit mask of derived constants; None if a fact has an unexpected form"""
    masks = {r["p"]: 0 for r in case["rules"]}
    for f in out["facts"]:
        a = f["args"]
        if f["iv"] is not None or len(a) != 1 or a[0][0] != "c" or not 0 <= a[0][1] < 30:
            return None
        masks[pid(f["p"])] += 1 << a[0][1]
    return [masks[r["p"]] for r in case["rules"]]


def cq_case(case, out):
    if case.get("shape") == "batched" and "facts" in out:
        m = batch_masks(case, out)
        if m is not None:
            return coq(C("CBatch", case["now"], [cq_fact(f) for f in edb_of(case, out)], Raw(str(case["T"])), m))
    return coq(C("P", case["now"], [cq_fact(f) for f in edb_of(case, out)],
                 [cq_rule(r) for r in case["rules"]], "facts" in out, cq_obs(out)))


# -------------------------------------------------- independent pointwise oracle
class Outside(Exception):
    """the case leaves the documented domain on which the oracle has an opinion"""


def ivkey(iv):
    iv = new_interval(iv)
    s = MIN64 if iv[0][0] == "-inf" else iv[0][1]
    e = MAX64 if iv[1][0] == "+inf" else iv[1][1]
    return s, e


def holds(se, t):
    return se[0] <= t <= se[1]


def coalesced(ses):
    ses = sorted(set(ses))
    return all(a[1] + 1 < b[0] for a, b in zip(ses, ses[1:]))


def o_unify(terms, args, s):
    s = dict(s)
    if len(terms) != len(args):
        return None
    for t, a in zip(terms, args):
        a = tuple(a)
        if t[0] == "w":
            continue
        if t[0] == "v":
            if t[1] in s:
                if s[t[1]] != a:
                    return None
            else:
                s[t[1]] = a
        elif tuple(t) != a:
            return None
    return s


def o_window(now, op, w):
    if w[0][0] != "dur" or w[1][0] != "dur":
        raise Outside("window bound that is not a duration")
    d1, d2 = w[0][1], w[1][1]
    if not 0 <= d1 <= d2:
        raise Outside("window not 0 <= d1 <= d2 (N4)")
    return (now - d2, now - d1) if op in ("dm", "bm") else (now + d1, now + d2)


def o_literal(now, store, lit, s):
    """solutions of one literal by the documented meaning, instant by instant"""
    facts = [(tuple(map(tuple, f["args"])), ivkey(f["iv"])) for f in store if f["p"] == lit["p"]]
    ann = lit.get("ann")
    annvars = [b[1] for b in (ann or []) if b[0] == "var"]
    fresh = [v for v in annvars if v not in s]
    if ann is not None:
        if fresh and (len(fresh) != len(annvars) or len(set(annvars)) != len(annvars)):
            raise Outside("annotation mixes bound and unbound variables or repeats one (N60)")

    def bind(s2, se):
        if ann is None or not fresh:
            return s2
        s3 = dict(s2)
        a = new_interval(ann)
        for b, val in ((a[0], se[0]), (a[1], se[1])):
            if b[0] == "var":
                if b[1] in s3 and s3[b[1]] != ("t", val):
                    raise Outside("annotation variable also occurs among the arguments")
                s3[b[1]] = ("t", val)
        return s3

    sols = []
    if lit.get("op"):
        lo, hi = o_window(now, lit["op"], lit["w"])
        if not (MIN64 < lo and hi < MAX64):
            raise Outside("window leaves int64")
        if hi - lo > 1000:
            raise Outside("window too long for the instant-by-instant oracle")
        if ann is not None and not fresh and annvars:
            raise Outside("operator with an already bound annotation")
        instants = range(lo, hi + 1)
        if lit["op"] in ("dm", "dp"):
            for args, se in facts:
                s2 = o_unify(lit["args"], args, s)
                if s2 is not None and any(holds(se, t) for t in instants):
                    sols.append(bind(s2, se))
        else:
            by_atom = {}
            for args, se in facts:
                by_atom.setdefault(args, []).append(se)
            for args, ses in by_atom.items():
                s2 = o_unify(lit["args"], args, s)
                if s2 is None:
                    continue
                if not coalesced(ses):
                    raise Outside("box operator over a store that is not coalesced")
                if all(any(holds(se, t) for se in ses) for t in instants):
                    cover = [se for se in ses if holds(se, lo) and holds(se, hi)]
                    for se in cover or [ses[0]]:
                        sols.append(bind(s2, se))
        return sols
    if ann is None:
        for args, se in facts:
            s2 = o_unify(lit["args"], args, s)
            if s2 is not None and holds(se, now):
                sols.append(s2)
        return sols
    if fresh:
        for args, se in facts:
            s2 = o_unify(lit["args"], args, s)
            if s2 is not None:
                sols.append(bind(s2, se))
        return sols
    # fully determined annotation: the fact must hold throughout it
    q = o_resolve(now, ann, s)
    if q is None or q == "invalid":
        raise Outside("annotation not a proper interval")
    for args, se in facts:
        s2 = o_unify(lit["args"], args, s)
        if s2 is not None and se[0] <= q[0] and q[1] <= se[1]:
            sols.append(s2)
    return sols


def o_resolve(now, iv, s):
    iv = new_interval(iv)
    res = []
    for k, b in enumerate(iv):
        if b[0] == "ts":
            res.append(b[1])
        elif b[0] == "now":
            res.append(now)
        elif b[0] == "-inf":
            res.append(MIN64)
        elif b[0] == "+inf":
            res.append(MAX64)
        elif b[0] == "var":
            v = s.get(b[1])
            if v is None or v[0] not in ("n", "t"):
                return None
            res.append(v[1])
        else:
            return None
    if res[0] > res[1]:
        return "invalid"
    return tuple(res)


def se_to_iv(se):
    return [["-inf"] if se[0] == MIN64 else ["ts", se[0]], ["+inf"] if se[1] == MAX64 else ["ts", se[1]]]


def oracle(case, edb):
    """Least fixed point of the rules under the documented pointwise meaning.
    Returns the set of derived facts of the head predicates (as JSON strings),
    "error" when a head interval is not resolvable/valid, or raises Outside."""
    if any(f["iv"][0][0] == "ts" and f["iv"][0][1] == MIN64 for f in edb):
        raise Outside("MinInt64 start")
    store = [dict(f) for f in edb]
    plain = set()
    have = set(json.dumps([f["p"], f["args"], new_interval(f["iv"])]) for f in store)
    for _ in range(200):
        changed = False
        for r in case["rules"]:
            sols = [{}]
            for lit in r["prem"]:
                sols = [s2 for s in sols for s2 in o_literal(case["now"], store, lit, s)]
            for s in sols:
                args = []
                for t in r["args"]:
                    if t[0] == "v":
                        if t[1] not in s:
                            raise Outside("head not ground")
                        args.append(list(s[t[1]]))
                    else:
                        args.append(list(t))
                if r.get("ht") is None:
                    k = json.dumps([r["p"], args])
                    if k not in plain:
                        plain.add(k)
                        changed = True
                    continue
                q = o_resolve(case["now"], r["ht"], s)
                if q is None or q == "invalid":
                    return "error"
                f = {"p": r["p"], "args": args, "iv": se_to_iv(q)}
                k = json.dumps([f["p"], f["args"], f["iv"]])
                if k not in have:
                    have.add(k)
                    store.append(f)
                    changed = True
        if not changed:
            break
    else:
        raise Outside("no fixed point within 200 rounds")
    heads = set(r["p"] for r in case["rules"])
    res = set(json.dumps([f["p"], f["args"], list(ivkey(f["iv"]))]) for f in store if f["p"] in heads)
    return res | plain


def observed_set(out):
    if "facts" not in out:
        return "error"
    res = set()
    for f in out["facts"]:
        if f["iv"] is None:
            res.add(json.dumps([pid(f["p"]), f["args"]]))
        else:
            # intervals are compared by their end points as instants: an unbounded end and the
            # timestamp MaxInt64 / MinInt64 (what an annotation variable carries) denote the same instants
            res.add(json.dumps([pid(f["p"]), f["args"], list(ivkey(f["iv"]))]))
    return res


# ---------------------------------------------------------------- generators
CONSTS = [["c", 0], ["c", 1], ["c", 2]]
E0, E1, L2, H5, H6 = 0, 1, 2, 5, 6          # predicate ids: e0/1, e1/1, l2/2, heads h5, h6
ARITY = {E0: 1, E1: 1, L2: 2}


def ts(n):
    return ["ts", n]


def dur(n):
    return ["dur", n]


def var(n):
    return ["var", n]


def V(n):
    return ["v", n]


def runs_of(bits, T):
    """maximal runs of the instant set given as a bit mask -> coalesced interval list"""
    out, t = [], 0
    while t <= T:
        if bits >> t & 1:
            s = t
            while t + 1 <= T and bits >> (t + 1) & 1:
                t += 1
            out.append([ts(s), ts(t)])
        t += 1
    return out


def gen_edb(rng, T, mode):
    """mode: separated (coalesced by construction), raw, gocoalesce"""
    edb = []
    for p in (E0, E1):
        for c in rng.sample(CONSTS, rng.randint(1, 2)):
            if mode == "separated":
                ivs = runs_of(rng.randrange(1, 1 << (T + 1)), T)
                r = rng.random()
                if r < 0.1:
                    ivs[0] = [["-inf"], ivs[0][1]]
                elif r < 0.2:
                    ivs[-1] = [ivs[-1][0], ["+inf"]]
                elif r < 0.23:
                    ivs = [[["-inf"], ["+inf"]]]
            else:
                ivs = []
                for _ in range(rng.randint(1, 3)):
                    a, b = sorted((rng.randint(0, T), rng.randint(0, T)))
                    r = rng.random()
                    iv = [ts(a), ts(b)]
                    if mode == "raw" and r < 0.08:
                        iv = [["-inf"], ts(b)]
                    elif mode == "raw" and r < 0.16:
                        iv = [ts(a), ["+inf"]]
                    if iv not in ivs:
                        ivs.append(iv)
            for iv in ivs:
                edb.append({"p": p, "args": [c], "iv": iv})
    # binary link predicate: a small cycle with intervals
    if rng.random() < 0.6:
        for (x, y) in [(0, 1), (1, 2), (2, 0)][:rng.randint(1, 3)]:
            a, b = sorted((rng.randint(0, T), rng.randint(0, T)))
            edb.append({"p": L2, "args": [CONSTS[x], CONSTS[y]], "iv": [ts(a), ts(b)] if rng.random() < 0.7 else [ts(0), ts(T)]})
    return edb


def gen_window(rng, T):
    r = rng.random()
    if r < 0.2:
        d = rng.randint(0, T + 1)
        return [dur(d), dur(d)]                       # zero-length window
    d1, d2 = sorted((rng.randint(0, T + 1), rng.randint(0, T + 1)))
    if r < 0.3:
        d1 = 0
    return [dur(d1), dur(d2)]


def gen_oplit(rng, T, p, args, ann=None, op=None):
    return {"op": op or rng.choice(OPS), "w": gen_window(rng, T), "p": p, "args": args, "ann": ann}


def lit(p, args, ann=None):
    return {"op": None, "w": None, "p": p, "args": args, "ann": ann}


def gen_rule(rng, T, head, shape=None):
    """one rule over the EDB predicates; shapes cover the five mechanisms"""
    shape = shape or rng.choice(["op", "op", "op", "op-headnow", "op-ann", "enum", "headtime", "concrete",
                                 "holdsnow", "join-op", "join-op2", "join-both-bound", "headmix", "constarg"])
    e = rng.choice([E0, E1])
    f = E1 if e == E0 else E0
    X, Y, S, E = V(0), V(1), 10, 11
    if shape == "op":
        return {"p": head, "args": [X], "ht": None, "prem": [gen_oplit(rng, T, e, [X])]}
    if shape == "constarg":
        return {"p": head, "args": [rng.choice(CONSTS)], "ht": None,
                "prem": [gen_oplit(rng, T, e, [rng.choice(CONSTS + [["w"]])])]}
    if shape == "op-headnow":
        ht = rng.choice([[["now"], ["now"]], [["now"], ["+inf"]], [["-inf"], ["now"]], [ts(1), ts(3)], [["-inf"], ["+inf"]]])
        return {"p": head, "args": [X], "ht": ht, "prem": [gen_oplit(rng, T, e, [X])]}
    if shape == "op-ann":
        return {"p": head, "args": [X], "ht": [var(S), var(E)], "prem": [gen_oplit(rng, T, e, [X], [var(S), var(E)])]}
    if shape == "enum":
        return {"p": head, "args": [X, V(S), V(E)], "ht": None, "prem": [lit(e, [X], [var(S), var(E)])]}
    if shape == "headtime":
        return {"p": head, "args": [X], "ht": [var(S), var(E)], "prem": [lit(e, [X], [var(S), var(E)])]}
    if shape == "concrete":
        a, b = sorted((rng.randint(0, T), rng.randint(0, T)))
        ann = rng.choice([[ts(a), ts(b)], [ts(a), ts(a)], [["now"], ["now"]], [ts(a), ["now"]], [["-inf"], ts(b)], [ts(a), ["+inf"]]])
        if ann[1] == ["now"]:
            ann = [ts(0), ["now"]]           # keep it a proper interval for now >= 0
        return {"p": head, "args": [X], "ht": None, "prem": [lit(e, [X], ann)]}
    if shape == "holdsnow":
        return {"p": head, "args": [X], "ht": None, "prem": [lit(e, [X])]}
    if shape == "join-op":
        return {"p": head, "args": [X], "ht": [var(S), var(E)],
                "prem": [lit(e, [X], [var(S), var(E)]), gen_oplit(rng, T, f, [X])]}
    if shape == "join-op2":
        return {"p": head, "args": [X, Y], "ht": None,
                "prem": [gen_oplit(rng, T, e, [X]), gen_oplit(rng, T, f, [Y])]}
    if shape == "join-both-bound":
        return {"p": head, "args": [X], "ht": [var(S), var(E)],
                "prem": [lit(e, [X], [var(S), var(E)]), lit(f, [X], [var(S), var(E)])]}
    if shape == "headmix":
        ht = rng.choice([[var(S), ["+inf"]], [["-inf"], var(E)], [var(S), var(S)], [var(E), var(E)], [var(S), ["now"]], [["now"], var(E)]])
        return {"p": head, "args": [X], "ht": ht, "prem": [lit(e, [X], [var(S), var(E)])]}
    raise ValueError(shape)


def gen_recursive(rng, T):
    """base + step rule for one temporal head (needs incremental rounds: fixes N1/N15)"""
    X, Y, Z, S, E = V(0), V(1), V(2), 10, 11
    kind = rng.choice(["closure", "closure", "spread", "op-step"])
    if kind == "closure":
        return [{"p": H5, "args": [X, Y], "ht": [var(S), var(E)], "prem": [lit(L2, [X, Y], [var(S), var(E)])]},
                {"p": H5, "args": [X, Z], "ht": [var(S), var(E)],
                 "prem": [lit(H5, [X, Y], [var(S), var(E)]), lit(L2, [Y, Z], [var(S), var(E)])]}]
    if kind == "spread":
        return [{"p": H5, "args": [X], "ht": [var(S), var(E)], "prem": [lit(E0, [X], [var(S), var(E)])]},
                {"p": H5, "args": [Y], "ht": [var(S), var(E)],
                 "prem": [lit(H5, [X], [var(S), var(E)]), lit(L2, [X, Y], [var(S), var(E)])]}]
    return [{"p": H5, "args": [X], "ht": [["now"], ["now"]], "prem": [gen_oplit(rng, T, E0, [X])]},
            {"p": H5, "args": [Y], "ht": [["now"], ["now"]],
             # (analysis rejects future operators in recursive temporal rules)
             "prem": [gen_oplit(rng, T, H5, [X], op=rng.choice(["dm", "bm"])), lit(L2, [X, Y], [var(S), var(E)])]}]


def gen_chained(rng, T):
    """rule 2 reads the temporal head of rule 1 (stratification: F4)"""
    X, S, E = V(0), 10, 11
    r1 = gen_rule(rng, T, H5, rng.choice(["headtime", "op-ann", "op-headnow", "headmix"]))
    second = rng.choice(["op", "enum", "holdsnow"])
    if second == "op":
        r2 = {"p": H6, "args": [X], "ht": None, "prem": [gen_oplit(rng, T, H5, [X])]}
    elif second == "enum":
        r2 = {"p": H6, "args": [X, V(S), V(E)], "ht": None, "prem": [lit(H5, [X], [var(S), var(E)])]}
    else:
        r2 = {"p": H6, "args": [X], "ht": None, "prem": [lit(H5, [X])]}
    return [r1, r2]


def temporal_decls(rules, edb):
    t = {str(p): a for p, a in ARITY.items()}
    for r in rules:
        if r.get("ht") is not None:
            t[str(r["p"])] = len(r["args"])
    return t


def mk_case(now, edb, rules, shape, coalesce=False):
    return {"now": now, "coalesce": coalesce, "limit": 0, "temporal": temporal_decls(rules, edb),
            "edb": edb, "rules": rules, "shape": shape}


def gen_case(rng, chained_ok):
    T = rng.choice([3, 4, 4, 5])
    mode = rng.choice(["separated", "separated", "raw", "gocoalesce"])
    edb = gen_edb(rng, T, mode)
    now = rng.randint(-1, T + 2)
    kinds = ["one", "one", "two-independent", "recursive"] + (["chained"] if chained_ok else [])
    kind = rng.choice(kinds)
    if kind == "one":
        rules = [gen_rule(rng, T, H5)]
    elif kind == "two-independent":
        rules = [gen_rule(rng, T, H5), gen_rule(rng, T, H6)]
    elif kind == "recursive":
        rules = gen_recursive(rng, T)
    else:
        rules = gen_chained(rng, T)
    return mk_case(now, edb, rules, kind + "/" + mode, coalesce=(mode == "gocoalesce"))


def wide_case(rng):
    """int64 edge: evaluation time and stored end points near the ends of the range, durations small
    (no-overflow hypothesis of the theorems holds) or huge (wrap: model only, outside the oracle)"""
    base = rng.choice([MAX64 - 8, MIN64 + 8])
    edb = [{"p": E0, "args": [CONSTS[0]], "iv": [ts(base - 2), ts(base + 2)]},
           {"p": E0, "args": [CONSTS[1]], "iv": [ts(base + 4), ts(base + 5)]}]
    d1, d2 = sorted((rng.randint(0, 7), rng.randint(0, 7)))
    if rng.random() < 0.3:
        d2 = rng.choice([20, 1 << 62, MAX64])
    op = rng.choice(OPS)
    rules = [{"p": H5, "args": [V(0)], "ht": None,
              "prem": [{"op": op, "w": [dur(d1), dur(d2)], "p": E0, "args": [V(0)], "ann": None}]}]
    return mk_case(base + rng.randint(-3, 3), edb, rules, "int64-edge")


def all_windows(T):
    return [(d1, d2) for d1 in range(0, T + 2) for d2 in range(d1, T + 2)]


def batched_case(T, bits, now, extra=None):
    """One coalesced store of the atom e0(c0) (its instant set = bits) plus a fixed second atom,
    every operator x every window as independent rules h_k(X) :- OP[d1,d2] e0(X)."""
    edb = [{"p": E0, "args": [CONSTS[0]], "iv": iv} for iv in runs_of(bits, T)]
    edb += extra if extra is not None else [{"p": E0, "args": [CONSTS[1]], "iv": [ts(1), ts(2)]}]
    rules = []
    k = 100
    for op in OPS:
        for d1, d2 in all_windows(T):
            rules.append({"p": k, "args": [V(0)], "ht": None,
                          "prem": [{"op": op, "w": [dur(d1), dur(d2)], "p": E0, "args": [V(0)], "ann": None}]})
            k += 1
    c = mk_case(now, edb, rules, "batched")
    c["T"] = T
    return c


# ---------------------------------------------------------------- text stream
def txt_ts(n):
    return "1970-01-01T00:%02d:%02dZ" % (n // 60, n % 60)


def txt_bound(b, rng):
    k = b[0]
    if k == "ts":
        return txt_ts(b[1])
    if k in ("-inf", "+inf"):
        return "_"
    if k == "now":
        return "now"
    if k == "var":
        return "V%d" % b[1]
    if k == "dur":
        return rng.choice(["%ds" % b[1], "%dms" % (b[1] * 1000)])
    raise ValueError(k)


def txt_term(t):
    if t[0] == "v":
        return "V%d" % t[1]
    if t[0] == "w":
        return "_"
    if t[0] == "c":
        return "/c%d" % t[1]
    raise ValueError(t)


def txt_atom(p, args):
    return "p%d(%s)" % (p, ", ".join(txt_term(a) for a in args))


OPTXT = {"dm": "<-", "bm": "[-", "dp": "<+", "bp": "[+"}


def render(case, rng):
    """surface syntax of a structured case whose numbers are seconds"""
    lines = []
    for p, a in sorted(case["temporal"].items()):
        lines.append("Decl p%s(%s) temporal." % (p, ", ".join("A%d" % i for i in range(a))))
    for f in case["edb"]:
        lines.append("%s@[%s, %s]." % (txt_atom(f["p"], f["args"]), txt_bound(f["iv"][0], rng), txt_bound(f["iv"][1], rng)))
    for r in case["rules"]:
        head = txt_atom(r["p"], r["args"])
        if r.get("ht") is not None:
            head += "@[%s, %s]" % (txt_bound(r["ht"][0], rng), txt_bound(r["ht"][1], rng))
        prems = []
        for p in r["prem"]:
            s = ""
            if p.get("op"):
                s = "%s[%s, %s] " % (OPTXT[p["op"]], txt_bound(p["w"][0], rng), txt_bound(p["w"][1], rng))
            s += txt_atom(p["p"], p["args"])
            if p.get("ann") is not None:
                s += "@[%s, %s]" % (txt_bound(p["ann"][0], rng), txt_bound(p["ann"][1], rng))
            prems.append(s)
        lines.append("%s :- %s." % (head, ", ".join(prems)))
    return "\n".join(lines) + "\n"


def scale(x, k):
    """multiply every timestamp / duration of a structured case by k"""
    if isinstance(x, dict):
        return {a: (b * k if a == "now" else scale(b, k)) for a, b in x.items()}
    if isinstance(x, list):
        if len(x) == 2 and x[0] in ("ts", "dur", "t") and isinstance(x[1], int):
            return [x[0], x[1] * k]
        return [scale(y, k) for y in x]
    return x


def text_expressible(case):
    if case.get("coalesce") or case["now"] < 0:
        return False
    for r in case["rules"]:
        for p in r["prem"]:
            if not p.get("op") and p.get("ann") is None:
                return False
    return True


# ------------------------------------------------------------ interval relations
def allen_doc(rel, s1, e1, s2, e2):
    """the documented definitions (readthedocs/temporal.md) on closed intervals [s,e]"""
    name = rel.split(":")[-1]
    if name == "before":
        return e1 < s2
    if name == "after":
        return s1 > e2
    if name == "meets":
        return e1 == s2
    if name == "overlaps":   # share some time
        return max(s1, s2) <= min(e1, e2)
    if name == "during":
        return s2 <= s1 and e1 <= e2
    if name == "contains":
        return s1 <= s2 and e2 <= e1
    if name == "starts":
        return s1 == s2
    if name == "finishes":
        return e1 == e2
    return s1 == s2 and e1 == e2


def run_allen(ck, T, rng):
    """every relation x every ordered pair of intervals over 0..T (proper and reversed bounds),
    number pairs and time pairs, through builtin.Decide"""
    pts = list(range(T + 1))
    pairs = [[a, b, c, d] for a in pts for b in pts for c in pts for d in pts]
    extra = [[MIN64, 0, 0, MAX64], [MAX64, MAX64, MIN64, MIN64], [MIN64, MAX64, MIN64, MAX64], [-3, -1, -1, 2]]
    jobs = [{"rel": rel, "kind": kind, "pairs": pairs + extra} for rel in RELS for kind in ("n", "t")]
    outs = ck.run_go("c14_allen", jobs)
    terms, n, viol = [], 0, 0
    for job, o in zip(jobs, outs):
        res = o.get("out")
        if res is None:
            ck.violation({"property": "C14", "kind": "builtin.Decide failed on an interval relation", "job": job["rel"], "impl": o})
            viol += 1
            continue
        rid = RELS.index(job["rel"])
        items = []
        for p, r in zip(job["pairs"], res):
            n += 1
            if not isinstance(r, bool):
                if viol < 3:
                    ck.violation({"property": "C14", "kind": "interval relation rejects its documented argument type "
                                  "(pair of %s)" % ("times" if job["kind"] == "t" else "numbers"),
                                  "relation": job["rel"], "pair": p, "impl_error": r})
                viol += 1
                continue
            proper = p[0] <= p[1] and p[2] <= p[3]
            if proper and r != allen_doc(job["rel"], *p):
                if viol < 3:
                    ck.violation({"property": "C14", "kind": "interval relation differs from its documented definition",
                                  "relation": job["rel"], "kind_of_pair": job["kind"], "pair": p, "impl": r,
                                  "documented": allen_doc(job["rel"], *p)})
                viol += 1
            items.append(C("A", rid, p[0], p[1], p[2], p[3], r))
        terms.append(coq(C("CAllen", items)))
    verdicts = yield terms
    for job, v in zip(jobs, verdicts):
        if v != 0 and viol < 3:
            ck.violation({"property": "C14", "kind": "correspondence Allen.v vs builtin/temporal.go broken",
                          "relation": job["rel"], "pairs_disagreeing": v,
                          "no_longer_checks": "correspondence Run.C14.judge (CAllen): model Allen.v vs builtin.Decide"},
                         "no-failing-input-found")
            viol += 1
    return n


# ----------------------------------------------------------------- witnesses
def w_n1():
    """N1: a recursive temporal rule must keep deriving temporal facts in incremental rounds"""
    X, Y, Z, S, E = V(0), V(1), V(2), 10, 11
    edb = [{"p": L2, "args": [CONSTS[0], CONSTS[1]], "iv": [ts(1), ts(1)]},
           {"p": L2, "args": [CONSTS[1], CONSTS[2]], "iv": [ts(1), ts(1)]},
           {"p": L2, "args": [CONSTS[2], CONSTS[0]], "iv": [ts(1), ts(1)]}]
    rules = [{"p": H5, "args": [X, Y], "ht": [var(S), var(E)], "prem": [lit(L2, [X, Y], [var(S), var(E)])]},
             {"p": H5, "args": [X, Z], "ht": [var(S), var(E)],
              "prem": [lit(H5, [X, Y], [var(S), var(E)]), lit(L2, [Y, Z], [var(S), var(E)])]}]
    return mk_case(3, edb, rules, "witness-N1")


def w_n60():
    X, S, E, E2 = V(0), 10, 11, 12
    edb = [{"p": E0, "args": [CONSTS[1]], "iv": [ts(1), ts(2)]}, {"p": E1, "args": [CONSTS[1]], "iv": [ts(5), ts(6)]}]
    rules = [{"p": H5, "args": [X], "ht": [var(S), var(E2)],
              "prem": [lit(E0, [X], [var(S), var(E)]), lit(E1, [X], [var(E), var(E2)])]}]
    return mk_case(3, edb, rules, "witness-N60")


N3_SRC = """Decl p0(A0) temporal.
Decl p1(A0) temporal.
p0(/c1)@[1970-01-01T00:00:01Z, 1970-01-01T00:00:02Z].
p1(/c1)@[1970-01-01T00:00:05Z, 1970-01-01T00:00:06Z].
p1(/c2)@[1970-01-01T00:00:00Z, 1970-01-01T00:00:06Z].
p5(X, Y) :- p0(X)@[S1, E1], p1(Y)@[S2, E2], :interval:before(fn:pair(S1, E1), fn:pair(S2, E2)).
p6(X, Y) :- p0(X)@[S1, E1], p1(Y)@[S2, E2], :interval:during(fn:pair(S1, E1), fn:pair(S2, E2)).
"""


def probes(ck, cov):
    # N3: the documented use of an interval relation on bounds taken from annotations
    out = ck.run_go("c14_text", [{"now": 3 * 10 ** 9, "src": N3_SRC, "heads": {"p5": 2, "p6": 2}}])[0]
    got = observed_set(out.get("out", {})) if "out" in out else "error"
    want = {json.dumps([5, [["c", 1], ["c", 1]]]), json.dumps([6, [["c", 1], ["c", 2]]])}
    cov["n3_witness"] = "ok" if got == want else "FAILS"
    if got != want:
        ck.violation({"property": "C14", "kind": "interval relation on annotation-bound end points (N3)",
                      "program": N3_SRC, "impl": out, "documented": sorted(want)})
    # N15 (with N1): the created-fact limit must stop a temporal recursion
    c = w_n1()
    c["limit"] = 3
    out = ck.run_go("c14_prog", [c])[0].get("out", {})
    cov["n15_witness"] = "limit error" if "eerr" in out else ("TIMEOUT" if out.get("timeout") else "no error")
    if "eerr" not in out:
        ck.violation({"property": "C14", "kind": "temporal facts are not counted by the created-fact limit (N15): "
                      "9 temporal facts derived under WithCreatedFactLimit(3) without an error", "case": c, "impl": out})
    for k in known_for("C14"):
        if k["id"] == "N60":
            c = w_n60()
            out = ck.run_go("c14_prog", [c])[0].get("out", {})
            if out.get("facts"):
                ck.known("N60 an annotation variable that is already bound is not compared with the fact's end point when "
                         "another variable of the annotation is unbound (e0(X)@[S,E], e1(X)@[E,E2] joins [1,2] with [5,6]); "
                         "@[T] matches non-point intervals binding T to the start")


def f4_fixed(ck):
    """behavioural probe: are chained temporal rules stratified (finding F4, owned by C03)?"""
    X, S, E = V(0), 10, 11
    edb = [{"p": E0, "args": [CONSTS[0]], "iv": [ts(1), ts(2)]}]
    rules, prev = [], E0
    for h in (5, 6, 7, 8):
        rules.append({"p": h, "args": [X], "ht": [var(S), var(E)], "prem": [lit(prev, [X], [var(S), var(E)])]})
        prev = h
    c = mk_case(1, edb, rules, "f4-probe")
    c["repeat"] = 40
    out = ck.run_go("c14_prog", [c])[0].get("out", {})
    d = out.get("distinct", [])
    return len(d) == 1 and len(d[0].get("facts", [])) == 4


# ----------------------------------------------------------------- the check
def judge_programs(ck, cases, stats):
    outs = ck.run_go("c14_prog", cases)
    ck.log("engine evaluated %d program cases" % len(cases))
    terms, idxs = [], []
    for i, (c, o) in enumerate(zip(cases, outs)):
        if "out" not in o or o["out"].get("timeout"):
            ck.violation({"property": "C14", "kind": "engine panic / harness error / no termination", "case": c, "impl": o})
            continue
        if "aerr" in o["out"]:
            stats["analysis_rejected"] = stats.get("analysis_rejected", 0) + 1
            stats.setdefault("analysis_rejected_samples", [])
            if len(stats["analysis_rejected_samples"]) < 3:
                stats["analysis_rejected_samples"].append([c["shape"], o["out"]["aerr"][:200]])
            continue
        terms.append(cq_case(c, o["out"]))
        idxs.append(i)
    verdicts = yield terms
    if any(v == 9 for v in verdicts):
        raise RuntimeError("model ran out of fuel (machinery error)")
    vd = dict(zip(idxs, verdicts))
    for i in idxs:
        c, o = cases[i], outs[i]["out"]
        stats["outcomes"]["error" if "facts" not in o else ("empty" if not o["facts"] else "facts")] += 1
        try:
            want = oracle(c, edb_of(c, o))
            applicable = True
        except Outside as ex:
            applicable, want = False, None
            stats["outside"][str(ex)] = stats["outside"].get(str(ex), 0) + 1
        got = observed_set(o)
        if applicable:
            stats["oracle_checked"] += 1
        if applicable and got != want:
            if len(ck.violations) < 5:
                rep = {"property": "C14", "kind": "implementation violates the pointwise meaning of the documentation",
                       "case": c, "edb_used": edb_of(c, o), "impl": o,
                       "documented_meaning": want if want == "error" else sorted(want),
                       "model_verdict": vd[i]}
                ck.violation(rep)
            stats["oracle_mismatch"] += 1
        elif vd[i] != 0:
            stats["disagreements"] += 1
            if len(ck.violations) < 5:
                rep = {"property": "C14", "case": c, "edb_used": edb_of(c, o), "impl": o, "judge_code": vd[i],
                       "model": ck.coq_show("C14", "show " + cq_case(c, o)),
                       "kind": "correspondence model/implementation broken (theorems of Props/C14.v no longer tied to the code)",
                       "oracle": "outside its domain" if not applicable else "agrees with the implementation",
                       "no_longer_checks": "correspondence Run.C14.judge: model Temporal/Operators.v vs engine/temporal.go + seminaivebottomup.go"}
                ck.violation(rep, "no-failing-input-found")
    return outs


def judge_text(ck, cases, rng, stats):
    """second stream: the same kind of cases in seconds through the parser"""
    jobs, keep = [], []
    for c in cases:
        heads = {"p%d" % r["p"]: len(r["args"]) for r in c["rules"]}
        jobs.append({"now": c["now"] * 10 ** 9, "src": render(c, rng), "heads": heads})
        keep.append(scale(c, 10 ** 9))
    outs = ck.run_go("c14_text", jobs)
    terms, idxs = [], []
    for i, (c, o) in enumerate(zip(keep, outs)):
        if "out" not in o:
            ck.violation({"property": "C14", "kind": "panic on program text", "src": jobs[i]["src"], "impl": o})
            continue
        if "perr" in o["out"] or "aerr" in o["out"]:
            stats["text_rejected"] = stats.get("text_rejected", 0) + 1
            stats.setdefault("text_rejected_samples", [])
            if len(stats["text_rejected_samples"]) < 3:
                stats["text_rejected_samples"].append([jobs[i]["src"], str(o["out"])[:300]])
            continue
        terms.append(cq_case(c, o["out"]))
        idxs.append(i)
    verdicts = yield terms
    for i, v in zip(idxs, verdicts):
        stats["text_evaluated"] = stats.get("text_evaluated", 0) + 1
        if v != 0 and len(ck.violations) < 5:
            c, o = keep[i], outs[i]["out"]
            try:
                want = oracle(c, c["edb"])
            except Outside:
                want = None
            rep = {"property": "C14", "src": jobs[i]["src"], "now": jobs[i]["now"], "impl": o, "judge_code": v,
                   "model": ck.coq_show("C14", "show " + cq_case(c, o))}
            if want is not None and want != observed_set(o):
                rep["kind"] = "implementation violates the pointwise meaning (program text, seconds)"
                rep["documented_meaning"] = want if want == "error" else sorted(want)
                ck.violation(rep)
            else:
                rep["kind"] = "correspondence broken on program text"
                rep["no_longer_checks"] = "correspondence Run.C14.judge on parsed programs"
                ck.violation(rep, "no-failing-input-found")


def run(ck):
    ck.obligations()
    ck.build_harness()
    rng = ck.rng
    stats = {"outcomes": {"facts": 0, "empty": 0, "error": 0}, "outside": {}, "oracle_checked": 0,
             "oracle_mismatch": 0, "disagreements": 0}
    chained_ok = f4_fixed(ck)
    if not chained_ok:
        ck.log("note: chained temporal rules are not stratified in this tree (finding F4, property C03); "
               "the chained-rules stream is skipped")
    cases = []
    for path in sorted(glob.glob(os.path.join(os.path.dirname(__file__), "..", "corpus", "C14", "*.json"))):
        c = json.load(open(path))
        if c.get("needs") == "F4" and not chained_ok:
            continue
        cases.append(c)
    ncorpus = len(cases)
    for _ in range(ck.n(600, 6000)):
        cases.append(gen_case(rng, chained_ok))
    for _ in range(ck.n(40, 400)):
        cases.append(wide_case(rng))
    nrandom = len(cases) - ncorpus
    # batched blocks: every operator x every window against one coalesced store and one evaluation time
    T = ck.n(4, 6)
    exhaustive = not ck.quick
    if exhaustive:
        combos = [(bits, now) for bits in range(1, 1 << (T + 1)) for now in range(-1, T + 2)]
    else:
        combos = [(rng.randrange(1, 1 << (T + 1)), rng.randint(-1, T + 1)) for _ in range(40)]
    for bits, now in combos:
        cases.append(batched_case(T, bits, now))
    nbatched = len(combos)
    # text stream
    tcases = []
    tries = 0
    while len(tcases) < ck.n(120, 800) and tries < 100000:
        tries += 1
        c = gen_case(rng, chained_ok)
        if text_expressible(c):
            tcases.append(c)
    # the three streams run the implementation first, then all cases are judged by the model in one
    # sharded Coq run (a coqc process has ~10 s of fixed start-up cost), then each stream classifies
    gens = [judge_programs(ck, cases, stats), judge_text(ck, tcases, rng, stats), run_allen(ck, 4 if ck.quick else 6, rng)]
    batches = [next(g) for g in gens]
    ck.log("implementation ran: %d program cases, %d program texts, %d interval-relation jobs"
           % (len(cases), len(tcases), len(batches[2])))
    allterms = [t for b in batches for t in b]
    nshards = 4 if ck.quick else 16
    verdicts = ck.run_coq("C14", "judge", allterms, shard=max(10, len(allterms) // nshards + 1), tag="all")
    ck.log("model judged %d cases" % len(allterms))
    k, results = 0, []
    for g, b in zip(gens, batches):
        try:
            g.send(verdicts[k:k + len(b)])
            raise RuntimeError("stream did not finish")
        except StopIteration as e:
            results.append(e.value)
        k += len(b)
    nallen = results[2]
    probes(ck, stats)
    shapes = {}
    for c in cases:
        shapes[c.get("shape", "corpus")] = shapes.get(c.get("shape", "corpus"), 0) + 1
    rule_shapes = {}
    for c in cases[ncorpus:ncorpus + nrandom]:
        for r in c["rules"]:
            k = "+".join((p.get("op") or "plain") + ("@" if p.get("ann") else "") for p in r["prem"]) + (" =>@" if r.get("ht") else " =>")
            rule_shapes[k] = rule_shapes.get(k, 0) + 1
    per_batch = 4 * len(all_windows(T))
    evaluations = ncorpus + nrandom + nbatched * per_batch + len(tcases) + nallen
    distinct = len(set(json.dumps([c["now"], c["edb"], c["rules"]], sort_keys=True) for c in cases if c["edb"] and c["rules"]))
    cov = {"evaluations": evaluations, "distinct_nontrivial": distinct,
           "rule": "program cases = (EDB, evaluation time, rules) run through engine.EvalProgram and the model "
                   "(corpus %d, random %d, batched %d programs of %d single-operator rules each = %d "
                   "(store, time, operator, window) combinations, program text %d) + %d interval-relation decisions; "
                   "non-trivial = non-empty EDB and rules, distinct by content"
                   % (ncorpus, nrandom, nbatched, per_batch, nbatched * per_batch, len(tcases), nallen),
           "exhaustive": exhaustive,
           "exhaustive_scope": ("every coalesced store of one atom over the nanosecond timeline 0..%d (all %d instant sets) x every "
                                "evaluation time -1..%d x every window 0<=d1<=d2<=%d x the four operators; every ordered pair "
                                "of intervals (proper and reversed) over 0..6 x nine relations x number/time pairs"
                                % (T, (1 << (T + 1)) - 1, T + 1, T + 1)) if exhaustive else
                               "interval relations only: every ordered pair of intervals over 0..4 x nine relations x number/time pairs",
           "shapes": shapes, "rule_shapes": rule_shapes, "stats": stats,
           "chained_rules_stream": "on" if chained_ok else "skipped (F4 not fixed in this tree)",
           "samples": [cases[ncorpus]["rules"], cases[ncorpus]["edb"][:4], render(tcases[0], rng) if tcases else ""]}
    return ck.finish(cov, assumptions=[
        "model hand-written (coq/Temporal/Operators.v, Allen.v); tied to engine/temporal.go, builtin/temporal.go and the "
        "temporal part of engine/seminaivebottomup.go by differential evaluation only",
        "the temporal store is represented by its specification (list of pairs); the tie of the interval-tree store to that "
        "specification is property C13",
        "atoms carry name constants /c0../c2 and time constants; Atom.Hash() collisions (finding F8) do not occur among them",
        "windows in the main stream satisfy 0 <= d1 <= d2 (reversed windows: observation N4); annotations never mix bound "
        "and unbound variables (finding N60)",
        "whole programs: the model iterates the rules naively to the least fixed point; the engine's semi-naive rounds are "
        "compared with it on the final set of facts only"])


def replay(ck, path):
    ck.build_harness()
    rep = json.load(open(path))
    case = rep.get("case")
    if case is None:
        print("replay file has no program case (interval-relation or text replay): re-run the check")
        return 1
    out = ck.run_go("c14_prog", [case])[0]
    if "out" not in out or "aerr" in out["out"]:
        print("VIOLATION property=C14 replay=%s" % path)
        return 1
    v = ck.run_coq("C14", "judge", [cq_case(case, out["out"])])[0]
    try:
        want = oracle(case, edb_of(case, out["out"]))
        bad = want != observed_set(out["out"])
    except Outside:
        bad = False
    print("replay: judge code = %d, oracle mismatch = %s" % (v, bad))
    if v != 0 or bad:
        print("VIOLATION property=C14 replay=%s" % path)
        return 1
    return 0


META = {
    "text": "Machine-checked theorems (coq/Props/C14.v) about a Gallina model of engine/temporal.go and builtin/temporal.go: "
            "for every store, evaluation time and window 0<=d1<=d2 (no int64 overflow) a diamond operator returns exactly the "
            "matching stored atoms that hold at some instant of the window measured back/forward from the evaluation time, a box "
            "operator on a coalesced store exactly those that hold at every instant; an annotation with fresh variables enumerates "
            "exactly the stored intervals; a head annotation yields exactly the resolved interval; the nine interval relations "
            "equal their documented definitions on closed intervals and respect converse pairs and symmetry. The model is tied to "
            "the code on every run by evaluating generated one- and two-rule programs (incl. recursion through temporal heads) "
            "with engine.EvalProgram on a nanosecond timeline and comparing the derived (atom, interval) sets inside Coq, by a "
            "second stream through the parser in seconds, by all interval pairs through builtin.Decide, and by an independent "
            "brute-force pointwise oracle; thorough is exhaustive over all coalesced one-atom stores on 0..6 x times x windows x operators.",
    "note": "Trusted: Coq kernel + vm_compute; hand-written model tied to the code by differential evaluation (sampled, exhaustive "
            "block on the tiny timeline); store represented by its pair list (C13 ties the tree to it); reversed windows (N4) and "
            "annotations mixing bound and unbound variables (N60, known finding probe) are outside the main stream; chained-rule "
            "stream runs only when stratification sees temporal literals (F4).",
}
