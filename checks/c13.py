"""C13 - the temporal store answers by the pointwise meaning of intervals.

Theorems: coq/Props/C13.v. Correspondence: operation histories on the real
factstore.TemporalStore vs the model (coq/Temporal/TStore.v) replayed in Coq.
"""
import itertools
import json
from vlib.core import C, Raw, coq, known_for

MIN64, MAX64 = -(1 << 63), (1 << 63) - 1
ARITY = {0: 0, 1: 1, 2: 2, 3: 1}


# ------------------------------------------------------------------ encoding
def cq_bound(b):
    return C("Ts", b[1]) if b[0] == "ts" else Raw("NegInf" if b[0] == "-inf" else "PosInf")


def cq_iv(i):
    return (cq_bound(i[0]), cq_bound(i[1]))


def cq_atom(a):
    return (a["p"], list(a["args"]))


def cq_pat(q):
    return (q["p"], [None if x is None else C("Some", x) for x in q["args"]])


def cq_facts(res):
    return [(cq_atom(f[0]), cq_iv(f[1])) for f in res]


def cq_op(o, out):
    k = o["op"]
    if k == "add":
        return C("OAdd", cq_atom(o["atom"]), cq_iv(o["iv"]), out)
    if k == "at":
        return C("OAt", cq_pat(o["pat"]), o["t"], cq_facts(out))
    if k == "during":
        return C("ODuring", cq_pat(o["pat"]), cq_iv(o["iv"]), cq_facts(out))
    if k == "all":
        return C("OAll", cq_pat(o["pat"]), cq_facts(out))
    if k == "contains_at":
        return C("OContainsAt", cq_atom(o["atom"]), o["t"], bool(out))
    if k == "count":
        return C("OCount", out)
    if k == "preds":
        return C("OPreds", list(out))
    if k == "coalesce":
        return C("OCoalesce", o["p"])
    raise ValueError(k)


def cq_case(case, outs):
    return coq((case["limit"], [cq_op(o, r) for o, r in zip(case["ops"], outs)]))


# ---------------------------------------------------------------- generators
def ts(n):
    return ["ts", n]


def gen_iv(rng, lo, hi, allow_invalid=True):
    r = rng.random()
    a, b = rng.randint(lo, hi), rng.randint(lo, hi)
    if r < 0.08:
        return [["-inf"], ts(a)]
    if r < 0.16:
        return [ts(a), ["+inf"]]
    if r < 0.19:
        return [["-inf"], ["+inf"]]
    if r < 0.23 and allow_invalid:
        return [ts(max(a, b) + 1), ts(min(a, b))]     # invalid: start > end
    if r < 0.33:
        return [ts(a), ts(a)]                          # point
    return [ts(min(a, b)), ts(max(a, b))]


def gen_atom(rng, npred=3, nconst=3):
    p = rng.randrange(npred)
    return {"p": p, "args": [rng.randrange(nconst) for _ in range(ARITY[p])]}


def gen_pat(rng, npred=3, nconst=3):
    p = rng.randrange(npred + 1)   # sometimes a predicate that was never added
    return {"p": p, "args": [None if rng.random() < 0.6 else rng.randrange(nconst) for _ in range(ARITY[p])]}


def queries(rng, lo, hi, n, npred=3):
    ops = []
    lo = max(lo, MIN64 + 1)       # lo - 1 below stays an int64
    for _ in range(n):
        r = rng.random()
        if r < 0.3:
            ops.append({"op": "at", "pat": gen_pat(rng, npred), "t": rng.randint(lo - 1, hi + 1)})
        elif r < 0.55:
            ops.append({"op": "during", "pat": gen_pat(rng, npred), "iv": gen_iv(rng, lo - 1, hi + 1, False)})
        elif r < 0.7:
            ops.append({"op": "all", "pat": gen_pat(rng, npred)})
        elif r < 0.85:
            ops.append({"op": "contains_at", "atom": gen_atom(rng, npred), "t": rng.randint(lo - 1, hi + 1)})
        elif r < 0.93:
            ops.append({"op": "count"})
        else:
            ops.append({"op": "preds"})
    return ops


def gen_history(rng, big):
    """One history. Shapes are weighted towards what the unit tests never do:
    descending / equal starts, nested, touching, unbounded, long runs forcing
    every rotation, limits, coalescing in the middle."""
    shape = rng.choice(["random", "ascending", "descending", "equalstart", "nested", "touching", "one-atom-long"])
    lo, hi = 0, rng.choice([4, 8, 20])
    if rng.random() < 0.1:
        base = rng.choice([MAX64 - 60, MIN64, MIN64, MIN64 + 2, -10])   # starts at MinInt64 included (N13 fixed)
        lo, hi = base, base + 20
    n = rng.randint(1, 40 if big else 14)
    limit = rng.choice([-1, -1, 1000, 1000, 1, 2, 3, 5])
    npred = rng.choice([1, 2, 3])
    ops = []
    fixed_atom = gen_atom(rng, npred)
    for k in range(n):
        a = fixed_atom if shape in ("one-atom-long", "equalstart", "nested") or rng.random() < 0.5 else gen_atom(rng, npred)
        if shape == "ascending":
            s = lo + (k % 20)
            iv = [ts(s), ts(s + rng.randint(0, 3))]
        elif shape == "descending":
            s = hi + 14 - (k % 14)
            iv = [ts(s), ts(s + rng.randint(0, 3))]
        elif shape == "equalstart":
            es = lo if lo == MIN64 else lo + 1      # at the int64 floor: all start at MinInt64
            iv = [ts(es), ts(es + rng.randint(0, 12))] if rng.random() < 0.85 else gen_iv(rng, lo, hi)
        elif shape == "nested":
            d = rng.randint(0, 10)
            iv = [ts(lo + 10 - d), ts(lo + 10 + d)]
        elif shape == "touching":
            s = lo + 3 * rng.randint(0, 6)
            iv = [ts(s), ts(s + rng.choice([1, 2, 3]))]
        else:
            iv = gen_iv(rng, lo, hi)
        ops.append({"op": "add", "atom": a, "iv": iv})
        if rng.random() < 0.15:
            ops += queries(rng, lo, hi + 14, 1, npred)
        if rng.random() < 0.04:
            p = rng.randrange(npred)
            ops.append({"op": "coalesce", "p": p, "t": ARITY[p]})
    ops += queries(rng, lo, hi + 14, rng.randint(3, 10), npred)
    if rng.random() < 0.5:
        for p in range(npred):
            ops.append({"op": "coalesce", "p": p, "t": ARITY[p]})
        ops.append({"op": "count"})
        ops.append({"op": "all", "pat": {"p": 0, "args": [None] * ARITY[0]}})
        ops += queries(rng, lo, hi + 14, rng.randint(3, 8), npred)
    return {"limit": limit, "ops": ops, "shape": shape}


def exhaustive_histories(max_len, tl):
    """Every insertion history of <= max_len intervals for one atom over the
    timeline 0..tl-1 with unbounded ends, followed by every point query, every
    range query, scan and count."""
    pts = list(range(tl))
    ivs = [[ts(a), ts(b)] for a in pts for b in pts if a <= b]
    ivs += [[["-inf"], ts(a)] for a in pts] + [[ts(a), ["+inf"]] for a in pts] + [[["-inf"], ["+inf"]]]
    atom = {"p": 1, "args": [0]}
    pat = {"p": 1, "args": [None]}
    tail = [{"op": "at", "pat": pat, "t": t} for t in range(-1, tl + 1)]
    tail += [{"op": "during", "pat": pat, "iv": [ts(a), ts(b)]} for a in range(-1, tl + 1) for b in range(a, tl + 1)]
    tail += [{"op": "all", "pat": pat}, {"op": "count"}]
    for n in range(1, max_len + 1):
        for combo in itertools.product(ivs, repeat=n):
            yield {"limit": -1, "ops": [{"op": "add", "atom": atom, "iv": i} for i in combo] + tail,
                   "shape": "exhaustive"}


# -------------------------------------------------- independent pointwise oracle
def key(b, start):
    if b[0] == "ts":
        return b[1]
    return MIN64 if b[0] == "-inf" else MAX64


def oracle_violation(case, outs):
    """Judge the implementation's answers directly by the property text (no
    model): brute force over the list of pairs accepted so far. Used to turn a
    model/implementation disagreement into a concrete failing operation."""
    stored = []      # (atom tuple, (s, e), iv json)
    per_atom = {}
    coalesced = False
    for idx, (o, r) in enumerate(zip(case["ops"], outs)):
        k = o["op"]
        if k == "add":
            a = (o["atom"]["p"], tuple(o["atom"]["args"]))
            iv = o["iv"]
            s, e = key(iv[0], True), key(iv[1], False)
            if iv[0][0] == "ts" and iv[1][0] == "ts" and s > e:
                exp = 2
            elif case["limit"] > 0 and per_atom.get(a, 0) >= case["limit"]:
                exp = 3
            elif any(x[0] == a and x[2] == iv for x in stored):
                exp = 1
            else:
                exp = 0
                stored.append((a, (s, e), iv))
                per_atom[a] = per_atom.get(a, 0) + 1
            if not coalesced and r != exp:
                return idx, "Add returned code %s, the set semantics requires %s" % (r, exp)
        elif k == "coalesce":
            coalesced = True
        elif k in ("at", "during", "all") and not coalesced:
            q = o["pat"]

            def m(a):
                return a[0] == q["p"] and all(x is None or x == y for x, y in zip(q["args"], a[1]))
            if k == "at":
                exp = [x for x in stored if m(x[0]) and x[1][0] <= o["t"] <= x[1][1]]
            elif k == "during":
                s, e = key(o["iv"][0], True), key(o["iv"][1], False)
                exp = [x for x in stored if m(x[0]) and x[1][0] <= e and s <= x[1][1]]
            else:
                exp = [x for x in stored if m(x[0])]
            got = sorted(json.dumps(f) for f in r)
            want = sorted(json.dumps([{"p": x[0][0], "args": list(x[0][1])}, x[2]]) for x in exp)
            if got != want:
                return idx, "%s returned %s, pointwise meaning requires %s" % (k, got, want)
        elif k == "count" and not coalesced:
            if r != len(stored):
                return idx, "count %s, stored pairs %s" % (r, len(stored))
        elif k in ("at", "all") and coalesced:
            # after coalescing only the point set per atom is fixed by the property
            pass
    if coalesced:
        return coalesce_oracle(case, outs)
    return None


def coalesce_oracle(case, outs):
    """Property-level judgement of histories with Coalesce: for every atom and
    every instant of a window around all end points, 'holds at t' answered by
    GetFactsAt must equal membership in some added interval (instants never
    change), and after the final coalesce finite intervals of one atom are
    neither overlapping nor adjacent. Only meaningful when the final block of
    ops coalesced every predicate."""
    # replay the adds to get the pointwise truth, honouring limits as the impl reported them
    truth = {}
    for o, r in zip(case["ops"], outs):
        if o["op"] == "add" and r in (0, 1):
            a = (o["atom"]["p"], tuple(o["atom"]["args"]))
            truth.setdefault(a, []).append((key(o["iv"][0], True), key(o["iv"][1], False)))
    seen_coalesce = False
    for idx, (o, r) in enumerate(zip(case["ops"], outs)):
        if o["op"] == "coalesce":
            seen_coalesce = True
    # instants: judged on 'at' queries after the last add
    last_add = max([i for i, o in enumerate(case["ops"]) if o["op"] == "add"], default=-1)
    for idx, (o, r) in enumerate(zip(case["ops"], outs)):
        if idx <= last_add:
            continue
        if o["op"] == "at":
            q = o["pat"]
            t = o["t"]
            got_atoms = set((f[0]["p"], tuple(f[0]["args"])) for f in r)
            want = set(a for a, ivs in truth.items()
                       if a[0] == q["p"] and all(x is None or x == y for x, y in zip(q["args"], a[1]))
                       and any(s <= t <= e for s, e in ivs))
            if got_atoms != want:
                return idx, "after coalescing, atoms holding at %d: got %s want %s" % (t, sorted(got_atoms), sorted(want))
        if o["op"] == "all" and seen_coalesce:
            by_atom = {}
            for f in r:
                if f[1][0][0] == "ts" and f[1][1][0] == "ts":
                    by_atom.setdefault(json.dumps(f[0]), []).append((f[1][0][1], f[1][1][1]))
            # only after the final full coalesce block (ops pattern: coalesce*, count, all)
            if idx >= 2 and case["ops"][idx - 1]["op"] == "count" and case["ops"][idx - 2]["op"] == "coalesce":
                for a, ivs in by_atom.items():
                    ivs.sort()
                    for (s1, e1), (s2, e2) in zip(ivs, ivs[1:]):
                        if s2 <= e1 + 1:
                            return idx, "after coalescing %s keeps overlapping/adjacent [%d,%d] [%d,%d]" % (a, s1, e1, s2, e2)
    return None


# ----------------------------------------------------------------- the check
def probes(ck):
    """Known findings: replay each listed witness; print KNOWN-FINDING if it still fails."""
    for k in known_for("C13"):
        if k["id"] == "F8":
            out = ck.run_go("c13_f8", [{}])[0]
            if out.get("out") is True:
                ck.known("F8 two distinct atoms with equal Atom.Hash() (p(0), p([])) share one interval tree in the temporal store")


def run(ck):
    ck.obligations()
    ck.build_harness()
    rng = ck.rng
    cases = []
    # regression corpus first
    import glob, os
    for path in sorted(glob.glob(os.path.join(os.path.dirname(__file__), "..", "corpus", "C13", "*.json"))):
        cases.append(json.load(open(path)))
    ncorpus = len(cases)
    for _ in range(ck.n(500, 6000)):
        cases.append(gen_history(rng, big=not ck.quick or rng.random() < 0.3))
    nrandom = len(cases) - ncorpus
    exhaustive = False
    if not ck.quick:
        ex = list(exhaustive_histories(2, 3))   # 16 intervals: 16 + 256 histories x full query tail
        ex += list(itertools.islice(exhaustive_histories(3, 2), 0, None))
        cases += ex
        exhaustive = True
    outs = ck.run_go("c13", cases)
    terms, idxs, bad = [], [], []
    for i, (c, o) in enumerate(zip(cases, outs)):
        if "out" not in o:
            bad.append((i, o))
            continue
        terms.append(cq_case(c, o["out"]))
        idxs.append(i)
    verdicts = ck.run_coq("C13", "judge", terms, shard=max(50, len(terms) // 16 + 1))
    disagreements = 0
    for i, o in bad:
        ck.violation({"property": "C13", "kind": "implementation error/panic on a legal history",
                      "case": cases[i], "impl": o})
    for i, v in zip(idxs, verdicts):
        if v == 0:
            continue
        disagreements += 1
        c, o = cases[i], outs[i]["out"]
        orc = oracle_violation(c, o)
        rep = {"property": "C13", "case": c, "impl_outputs": o, "first_disagreeing_op": v,
               "op": c["ops"][v - 1], "impl_result": o[v - 1],
               "model_trace": ck.coq_show("C13", "trace " + cq_case(c, o))}
        if orc:
            rep["kind"] = "implementation violates the pointwise meaning"
            rep["oracle"] = {"op_index": orc[0], "why": orc[1]}
            ck.violation(rep)
        else:
            rep["kind"] = "correspondence model/implementation broken (theorems of Props/C13.v no longer tied to the code)"
            rep["no_longer_checks"] = "correspondence Run.C13.judge: model TStore.v vs factstore.TemporalStore"
            ck.violation(rep, "no-failing-input-found")
        if len(ck.violations) >= 5:
            break
    probes(ck)
    shapes = {}
    nops = {}
    for c in cases:
        shapes[c.get("shape", "corpus")] = shapes.get(c.get("shape", "corpus"), 0) + 1
        for o in c["ops"]:
            nops[o["op"]] = nops.get(o["op"], 0) + 1
    add_codes = {}
    for c, o in zip(cases, outs):
        for op, r in zip(c["ops"], o.get("out", [])):
            if op["op"] == "add":
                add_codes[str(r)] = add_codes.get(str(r), 0) + 1
    distinct = len(set(json.dumps(c["ops"], sort_keys=True) for c in cases
                       if sum(1 for o in c["ops"] if o["op"] == "add") >= 2))
    cov = {"evaluations": len(cases), "distinct_nontrivial": distinct,
           "rule": "operation histories on factstore.TemporalStore (corpus %d, random %d, exhaustive block %d); "
                   "non-trivial = at least two insertions; distinct by op list" % (ncorpus, nrandom, len(cases) - ncorpus - nrandom),
           "exhaustive": exhaustive,
           "exhaustive_scope": "all histories of <=2 intervals over timeline 0..2 and <=3 over 0..1 (with unbounded ends) x every point/range query" if exhaustive else "",
           "shapes": shapes, "ops": nops, "add_result_codes": add_codes,
           "disagreements_checked": disagreements,
           "samples": [cases[ncorpus]["ops"][:6], cases[-1]["ops"][:4]]}
    return ck.finish(cov, assumptions=[
        "model hand-written (coq/Temporal/ITree.v, TStore.v); tied to factstore/interval_tree.go and temporal.go by differential replay only",
        "atoms carry small integer constants; Atom.Hash() keying abstracted (collisions are finding F8)",
        "timestamps within int64 (starts at MinInt64 and ends at MaxInt64 included)"])


def replay(ck, path):
    ck.build_harness()
    rep = json.load(open(path))
    case = rep["case"]
    out = ck.run_go("c13", [case])[0]
    if "out" not in out:
        print("VIOLATION property=C13 replay=%s" % path)
        return 1
    v = ck.run_coq("C13", "judge", [cq_case(case, out["out"])])[0]
    print("replay: first disagreeing op = %d" % v)
    if v != 0:
        print("VIOLATION property=C13 replay=%s" % path)
        return 1
    return 0


META = {
    "text": "Machine-checked theorems (coq/Props/C13.v) about a Gallina model of the AVL interval tree with cached "
            "subtree maximum, the per-atom temporal store and coalescing: insertion keeps every interval and the search "
            "invariant through every rotation, pruned point/range queries equal filter over the stored pairs for every "
            "insertion history and every instant/range, duplicate search is exact, coalescing preserves the set of instants and "
            "leaves finite intervals neither overlapping nor adjacent, for all valid intervals with int64 starts (MinInt64 included). "
            "For every history that interleaves Add and Coalesce (coq/Temporal/TStoreHistProofs.v): the store invariant and the exact "
            "pair count hold in every reachable state, so the query theorems apply there; the atom-holds-at-instant relation equals "
            "that of the same history with the Coalesce calls deleted (no limit, or no Add refused by the limit in either run); right "
            "after Coalesce(p) the finite intervals of every atom of p are pairwise at distance >= 2. "
            "The model is tied to factstore/interval_tree.go and temporal.go on every run by replaying generated operation "
            "histories (exhaustive on small timelines in the thorough tier) on the Go store and on the model inside Coq.",
    "note": "Trusted: Coq kernel + vm_compute; the hand-written model is tied to the code only by differential replay "
            "(sampled; exhaustive for <=2-3 intervals on tiny timelines); Atom.Hash() keying abstracted (finding F8 probe); "
            "after fix N13 (coalescing at MinInt64; the pre-fix test is refuted in Props/C13.v); AVL balance is not claimed.",
}
