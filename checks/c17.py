"""C17 - a fact limit turns divergence into an error, never a silent partial result.

Theorems: coq/Props/C17.v about the limit model coq/Datalog/Limit.v (the C01 semi-naive
model plus the four places where engine/seminaivebottomup.go looks at the limit).
Correspondence: diverging generators (arithmetic counters, list and pair growth, fan-out,
non-linear and mutual recursion, cartesian products, two strata, let-transforms), finite
programs with limits just below / at / above the number of facts they create, random
stratifiable programs of checks/datalog_common.py, all under WithCreatedFactLimit, each limited
run without and with a configured temporal store (WithTemporalStore + WithEvaluationTime: a
configuration dimension of the correspondence, the model is the same); every Go run under a
wall-clock guard. Programs with temporal predicates (alone / mixed with ordinary recursion)
are judged by property-level oracles on Go's outputs (runner c17_mixed). Compared per run: ok / error class and the complete store
at return (also after an error). The property verdicts are decided on Go's output:
 (a) nil error but store != least model, (b) no return within the guard,
 (c) store at return larger than the proven bound.
"""
import glob
import json
import os
import re

from vlib.core import C, Raw, coq, load_known
from checks import datalog_common as dc

STORES = ["simple", "indexed", "multi", "array"]
GUARD_MS = 20000           # wall-clock guard per evaluation (normal runs take milliseconds)
SIZING_LIMIT = 300         # phase 1: "is the program finite, and how many facts does it create"
HERE = os.path.dirname(os.path.abspath(__file__))

X, Y, Z, K, W = dc.var(1), dc.var(2), dc.var(3), dc.var(4), dc.var(5)


def A(p, *args):
    return ["atom", dc.atom(p, *args)]


def N(k):
    return dc.cst(dc.num(k))


def plus(a, b):
    return dc.app("plus", a, b)


def nums(p, values):
    return [dc.fact(p, dc.num(v)) for v in values]


def mk(family, clauses, base, where, diverges, **kw):
    """base facts go into the program text (init) or into the caller's store (pre)."""
    prog = {"clauses": clauses, "init": base if where == "init" else [],
            "pre": base if where == "pre" else [], "family": family, "diverges": diverges,
            "features": [family]}
    prog.update(kw)
    return prog


# ------------------------------------------------------------------ program families
def fam_counter(seeds, step, shape, where):
    """p0(s).. ; p0 grows by `step` forever. shape: eq | head | let | minus"""
    if shape == "eq":
        cl = dc.clause(dc.atom(0, Y), [A(0, X), ["eq", Y, plus(X, N(step))]])
    elif shape == "head":
        cl = dc.clause(dc.atom(0, plus(X, N(step))), [A(0, X)])
    elif shape == "let":
        cl = dc.clause(dc.atom(0, Y), [A(0, X)], let=[(2, plus(X, N(step)))])
    else:
        cl = dc.clause(dc.atom(0, Y), [A(0, X), ["eq", Y, dc.app("minus", X, N(step))]])
    return mk("counter-" + shape, [cl], nums(0, seeds), where, True)


def fam_list(elems, where):
    """p0([]). p0(L2) :- p0(L), p1(E), L2 = fn:list:cons(E, L).  fan-out = |p1|"""
    cl = dc.clause(dc.atom(0, Y), [A(0, X), A(1, K), ["eq", Y, dc.app("cons", K, X)]])
    base = [dc.fact(0, dc.lst([]))] + nums(1, elems)
    return mk("list-growth", [cl], base, where, True)


def fam_pair(where):
    cl = dc.clause(dc.atom(0, Y), [A(0, X), ["eq", Y, dc.app("pair", X, N(7))]])
    return mk("pair-growth", [cl], [dc.fact(0, dc.pair(dc.num(1), dc.num(2)))], where, True)


def fam_product(n, arity, where, let=False):
    """p1(X,Y[,Z]) :- p0(X), p0(Y)[, p0(Z)].   n^arity solutions"""
    vs = [X, Y, Z][:arity]
    if let:
        cl = dc.clause(dc.atom(1, *vs, W), [A(0, v) for v in vs], let=[(5, plus(X, Y))])
    else:
        cl = dc.clause(dc.atom(1, *vs), [A(0, v) for v in vs])
    return mk("product%d%s" % (arity, "-let" if let else ""), [cl], nums(0, range(1, n + 1)), where, False)


def fam_fanout(m, where):
    """p0(1). p1(0..m-1). p0(Y) :- p0(X), p1(K), Y = X*m + K.  delta multiplies by m"""
    cl = dc.clause(dc.atom(0, Y), [A(0, X), A(1, K), ["eq", Y, plus(dc.app("mult", X, N(m)), K)]])
    return mk("fanout", [cl], nums(0, [1]) + nums(1, range(m)), where, True)


def fam_mutual(where):
    cl = [dc.clause(dc.atom(1, Y), [A(0, X), ["eq", Y, plus(X, N(1))]]),
          dc.clause(dc.atom(0, Y), [A(1, X), ["eq", Y, plus(X, N(1))]])]
    return mk("mutual", cl, nums(0, [1]), where, True)


def fam_nonlinear(seeds, where):
    """p0(Z) :- p0(X), p0(Y), Z = X + Y.  two delta rules, growing join"""
    cl = dc.clause(dc.atom(0, Z), [A(0, X), A(0, Y), ["eq", Z, plus(X, Y)]])
    return mk("nonlinear", [cl], nums(0, seeds), where, True)


def chain(p, n, cyclic=False):
    fs = [dc.fact(p, dc.num(i), dc.num(i + 1)) for i in range(1, n)]
    if cyclic:
        fs.append(dc.fact(p, dc.num(n), dc.num(1)))
    return fs


def fam_closure(n, cyclic, kind, where):
    cl = [dc.clause(dc.atom(1, X, Y), [A(0, X, Y)])]
    if kind == "left":
        cl.append(dc.clause(dc.atom(1, X, Z), [A(1, X, Y), A(0, Y, Z)]))
    elif kind == "right":
        cl.append(dc.clause(dc.atom(1, X, Z), [A(0, X, Y), A(1, Y, Z)]))
    else:
        cl.append(dc.clause(dc.atom(1, X, Z), [A(1, X, Y), A(1, Y, Z)]))
    return mk("closure-" + kind, cl, chain(0, n, cyclic), where, False)


def fam_bounded(bound, where):
    """p0(0). p0(Y) :- p0(X), X < bound, Y = X + 1.   finite: bound + 1 facts"""
    cl = dc.clause(dc.atom(0, Y), [A(0, X), ["cmp", "lt", X, N(bound)], ["eq", Y, plus(X, N(1))]])
    return mk("bounded-counter", [cl], nums(0, [0]), where, False)


def fam_two_strata(n, lower_diverges, where):
    """finite closure below a diverging counter, or a diverging counter below a negation"""
    if not lower_diverges:
        cl = [dc.clause(dc.atom(1, X, Y), [A(0, X, Y)]),
              dc.clause(dc.atom(1, X, Z), [A(1, X, Y), A(0, Y, Z)]),
              dc.clause(dc.atom(2, X), [A(1, X, Y)]),
              dc.clause(dc.atom(2, Y), [A(2, X), ["eq", Y, plus(X, N(1))]])]
        return mk("strata-finite-below", cl, chain(0, n), where, True)
    cl = [dc.clause(dc.atom(1, X), [A(0, X, Y)]),
          dc.clause(dc.atom(1, Y), [A(1, X), ["eq", Y, plus(X, N(1))]]),
          dc.clause(dc.atom(2, X), [A(0, X, Y), ["neg", dc.atom(1, Y)]])]
    return mk("strata-diverging-below", cl, chain(0, n), where, True)


def fam_same_round(where):
    """the F1 witness: a rule that needs two facts first derived in the same round"""
    cl = [dc.clause(dc.atom(2, X), [A(0, X)]),
          dc.clause(dc.atom(3, X), [A(2, X)]),
          dc.clause(dc.atom(4, X), [A(2, X)]),
          dc.clause(dc.atom(2, Y), [A(3, X), A(4, X), A(1, X, Y)])]
    return mk("same-round", cl, nums(0, [1]) + chain(1, 4), where, False)


def fam_init_heavy(n, let, where):
    """many base facts, one non-recursive rule: T is computed before the initial facts are
    added, so facts of the program text count against the limit, facts of the caller do not"""
    if let:
        cl = dc.clause(dc.atom(1, Y), [A(0, X)], let=[(2, plus(X, N(100)))])
    else:
        cl = dc.clause(dc.atom(1, Y), [A(0, X), ["eq", Y, plus(X, N(100))]])
    return mk("init-heavy" + ("-let" if let else ""), [cl], nums(0, range(1, n + 1)), where, False)


def fam_multi_rule(k, n, where):
    """k rules with one head predicate, each p1(X,Y,c) :- p0(X), p0(Y): the first round has
    no delta-size check, so k * n^2 facts enter the store before the first total check
    (the rule factor of limit_bound; Props/C17.v limit_bound_without_rule_factor_refuted)"""
    cl = [dc.clause(dc.atom(1, X, Y, N(c)), [A(0, X), A(0, Y)]) for c in range(1, k + 1)]
    return mk("multi-rule-product", cl, nums(0, range(1, n + 1)), where, False)


def random_family(rng):
    where = rng.choice(["init", "init", "pre"])
    k = rng.randrange(15)
    if k == 13:
        return fam_multi_rule(rng.randint(2, 4), rng.randint(1, 3), where)
    if k == 0:
        seeds = rng.sample(range(-5, 20), rng.randint(1, 3))
        return fam_counter(seeds, rng.randint(1, 3), rng.choice(["eq", "head", "let", "minus"]), where)
    if k == 1:
        return fam_list(rng.sample(range(1, 9), rng.randint(1, 3)), where)
    if k == 2:
        return fam_pair(where)
    if k == 3:
        return fam_product(rng.randint(1, 7), rng.choice([2, 2, 3]), where, let=rng.random() < 0.3)
    if k == 4:
        return fam_fanout(rng.randint(2, 5), where)
    if k == 5:
        return fam_mutual(where)
    if k == 6:
        return fam_nonlinear(rng.sample(range(1, 9), rng.randint(1, 3)), where)
    if k == 7:
        return fam_closure(rng.randint(2, 6), rng.random() < 0.4, rng.choice(["left", "right", "nonlinear"]), where)
    if k == 8:
        return fam_bounded(rng.randint(1, 25), where)
    if k == 9:
        return fam_two_strata(rng.randint(2, 5), rng.random() < 0.4, where)
    if k == 10:
        return fam_same_round(where)
    if k == 11:
        return fam_init_heavy(rng.randint(1, 12), rng.random() < 0.5, where)
    p = dc.gen_program(rng)
    p["family"] = "datalog_common.gen_program"
    p["diverges"] = False
    return p


def exhaustive_programs():
    """The fixed programs of the limit sweep (every limit 1..30 on each)."""
    return [fam_counter([1], 1, "eq", "init"), fam_counter([1], 1, "let", "init"),
            fam_counter([3, 8], 2, "head", "pre"), fam_counter([0], 1, "minus", "init"),
            fam_list([1], "init"), fam_list([1, 2], "pre"), fam_pair("init"),
            fam_product(3, 2, "init"), fam_product(4, 2, "pre"), fam_product(5, 2, "init", let=True),
            fam_product(3, 3, "pre"), fam_fanout(2, "init"), fam_fanout(4, "pre"),
            fam_mutual("init"), fam_nonlinear([1], "init"), fam_nonlinear([1, 2], "pre"),
            fam_closure(4, False, "left", "init"), fam_closure(3, True, "nonlinear", "pre"),
            fam_closure(5, False, "right", "init"), fam_bounded(9, "init"), fam_bounded(20, "pre"),
            fam_two_strata(3, False, "init"), fam_two_strata(3, True, "init"), fam_two_strata(4, False, "pre"),
            fam_same_round("init"), fam_init_heavy(8, False, "init"), fam_init_heavy(8, True, "init"),
            fam_init_heavy(8, True, "pre"), fam_multi_rule(3, 2, "pre"), fam_multi_rule(4, 2, "init")]


# ------------------------------------------------------------------ staying off known finding F8
HASH_KEYED = ["simple", "indexed", "multi"]     # Contains/Add compare Atom.Hash() only (F8)


def growth_levels(prog, maxlevel=14):
    """For the value-growing families: the facts of p0 the recursion creates, by round."""
    if prog.get("family") == "pair-growth":
        c, out = prog["init"][0]["args"][0] if prog["init"] else prog["pre"][0]["args"][0], []
        for _ in range(maxlevel):
            out.append([dc.fact(0, c)])
            c = dc.pair(c, dc.num(7))
        return out
    if prog.get("family") == "list-growth":
        base = prog["init"] or prog["pre"]
        elems = [f["args"][0] for f in base if f["p"] == 1]
        level, out = [[]], []
        for _ in range(maxlevel):
            out.append([dc.fact(0, dc.lst(l)) for l in level])
            if len(level) * len(elems) > 3000:
                break
            level = [[e] + l for l in level for e in elems]
        return out
    return None


def f8_safe(prog, limit):
    """True if the run provably stops before two facts with equal Atom.Hash() can meet in a
    hash-keyed store: the total-size check fires at the latest when the facts created by
    the rule exceed L, so L must be smaller than the number of facts of the rounds before
    the first round that contains a colliding fact. Other families never build values."""
    levels = growth_levels(prog)
    if levels is None:
        return True
    seen, created = {}, 0
    for r, facts in enumerate(levels):
        for f in facts:
            h, t = dc.atom_hash(f), dc.fact_text(f)
            if h in seen and seen[h] != t:
                return limit < created          # created = facts of rounds 1..r-1
            seen.setdefault(h, t)
        if r >= 1:
            created += len(facts)
    return limit < created


def stores_for(prog, limit):
    return STORES if f8_safe(prog, limit) else ["array"]


# F8 witness for this property: list construction diverges, the 7th list hashes like the 6th
F8_PROBE = {"src": "p0([]).\np0(V2) :- p0(V1), V2 = fn:list:cons(1, V1).", "pre": "", "store": "simple",
            "det": True, "limit": 100, "timeout_ms": GUARD_MS}


# ------------------------------------------------------------------ case encoding
def go_case(prog, store, det, limit, nofacts=False, tstore=False):
    """tstore: the run also configures engine.WithTemporalStore(factstore.NewTemporalStore()) and
    WithEvaluationTime - a configuration dimension of the correspondence, not of the model: the
    program is non-temporal, the judged observables (class, ordinary store) are the same."""
    return {"src": dc.to_mangle(prog), "pre": dc.facts_text(prog.get("pre", [])), "store": store,
            "det": det, "limit": limit, "timeout_ms": GUARD_MS, "nofacts": nofacts, "tstore": tstore}


def layers_from_go(o):
    layers = []
    for l in o["layers"]:
        ps = []
        for s in l:
            if not (s.startswith("p") and s[1:].isdigit()):
                raise ValueError("unexpected predicate in strata: %r" % s)
            ps.append(int(s[1:]))
        layers.append(ps)
    return layers


def cq_obs(o):
    if o["err"] == "timeout":
        return Raw("OTimeout")
    fs = [dc.cq_fact(f) for f in dc.facts_from_go(o["facts"])]
    if o["err"] == "":
        return C("OOk", fs)
    if o["err"] == "limit":
        return C("OLimitErr", fs)
    return C("OEvalErr", fs)


def cq_case(prog, o, limit):
    return coq(C("mkCase", dc.cq_program(prog), layers_from_go(o),
                 [dc.cq_fact(f) for f in prog.get("pre", [])],
                 [dc.cq_fact(f) for f in prog.get("init", [])], limit, cq_obs(o)))


def parse_tokens(toks):
    """Inverse of Run/C17.v model_tokens -> (class, bound, facts)."""
    cls = {0: "ok", 1: "eval-error", 2: "limit-error", 3: "out-of-fuel"}[toks[0]]
    bound = toks[1]
    kind, facts = dc.parse_model_tokens([0] + toks[2:])
    return cls, bound, facts


def model_view(ck, term):
    out = ck.coq_show("C17", "model_tokens " + term)
    m = re.search(r"=\s*\[(.*?)\]\s*:\s*list Z", out, re.S)
    if not m:
        return {"unparsed": out[-500:]}
    cls, bound, facts = parse_tokens([int(x) for x in re.findall(r"-?\d+", m.group(1))])
    return {"class": cls, "proven_bound_on_store_size": bound, "store": dc.canon(facts or []), "facts": facts or []}


VERDICT = {
    1: "agree on class and store; error kind differs (limit vs evaluation error)",
    2: "(a) nil error, but the store differs from the model's complete result (= least model, limit_ok_complete)",
    3: "Go stopped with an error where the model finishes (a spurious stop is allowed by the property)",
    4: "Go returned nil with the complete model where the model reports an error",
    5: "(a) nil error where the model stops with an error, and the store is not closed under the rules (not a model)",
    7: "both stop with an error, the stores at return differ",
    8: "(b) no return within the wall-clock guard",
    9: "model out of fuel (excluded by limit_terminates)",
    10: "(c) store at return larger than the proven bound (limit_bound)"}
VIOLATING = {2, 5, 8, 10}
THEOREM = {3: "correspondence Run.C17.judge (class)", 4: "correspondence Run.C17.judge (class)",
           7: "correspondence Run.C17.judge (store at an error return)", 9: "Props/C17.v limit_terminates",
           1: "correspondence Run.C17.judge (error kind)"}


# ------------------------------------------------------------------ N15 / N1 probe
PROBE = {"src": "Decl p(X) temporal.\np(Y)@[S,E] :- p(X)@[S,E], Y = fn:plus(X,1).",
         "pred": "p", "value": 1, "limit": 10, "timeout_ms": 5000}


def temporal_probe(ck, case=None):
    """p(1)@[t,t] in a temporal store + a recursive temporal rule under limit 10: must stop
    with a limit error quickly. Own process: a diverging evaluation dies with it."""
    case = case or PROBE
    o = ck.run_go("c17_temporal", [case], timeout=120)[0]
    if "out" not in o:
        return False, "harness error: %s" % json.dumps(o)[:300], o
    r = o["out"]
    if r["stage"] == "ok" and r["err"] == "limit":
        return True, "limit error after %d ms, %d temporal facts" % (r["ms"], r["temporal"]), o
    if r["stage"] != "ok":
        return False, "program rejected at stage %s: %s" % (r["stage"], r.get("msg")), o
    if r["err"] == "timeout":
        what = "no return within %d ms (temporal facts are not counted by the limit: N15)" % case["timeout_ms"]
    elif r["err"] == "":
        what = ("nil error with %d temporal / %d plain facts although the least model is infinite "
                "(the delta rule lost the head interval: N1)" % (r["temporal"], r["plain"]))
    else:
        what = "error of another kind: %s" % r.get("emsg")
    return False, what, o



# ------------------------------------------------------------------ temporal / mixed programs
# Programs with predicates declared `temporal` (facts go to the temporal store), alone or
# next to ordinary recursion, run through runner c17_mixed with WithTemporalStore +
# WithEvaluationTime + WithCreatedFactLimit(L). coq/Datalog/Limit.v models the ordinary store
# only, so the verdicts here come from property-level oracles on Go's own outputs:
#  (b) no return within the guard;
#  (a) nil error on a program whose least model is infinite by construction, or nil error on a
#      finite program with stores (ordinary + temporal) different from those of the same
#      engine run without a limit (a finished limited run is the finished unlimited run:
#      limit_ok_simulates read on the implementation);
#  (c) a store at return above |E| + (R + 2) * L, E = the facts the store held plus the facts
#      of the text that go to it, R = number of rules (the argument of limit_bound applied to
#      each of the two stores; for the temporal store it is an oracle bound, not a theorem).
MIXED_GUARD_MS = 10000
T0 = "2024-01-01T00:00:00Z"           # the harness's evaluation time; tpre facts hold at [T0]


def _plain_part(rng, finite):
    """-> (kind, diverges, rules, text facts, pre facts) over the ordinary predicates p, q, e, b"""
    k = rng.choice(["none", "fin-bounded", "fin-bounded", "fin-closure", "fin-product"] if finite else
                   ["none", "div-counter", "div-counter", "div-let", "div-fanout", "div-nonlinear", "div-mutual",
                    "fin-bounded", "fin-closure", "fin-product"])
    seeds = sorted(rng.sample(range(0, 12), rng.randint(1, 2)))
    st = rng.randint(1, 3)
    if k == "none":
        return k, False, [], [], []
    if k == "div-counter":
        return k, True, ["p(Y) :- p(X), Y = fn:plus(X,%d)." % st], ["p(%d)." % v for v in seeds], []
    if k == "div-let":
        return k, True, ["p(Y) :- p(X) |> let Y = fn:plus(X,%d)." % st], ["p(%d)." % v for v in seeds], []
    if k == "div-fanout":
        m = rng.randint(2, 4)
        return (k, True, ["p(Y) :- p(X), b(K), Y = fn:plus(fn:mult(X,%d),K)." % m],
                ["p(1)."], ["b(%d)." % v for v in range(m)])
    if k == "div-nonlinear":
        return k, True, ["p(Z) :- p(X), p(Y), Z = fn:plus(X,Y)."], ["p(%d)." % (v + 1) for v in seeds], []
    if k == "div-mutual":
        return (k, True, ["q(Y) :- p(X), Y = fn:plus(X,1).", "p(Y) :- q(X), Y = fn:plus(X,1)."],
                ["p(%d)." % seeds[0]], [])
    if k == "fin-bounded":
        b = rng.randint(2, 20)
        return k, False, ["p(Y) :- p(X), X < %d, Y = fn:plus(X,1)." % b], ["p(%d)." % v for v in seeds], []
    if k == "fin-closure":
        n = rng.randint(2, 6)
        edges = ["e(%d,%d)." % (i, i + 1) for i in range(1, n)] + (["e(%d,1)." % n] if rng.random() < 0.4 else [])
        return k, False, ["p(Y) :- p(X), e(X,Y)."], ["p(1)."], edges
    n = rng.randint(1, 5)
    return k, False, ["q(X,Y) :- b(X), b(Y)."], [], ["b(%d)." % v for v in range(1, n + 1)]


def _temporal_part(rng, finite):
    """-> (kind, diverges, rules, seeds of t, ordinary pre facts) over the temporal predicate t"""
    k = rng.choice(["fin-bounded", "fin-closure"] if finite else
                   ["div-counter", "div-counter", "div-nonlinear", "div-fanout", "fin-bounded", "fin-bounded",
                    "fin-closure"])
    seeds = sorted(rng.sample(range(0, 12), rng.randint(1, 2)))
    if k == "div-counter":
        return k, True, ["t(Y)@[S,E] :- t(X)@[S,E], Y = fn:plus(X,%d)." % rng.randint(1, 3)], seeds, []
    if k == "div-nonlinear":
        return k, True, ["t(Z)@[S,E] :- t(X)@[S,E], t(Y)@[S,E], Z = fn:plus(X,Y)."], [v + 1 for v in seeds], []
    if k == "div-fanout":
        m = rng.randint(2, 4)
        return (k, True, ["t(Y)@[S,E] :- t(X)@[S,E], tk(K), Y = fn:plus(fn:mult(X,%d),K)." % m], [1],
                ["tk(%d)." % v for v in range(m)])
    if k == "fin-bounded":
        return k, False, ["t(Y)@[S,E] :- t(X)@[S,E], X < %d, Y = fn:plus(X,1)." % rng.randint(2, 20)], seeds, []
    n = rng.randint(2, 6)
    edges = ["te(%d,%d)." % (i, i + 1) for i in range(1, n)] + (["te(%d,1)." % n] if rng.random() < 0.4 else [])
    return k, False, ["t(Y)@[S,E] :- t(X)@[S,E], te(X,Y)."], [1], edges


def gen_mixed(rng):
    """One temporal or mixed program: an ordinary part (possibly empty), a temporal part, and
    optionally one link between them (ordinary recursion seeded from temporal facts, or the
    other way round). The least model is infinite iff one of the parts diverges."""
    finite = rng.random() < 0.3               # a share of programs with a finite model: runs around their size
    pk, pdiv, prules, ptext, ppre = _plain_part(rng, finite)
    tk, tdiv, trules, tseeds, tpre_plain = _temporal_part(rng, finite)
    link = "none"
    rules = list(prules) + list(trules)
    if pk not in ("none", "fin-product", "div-fanout") and rng.random() < 0.35:
        link = rng.choice(["t2p", "p2t"])
        rules.append("p(X) :- t(X)@[S,E]." if link == "t2p" else "t(X)@[now] :- p(X).")
    rng.shuffle(rules)
    seeds_in_text = rng.random() < 0.4        # facts of the text count against the limit
    text_facts = list(ptext) + ([("t(%d)@[%s]." % (v, T0)) for v in tseeds] if seeds_in_text else [])
    # extensional ordinary predicates (b, e, tk, te): all facts of one predicate live in one
    # place, the text (they count against the limit) or the caller's store (they do not)
    pre, home = [], {}
    for f in ppre + tpre_plain:
        pred = f.split("(")[0]
        if pred not in home:
            home[pred] = rng.choice(["text", "pre"])
        (pre if home[pred] == "pre" else text_facts).append(f)
    src = "\n".join(["Decl t(X) temporal."] + text_facts + rules)
    return {"family": "%s+t-%s%s" % (pk, tk, "" if link == "none" else "+" + link),
            "plain_kind": pk, "temporal_kind": tk, "link": link, "diverges": bool(pdiv or tdiv),
            "src": src, "pre": " ".join(pre), "tpre": [] if seeds_in_text else [["t", v] for v in tseeds],
            "init_plain": sum(1 for f in text_facts if "@[" not in f),
            "init_temporal": sum(1 for f in text_facts if "@[" in f)}


def mixed_case(mp, store, det, limit):
    return {"src": mp["src"], "pre": mp["pre"], "tpre": mp["tpre"], "store": store, "det": det,
            "limit": limit, "timeout_ms": MIXED_GUARD_MS}


def mixed_bounds(mp, r, limit):
    """(bound on the ordinary store, bound on the temporal store) at any return"""
    k = (r["rules"] + 2) * limit
    return r["plain_before"] + mp["init_plain"] + k, r["temporal_before"] + mp["init_temporal"] + k


def mixed_verdict(mp, r, limit, ref):
    """Property verdict of one limited run of a temporal / mixed program, decided on Go's
    output. ref = the run of the same engine without a limit (finite programs only).
    -> (code, text); code None = the property holds on this run."""
    if r["err"] == "timeout":
        return "b", "(b) no return within the wall-clock guard of %d ms" % MIXED_GUARD_MS
    if r["err"] == "panic":
        return "p", "evaluation under a fact limit panicked: %s" % r.get("emsg")
    bp, bt = mixed_bounds(mp, r, limit)
    if r["plain_after"] > bp:
        return "c", "(c) ordinary store holds %d facts at return, bound %d" % (r["plain_after"], bp)
    if r["temporal_after"] > bt:
        return "c", "(c) temporal store holds %d facts at return, bound %d (oracle bound)" % (r["temporal_after"], bt)
    if r["err"] == "":
        if mp["diverges"]:
            return "a", ("(a) nil error with %d ordinary / %d temporal facts although the least model is infinite "
                         "by construction" % (r["plain_after"], r["temporal_after"]))
        if ref is not None and (r["plain"] != ref["plain"] or r["temporal"] != ref["temporal"]):
            return "a", ("(a) nil error, but the stores differ from those of the run without a limit "
                         "(%d/%d ordinary, %d/%d temporal facts)" % (len(r["plain"]), len(ref["plain"]),
                                                                    len(r["temporal"]), len(ref["temporal"])))
    return None, ""


def run_mixed_stream(ck, progs, fixed_limits, origin):
    """Runs the temporal / mixed programs; returns the coverage block."""
    rng = ck.rng
    # reference runs (no limit) of the finite programs; never for a diverging one
    fin = [i for i, mp in enumerate(progs) if not mp["diverges"]]
    refs_out = ck.run_go("c17_mixed", [mixed_case(progs[i], "simple", True, 0) for i in fin], timeout=3000)
    refs, rejected = {}, []
    for i, o in zip(fin, refs_out):
        r = o.get("out")
        if r is None or r["stage"] != "ok" or r["err"] != "":
            rejected.append((i, json.dumps(o)[:300]))
            continue
        refs[i] = r
    runs = []
    for i, mp in enumerate(progs):
        if i in fixed_limits:
            for l in fixed_limits[i]:
                for st in STORES:
                    for det in (False, True):
                        runs.append((i, st, det, l))
            continue
        lims = set()
        if mp["diverges"]:
            lims |= {rng.randint(1, 30) for _ in range(ck.n(3, 5))}
            lims.add(rng.choice([1, 2, 30]))
        elif i in refs:
            r = refs[i]
            mp_, mt_ = r["plain_after"] - r["plain_before"], r["temporal_after"] - r["temporal_before"]
            for m in (mp_, mt_, mp_ + mt_):
                if 1 <= m <= 150:
                    lims |= {m - 1, m, m + 1}
            lims |= {rng.randint(1, 30) for _ in range(2)}
        for l in sorted(x for x in lims if 1 <= x <= 400):
            runs.append((i, rng.choice(STORES), rng.random() < 0.5, l))
    outs = ck.run_go("c17_mixed", [mixed_case(progs[i], st, det, l) for (i, st, det, l) in runs], timeout=3000)
    classes, vcount, skipped, durations = {}, {}, 0, []
    for (i, st, det, l), o in zip(runs, outs):
        r = o.get("out")
        mp = progs[i]
        if r is None:
            if len(ck.violations) < 5:
                ck.violation({"property": "C17", "kind": "harness error / panic escaped (temporal / mixed stream)",
                              "mixed_case": mixed_case(mp, st, det, l), "impl": o})
            continue
        if r["stage"] == "skipped":
            skipped += 1
            continue
        if r["stage"] != "ok":
            rejected.append((i, json.dumps(r)[:300]))
            continue
        classes[r["err"] or "ok"] = classes.get(r["err"] or "ok", 0) + 1
        durations.append(r["ms"])
        code, text = mixed_verdict(mp, r, l, refs.get(i))
        vcount[code or "holds"] = vcount.get(code or "holds", 0) + 1
        if code is None or len(ck.violations) >= 5:
            continue
        ck.violation({"property": "C17", "verdict": code, "kind": text, "origin": origin[i], "family": mp["family"],
                      "diverges": mp["diverges"], "mixed_program": mp, "mixed_case": mixed_case(mp, st, det, l),
                      "limit": l, "store": st, "det": det,
                      "go": {k: r[k] for k in ("err", "emsg", "ms", "rules", "plain_before", "plain_after",
                                               "temporal_before", "temporal_after") if k in r},
                      "go_plain": r["plain"][:60], "go_temporal": r["temporal"][:60],
                      "reference_without_limit": ({"plain": refs[i]["plain"][:60], "temporal": refs[i]["temporal"][:60]}
                                                  if i in refs else None),
                      "why_violation": "decided on Go's output by a property-level oracle (the Coq limit model covers "
                                       "the ordinary store of non-temporal programs): " + text})
    if rejected and len(ck.violations) < 5:
        ck.violation({"property": "C17", "kind": "generator: a temporal / mixed program was rejected, or the reference "
                                                 "run of a finite one did not finish",
                      "no_longer_checks": "temporal / mixed stream of checks/c17.py (input distribution broken)",
                      "samples": [(progs[i]["src"], m) for i, m in rejected[:3]]}, "no-failing-input-found")
    fams = {}
    for mp in progs:
        key = "%s | %s | link %s" % (mp["plain_kind"], mp["temporal_kind"], mp["link"])
        fams[key] = fams.get(key, 0) + 1
    return {"programs": len(progs), "with_infinite_model": sum(1 for mp in progs if mp["diverges"]),
            "reference_runs_without_limit": len(fin), "limited_runs": len(runs), "go_outcomes": classes,
            "verdicts": vcount, "skipped_after_guard_expiries": skipped, "rejected": len(rejected),
            "max_ms_per_evaluation": max(durations or [0]), "guard_ms": MIXED_GUARD_MS,
            "oracle": "property-level oracles on Go's outputs: guard; nil error on a diverging program; nil error with "
                      "stores != the engine's own unlimited run; stores above |E| + (rules + 2) * L",
            "families": fams, "sample": progs[-1]["src"] if progs else ""}, len(runs) + len(fin)


# ------------------------------------------------------------------ the check
def run(ck):
    ck.obligations()
    ck.build_harness()
    rng = ck.rng

    # ---- programs: corpus, exhaustive sweep (thorough), generated
    progs, origin, fixed_limits = [], [], {}
    probes = []
    mixed_progs, mixed_origin, mixed_fixed = [], [], {}
    for path in sorted(glob.glob(os.path.join(HERE, "..", "corpus", "C17", "*.json"))):
        j = json.load(open(path))
        if j.get("kind") == "temporal":
            probes.append((os.path.basename(path), j["case"]))
            continue
        if j.get("kind") == "mixed":
            mixed_fixed[len(mixed_progs)] = j["limits"]
            mixed_progs.append(j["mixed_program"])
            mixed_origin.append("corpus:" + os.path.basename(path))
            continue
        fixed_limits[len(progs)] = j["limits"]
        progs.append(j["program"])
        origin.append("corpus:" + os.path.basename(path))
    ncorpus = len(progs)
    nexh = 0
    if not ck.quick:
        for p in exhaustive_programs():
            fixed_limits[len(progs)] = list(range(1, 31))
            progs.append(p)
            origin.append("exhaustive")
            nexh += 1
    for _ in range(ck.n(60, 300)):
        progs.append(random_family(rng))
        origin.append("random")
    nrandom = len(progs) - ncorpus - nexh

    # ---- phase 1: sizing run (finite? how many facts are created?)
    sizing = ck.run_go("c17", [go_case(p, "simple", True, SIZING_LIMIT, nofacts=True) for p in progs], timeout=3000)
    ck.log("sizing done: %d programs" % len(progs))
    runs = []          # (program index, store, det, limit, temporal store configured)
    rejected, created = [], {}
    for i, o in enumerate(sizing):
        if "out" in o and o["out"]["stage"] == "skipped":
            continue                     # the guard expired three times in this batch: verdicts (b) below
        if "out" not in o or o["out"]["stage"] != "ok":
            rejected.append((i, json.dumps(o)[:300]))
            continue
        r = o["out"]
        lims = set()
        if i in fixed_limits:
            lims = set(fixed_limits[i])
        else:
            if r["err"] == "":
                m = r["n_after"] - r["n_before"]                 # created incl. facts of the text
                mr = m - len(progs[i].get("init", []))            # created by rules
                created[i] = m
                if m <= 150:
                    lims |= {m - 1, m, m + 1, mr - 1, mr, mr + 1}
                lims |= {rng.randint(1, 30) for _ in range(ck.n(1, 2))}
            else:
                lims |= {rng.randint(1, 30) for _ in range(ck.n(3, 6))}
                lims.add(rng.choice([1, 2, 30]))
            lims = {l for l in lims if 1 <= l <= 400}
        # every limited run twice: without and with a configured (empty) temporal store
        for l in sorted(lims):
            if origin[i] == "exhaustive" or origin[i].startswith("corpus"):
                for st in stores_for(progs[i], l):
                    for det in (False, True):
                        for ts in (False, True):
                            runs.append((i, st, det, l, ts))
            else:
                st, det = rng.choice(stores_for(progs[i], l)), rng.random() < 0.5
                for ts in (False, True):
                    runs.append((i, st, det, l, ts))
    outs = ck.run_go("c17", [go_case(progs[i], st, det, l, tstore=ts) for (i, st, det, l, ts) in runs], timeout=3000)
    ck.log("go side done: %d evaluations" % len(runs))

    # ---- model side: identical (program, layers, limit, observation) judged once
    terms, index, where = [], {}, []
    go_classes, durations = {}, []
    breaker_skipped, temporal_nonempty = 0, 0
    for (i, st, det, l, ts), o in zip(runs, outs):
        if "out" not in o:
            if len(ck.violations) < 5:
                ck.violation({"property": "C17", "kind": "harness error / panic escaped", "program": progs[i],
                              "limit": l, "store": st, "det": det, "tstore": ts, "impl": o})
            where.append(None)
            continue
        r = o["out"]
        if r["stage"] == "skipped":
            breaker_skipped += 1
            where.append(None)
            continue
        if r.get("temporal", 0) != 0:
            temporal_nonempty += 1
            if len(ck.violations) < 5:
                ck.violation({"property": "C17", "kind": "a non-temporal program left %d facts in the configured temporal "
                              "store" % r["temporal"], "no_longer_checks": "correspondence Run.C17.judge (temporal-store "
                              "configuration: the ordinary store is the only store a non-temporal program writes)",
                              "program": progs[i], "src": dc.to_mangle(progs[i]), "limit": l, "store": st, "det": det},
                             "no-failing-input-found")
        go_classes[r["err"] or "ok"] = go_classes.get(r["err"] or "ok", 0) + 1
        durations.append(r["ms"])
        if r["err"] == "panic":
            if len(ck.violations) < 5:
                ck.violation({"property": "C17", "kind": "evaluation under a fact limit panicked (neither a complete "
                              "result nor an error return)", "program": progs[i], "src": dc.to_mangle(progs[i]),
                              "limit": l, "store": st, "det": det, "tstore": ts,
                              "go": {"err": r["err"], "msg": r.get("emsg")}})
            where.append(None)
            continue
        try:
            t = cq_case(progs[i], r, l)
        except ValueError as e:
            if len(ck.violations) < 5:
                ck.violation({"property": "C17", "kind": "Go produced a value outside the modelled fragment: %s" % e,
                              "no_longer_checks": "correspondence Run.C17.judge", "program": progs[i], "limit": l},
                             "no-failing-input-found")
            where.append(None)
            continue
        if t not in index:
            index[t] = len(terms)
            terms.append(t)
        where.append(index[t])
    verdicts = ck.run_coq("C17", "judge", terms, shard=max(10, len(terms) // 16 + 1))
    ck.log("model side done: %d distinct comparisons" % len(terms))

    vc, f8_skipped, kind_differs = {}, 0, 0
    reported = set()
    vc_ts = {}
    for (i, st, det, l, ts), o, w in zip(runs, outs, where):
        if w is None:
            continue
        v = verdicts[w]
        vc[v] = vc.get(v, 0) + 1
        if ts:
            vc_ts[v] = vc_ts.get(v, 0) + 1
        if v == 1:
            kind_differs += 1        # rule order decides which error comes first: not a disagreement
    # replays: property violations first, then broken correspondence; one per distinct
    # (program, layers, limit, observation) and per distinct (program, limit) - the same
    # disagreement shows on every store kind / order / temporal-store mode
    order = sorted(range(len(runs)), key=lambda k: 0 if where[k] is not None and verdicts[where[k]] in VIOLATING else 1)
    reported_pl = set()
    for k in order:
        (i, st, det, l, ts), o, w = runs[k], outs[k], where[k]
        if w is None:
            continue
        v = verdicts[w]
        if v in (0, 1):
            continue
        if w in reported or (i, l, v) in reported_pl or len(ck.violations) >= 5:
            continue
        reported.add(w)
        reported_pl.add((i, l, v))
        r = o["out"]
        prog = progs[i]
        gof = dc.facts_from_go(r["facts"]) if r["err"] != "timeout" else []
        mv = model_view(ck, terms[w]) if v != 8 else {}
        rep = {"property": "C17", "verdict": v, "kind": VERDICT[v], "origin": origin[i], "family": prog.get("family"),
               "program": prog, "src": dc.to_mangle(prog), "pre": dc.facts_text(prog.get("pre", [])),
               "limit": l, "store": st, "det": det, "tstore": ts,
               "configuration": ("WithCreatedFactLimit(%d)%s%s" % (l, ", WithDeterministicOrder()" if det else "",
                                 ", WithTemporalStore(factstore.NewTemporalStore()), WithEvaluationTime(t)" if ts else "")),
               "go": {"err": r["err"], "msg": r.get("emsg"), "ms": r["ms"], "layers": r["layers"],
                      "n_before": r["n_before"], "n_after": r["n_after"], "store": dc.canon(gof)},
               "model": {k: x for k, x in mv.items() if k != "facts"}}
        # fallback screen (the families stay off F8 by construction, gen_program by typed
        # columns): a collision among the facts either side holds, on a hash-keyed store
        coll = dc.f8_collisions(gof + mv.get("facts", [])) if st in HASH_KEYED else []
        if coll and v not in (8,):
            f8_skipped += 1
            ck.known("F8 a generated program produced two facts with equal Atom.Hash(): %s / %s" % coll[0])
            continue
        if v in VIOLATING:
            rep["why_violation"] = {
                2: "Props/C17.v limit_ok_complete: an Ok result of the model is the result of the unlimited engine, "
                   "i.e. the least model (C01); Go returned nil with a different store",
                5: "Go returned nil, but its store is not closed under the program's rules (Run.C17.closed_under_rules): "
                   "a rule instance holds in the store and its head is missing, so the store is not a model",
                8: "every evaluation under a fact limit must return (limit_terminates for the model); Go did not "
                   "within %d ms" % GUARD_MS,
                10: "Props/C17.v limit_bound: store at return <= |E| + (max rules per stratum + 2) * L"}[v]
            ck.violation(rep)
        else:
            rep["no_longer_checks"] = THEOREM[v]
            ck.violation(rep, "no-failing-input-found")

    probe_results = []
    known_ids = {k["id"] for k in load_known()["findings"] if k.get("status") == "known"}
    # ---- probe for known finding F8 as it shows under this property: list construction
    # diverges, but [1,1,1,1,1,1,1] hashes like [1,1,1,1,1,1]; a hash-keyed store reports
    # the new fact as present and the engine returns nil after 7 facts, limit or not
    o = ck.run_go("c17", [F8_PROBE], timeout=300)[0]
    r = o.get("out", {})
    if r.get("stage") == "ok" and r.get("err") == "limit":
        probe_results.append({"probe": "F8 list growth", "ok": True, "what": "limit error, %d facts" % r["n_after"]})
    else:
        what = ("p0([]). p0(L2) :- p0(L), L2 = fn:list:cons(1, L). under WithCreatedFactLimit(100) on a hash-keyed "
                "store: %s with %s facts (least model infinite)" % (r.get("err") or "nil error", r.get("n_after")))
        probe_results.append({"probe": "F8 list growth", "ok": False, "what": what})
        if "F8" in known_ids:
            ck.known("F8 " + what)
        elif len(ck.violations) < 5:
            ck.violation({"property": "C17", "kind": "(a) " + what, "case": F8_PROBE, "go": o})
    # ---- probes for the temporal diverging program (N1 + N15)
    for name, case in ([("builtin", PROBE)] if not probes else probes):
        ok, what, o = temporal_probe(ck, case)
        probe_results.append({"probe": name, "ok": ok, "what": what})
        if ok:
            continue
        if known_ids & {"N1", "N15"}:
            ck.known("N15/N1 temporal diverging program under WithCreatedFactLimit(%d): %s" % (case["limit"], what))
        elif len(ck.violations) < 5:
            ck.violation({"property": "C17", "kind": "temporal diverging program under a fact limit: " + what,
                          "case": case, "go": o,
                          "why_violation": "the program's least model is infinite; with a created-fact limit the "
                                           "evaluation must stop with an error (findings N1 + N15; fixes/N1.patch, "
                                           "fixes/N15.patch)"})

    # ---- temporal and mixed programs with a configured temporal store (oracle-judged)
    for _ in range(ck.n(36, 250)):
        mixed_progs.append(gen_mixed(rng))
        mixed_origin.append("random")
    mixed_cov, mixed_evals = run_mixed_stream(ck, mixed_progs, mixed_fixed, mixed_origin)
    ck.log("temporal / mixed stream done: %d evaluations" % mixed_evals)

    # ---- generator health
    rej_bad = [x for x in rejected if origin[x[0]] != "random" or progs[x[0]].get("family") != "datalog_common.gen_program"]
    if rej_bad and len(ck.violations) < 5:
        ck.violation({"property": "C17", "kind": "generator: a family program was rejected by parse/analysis",
                      "no_longer_checks": "correspondence Run.C17.judge (input distribution broken)",
                      "samples": [(dc.to_mangle(progs[i]), m) for i, m in rej_bad[:3]]}, "no-failing-input-found")

    fams, divs = {}, 0
    for p in progs:
        fams[p.get("family", "corpus")] = fams.get(p.get("family", "corpus"), 0) + 1
        divs += 1 if p.get("diverges") else 0
    lim_hist = {}
    for (_, _, _, l, _) in runs:
        b = "1-5" if l <= 5 else "6-15" if l <= 15 else "16-30" if l <= 30 else ">30"
        lim_hist[b] = lim_hist.get(b, 0) + 1
    around = sum(1 for i in created if created[i] <= 150)
    distinct = set((dc.to_mangle(progs[i]) + "#" + dc.facts_text(progs[i].get("pre", [])), l) for (i, _, _, l, _) in runs)
    sample_i = ncorpus + nexh
    cov = {"evaluations": len(runs) + len(sizing) + mixed_evals, "limited_runs": len(runs), "sizing_runs": len(sizing),
           "limited_runs_with_temporal_store_configured": sum(1 for x in runs if x[4]),
           "verdicts_with_temporal_store_configured": {str(k): n for k, n in sorted(vc_ts.items())},
           "non_temporal_program_wrote_temporal_store": temporal_nonempty,
           "skipped_after_guard_expiries": breaker_skipped,
           "temporal_and_mixed_stream": mixed_cov,
           "programs": len(progs), "comparisons": len(terms),
           "distinct_nontrivial": len(distinct),
           "rule": "programs through parse -> AnalyzeOneUnit -> Stratify -> EvalStratifiedProgramWithStats with "
                   "WithCreatedFactLimit(L) on simple/indexed/multi/array stores, with and without deterministic order, "
                   "each limited run without and with WithTemporalStore(empty store) + WithEvaluationTime "
                   "(corpus %d, exhaustive-sweep programs %d, generated %d); evaluations = engine runs incl. one sizing "
                   "run per program and the temporal / mixed stream (runner c17_mixed: programs with a `temporal` "
                   "predicate, alone or next to ordinary recursion, %d programs, judged by property-level oracles); "
                   "distinct_nontrivial = distinct (program text, caller facts, limit); every program "
                   "has at least one rule and base facts" % (ncorpus, nexh, nrandom, len(mixed_progs)),
           "exhaustive": nexh > 0,
           "exhaustive_scope": ("every limit 1..30 x 4 store kinds x deterministic order on/off on %d fixed programs "
                                "(all families: counters eq/head/let/minus, list, pair, products, fan-out, mutual, "
                                "non-linear, closures, bounded counter, two strata, same-round join, init-heavy, several rules per stratum)" % nexh
                                if nexh else ""),
           "families": fams, "programs_with_infinite_model": divs,
           "finite_programs_run_around_their_size": around,
           "limit_histogram": lim_hist, "go_outcomes": go_classes,
           "verdicts": {str(k): n for k, n in sorted(vc.items())},
           "error_kind_differs": kind_differs, "f8_trigger_skipped": f8_skipped,
           "rejected_by_analysis": len(rejected),
           "max_ms_per_evaluation": max(durations or [0]), "guard_ms": GUARD_MS,
           "temporal_probe": probe_results,
           "samples": [{"src": dc.to_mangle(progs[min(sample_i, len(progs) - 1)]),
                        "pre": dc.facts_text(progs[min(sample_i, len(progs) - 1)].get("pre", []))},
                       {"src": dc.to_mangle(progs[-1]), "pre": dc.facts_text(progs[-1].get("pre", []))}]}
    return ck.finish(cov, assumptions=[
        "limit model hand-written (coq/Datalog/Limit.v on top of the C01 model coq/Datalog/*.v); tied to "
        "engine/seminaivebottomup.go by differential evaluation only (class and complete store at every return)",
        "limit_ok_complete reduces a nil-error result to the unlimited model; that the unlimited model computes the "
        "stratified least model is C01's theorem (Props/C01.v), taken as a hypothesis of the C17 corollary until it is closed",
        "fragment of the C01 model: names, strings, int64, pairs, lists; fn:plus/minus/mult/div/pair/cons/list/len; "
        "= != < <= > >=; let-transforms; no do-transforms, external / deferred / merge predicates",
        "the temporal store is a configuration dimension of the correspondence, not of the model: non-temporal programs "
        "are run with and without WithTemporalStore and judged by the same model; programs with temporal predicates "
        "(alone or mixed with ordinary recursion; annotation-copy rules t(..)@[S,E] :- t(..)@[S,E], .., links through "
        "p(X) :- t(X)@[S,E] and t(X)@[now] :- p(X)) are judged by property-level oracles on Go's outputs only (guard; nil "
        "error on a program diverging by construction; nil error with stores != the engine's own unlimited run; stores "
        "above |E| + (rules + 2) * L - for the temporal store an oracle bound, not a theorem)",
        "stores with an exact EstimateFactCount (simple, indexed, multi-indexed, array); merged/teeing stores "
        "over-estimate and are not run",
        "wall-clock guard %d ms per evaluation: a slower return would be reported as (b)" % GUARD_MS,
        "stratum order is taken from the run (analysis.Stratify result passed to EvalStratifiedProgramWithStats, as "
        "EvalProgramWithStats does); rule order inside a stratum only decides which of two errors comes first"])


def replay(ck, path):
    ck.build_harness()
    rep = json.load(open(path))
    if "case" in rep and "program" not in rep:
        ok, what, _ = temporal_probe(ck, rep["case"])
        print("replay: temporal probe: %s" % what)
        if not ok:
            print("VIOLATION property=C17 replay=%s" % path)
            return 1
        return 0
    if "mixed_program" in rep:
        mp, bad = rep["mixed_program"], False
        ref = None
        if not mp["diverges"]:
            o = ck.run_go("c17_mixed", [mixed_case(mp, "simple", True, 0)])[0]
            ref = o.get("out") if o.get("out", {}).get("err") == "" else None
        for l in rep.get("limits", [rep.get("limit")]):
            for st in STORES:
                for det in (False, True):
                    # own process per run: a diverging evaluation dies with it
                    o = ck.run_go("c17_mixed", [mixed_case(mp, st, det, l)])[0]
                    r = o.get("out")
                    if r is None or r["stage"] != "ok":
                        print("replay: not evaluated: %s" % json.dumps(o)[:300])
                        bad = True
                        continue
                    code, text = mixed_verdict(mp, r, l, ref)
                    print("replay: %s det=%s limit=%d: go %s, %d ordinary / %d temporal facts: %s"
                          % (st, det, l, r["err"] or "ok", r["plain_after"], r["temporal_after"], text or "holds"))
                    bad = bad or code is not None
        if bad:
            print("VIOLATION property=C17 replay=%s" % path)
            return 1
        return 0
    prog, l = rep["program"], rep["limit"]
    bad = False
    # hash-keyed stores only where the run stays off F8; one batch (the harness stops a batch
    # after three guard expiries), one Coq evaluation
    cfgs = [(st, det, ts) for st in stores_for(prog, l) for det in (False, True) for ts in (False, True)]
    outs = ck.run_go("c17", [go_case(prog, st, det, l, tstore=ts) for st, det, ts in cfgs])
    terms, idx = [], {}
    for k, o in enumerate(outs):
        if "out" in o and o["out"]["stage"] == "ok" and o["out"]["err"] not in ("timeout", "panic"):
            idx[k] = len(terms)
            terms.append(cq_case(prog, o["out"], l))
    vs = ck.run_coq("C17", "judge", terms)
    for k, ((st, det, ts), o) in enumerate(zip(cfgs, outs)):
        if "out" not in o or o["out"]["stage"] != "ok":
            print("replay: %s det=%s tstore=%s: not evaluated: %s" % (st, det, ts, json.dumps(o)[:300]))
            bad = True
            continue
        if o["out"]["err"] == "panic":
            print("replay: %s det=%s tstore=%s: panic %s" % (st, det, ts, o["out"].get("emsg")))
            bad = True
            continue
        v = vs[idx[k]] if k in idx else 8
        print("replay: %s det=%s tstore=%s limit=%d: go %s, %d facts, verdict %d %s"
              % (st, det, ts, l, o["out"]["err"] or "ok", o["out"]["n_after"], v, VERDICT.get(v, "agree")))
        bad = bad or v in VIOLATING
    if bad:
        print("VIOLATION property=C17 replay=%s" % path)
        return 1
    return 0


META = {
    "text": "Machine-checked theorems (coq/Props/C17.v) about a Gallina model of the semi-naive engine with a created-fact "
            "limit (the C01 model plus the four limit checks of engine/seminaivebottomup.go, each where the code has it): "
            "for every program, stratum order, rule order, base-fact set and limit L >= 1, (1) a result without error is "
            "exactly the result of the unlimited engine, hence the least model (limit_ok_complete, with C01); (2) at "
            "every return, with or without error, the store holds at most |E| + (max rules per stratum + 2) * L facts "
            "(limit_bound); (3) with |store| + L + 1 rounds of fuel per stratum the model never runs out of fuel, i.e. "
            "divergence is impossible (limit_terminates). The model is tied to the engine on every run: diverging "
            "generators (arithmetic, list/pair growth, fan-out, non-linear, mutual, two strata), cartesian products and "
            "finite programs with limits just below/at/above the number of facts they create are evaluated under a "
            "wall-clock guard and compared with the model inside Coq on error/ok class and on the complete store at "
            "return, every limited run both without and with a configured temporal store (WithTemporalStore + "
            "WithEvaluationTime, as the interpreter always configures one; same model, same verdicts); thorough sweeps "
            "every limit 1..30 on 30 fixed programs, 4 store kinds, both rule-order modes, both temporal-store modes. "
            "Programs with temporal predicates - temporal recursion alone and mixed with ordinary recursion in one "
            "program - run under the same guard and are judged by property-level oracles on Go's outputs. "
            "Verdicts are decided on Go's output: nil error with a store that is not the least model, no return within "
            "the guard, or a store above the proven bound.",
    "note": "Trusted: Coq kernel + vm_compute; the hand-written limit model is tied to the Go code only by differential "
            "evaluation (sampled; exhaustive over limits 1..30 on the fixed programs). 'Least model' rests on C01's theorem. "
            "The temporal store is not modelled: for non-temporal programs it is a configuration dimension judged by the "
            "same model; programs with temporal predicates are judged by oracles only (guard; nil error on a program "
            "diverging by construction; nil error with stores different from the engine's own unlimited run; store sizes "
            "above |E| + (rules + 2) * L, for the temporal store an oracle bound, not a theorem). Do-transforms, external "
            "and merge predicates and over-estimating stores (merged, teeing) are outside.",
}
