"""C20 - the naive and semi-naive evaluators compute the same facts.

Theorems: coq/Props/C20.v (the naive model's result IS the stratified least model, for
every transform-free program, base-fact set and fuel; hence equal to the semi-naive
model's result whenever that one finishes). Correspondence: generated transform-free
stratifiable programs are evaluated by engine.EvalProgramNaive and engine.EvalProgram on
two copies of one store (Go harness `c20`). The property verdict is decided on Go's own
two outputs (sorted printed fact sets differ => VIOLATION); both outputs are also
compared with the two models evaluated inside Coq (Run/C20.v judge) to say which engine
left its model.
"""
import copy
import glob
import itertools
import json
import os
import re

from vlib.core import C, Raw, coq
from checks import datalog_common as dc

FUEL = 80
LIMIT = 3000

VERDICT = {
    0: "agree",
    1: "the Go engines agree with each other, but one of them differs from its model",
    2: "the Go engines differ; the naive engine left its model",
    3: "the Go engines differ; the semi-naive engine left its model",
    4: "the Go engines differ; both or neither left the models",
    5: "inconclusive (model out of fuel / Go limit or guard)",
    6: "error status of semi-naive Go and semi-naive model differ",
    7: "the two models finished with different sets (excluded by naive_eq_seminaive)",
    8: "the naive engine panicked on a program the semi-naive engine finished",
    9: "semi-naive error (not accepted by both); the naive Go result differs from the naive model",
}


# ------------------------------------------------------------------ program shaping
def transform_free(prog):
    """The C01 generator emits let-transforms; the naive engine is specified for
    transform-free programs only. `head :- body |> let V = e.` is rewritten to
    `head :- body, V = e.` (same solutions, no transform)."""
    p = copy.deepcopy(prog)
    for c in p["clauses"]:
        for v, t in c.get("let", []):
            c["body"].append(["eq", dc.var(v), t])
        c["let"] = []
    p["features"] = sorted(set(p.get("features", [])) - {"let"})
    return p


def body_only_preds(prog):
    """predicates that occur in a body but have no rule and no fact: EvalProgramNaive takes
    its declarations from the store and the program text only, the analysis rejects them."""
    heads = set(c["head"]["p"] for c in prog["clauses"])
    have = set(f["p"] for f in prog.get("init", []) + prog.get("pre", []))
    used = {}
    for c in prog["clauses"]:
        for pr in c["body"]:
            if pr[0] in ("atom", "neg"):
                used.setdefault(pr[1]["p"], len(pr[1]["args"]))
    return {p: n for p, n in used.items() if p not in heads and p not in have}


def give_facts(prog, rng):
    """Every extensional predicate gets at least one fact (a row of small numbers, or
    of names when a clause uses the column with a name constant), so that the naive
    entry point knows the predicate. Returns the number of predicates filled."""
    missing = body_only_preds(prog)
    for p, n in sorted(missing.items()):
        cols = ["N"] * n
        for c in prog["clauses"]:
            for pr in c["body"]:
                if pr[0] in ("atom", "neg") and pr[1]["p"] == p:
                    for i, t in enumerate(pr[1]["args"]):
                        if t[0] == "c" and t[1][0] != "n":
                            cols[i] = t[1][0]
        row = []
        for ty in cols:
            if ty == "N":
                row.append(dc.num(rng.randint(0, 3)))
            elif ty == "name":
                row.append(dc.name(rng.choice(dc.NAMES)))
            elif ty == "s":
                row.append(dc.string(rng.choice(dc.STRS)))
            elif ty == "pair":
                row.append(dc.pair(dc.num(1), dc.num(2)))
            else:
                row.append(dc.lst([dc.num(1)]))
        prog.setdefault("init", []).append(dc.fact(p, *row))
    return len(missing)


def one_home_per_predicate(prog, rng):
    """EvalProgramNaive declares the predicates of the caller's store to the analysis
    (naivebottomup.go:38-42); a predicate that has facts in the store AND a fact or rule
    in the program text is rejected ("defined previously"). So the facts of one predicate
    all live in one place: the store only for predicates without any rule, and then with
    probability 1/2 when the generator used the store at all."""
    heads = set(c["head"]["p"] for c in prog["clauses"])
    facts = prog.get("init", []) + prog.get("pre", [])
    use_store = bool(prog.get("pre"))
    home = {}
    for f in facts:
        if f["p"] not in home:
            home[f["p"]] = "pre" if (use_store and f["p"] not in heads and rng.random() < 0.5) else "init"
    prog["init"] = [f for f in facts if home[f["p"]] == "init"]
    prog["pre"] = [f for f in facts if home[f["p"]] == "pre"]


def gen(rng, big=False):
    p = transform_free(dc.gen_program(rng, big))
    one_home_per_predicate(p, rng)
    give_facts(p, rng)
    return p


# ------------------------------------------------------------------ case encoding
def go_case(prog, shuffle_rng=None):
    return {"src": dc.to_mangle(prog, shuffle_rng), "pre": dc.facts_text(prog.get("pre", [])),
            "limit": LIMIT, "timeout_ms": 20000}


def cq_obs(side):
    e = side["err"]
    if e == "":
        return C("OFacts", [dc.cq_fact(f) for f in dc.facts_from_go(side["facts"])])
    if e == "panic":
        return Raw("OPanic")
    if e == "eval":
        return Raw("OEvalErr")
    return Raw("OLimit")


def cq_case(prog, out, fuel=FUEL):
    return coq(C("mkCase", dc.cq_program(prog), dc.cq_layers(prog),
                 [dc.cq_fact(f) for f in prog.get("pre", [])],
                 [dc.cq_fact(f) for f in prog.get("init", [])], fuel,
                 cq_obs(out["naive"]), cq_obs(out["semi"])))


def model_facts(ck, which, term):
    """Model outcome for a replay: ("ok", facts) | ("error", None) | ("fuel", None)."""
    out = ck.coq_show("C20", "%s_tokens %s" % (which, term))
    m = re.search(r"=\s*\[(.*?)\]\s*:\s*list Z", out, re.S)
    if not m:
        return "unparsed", out[-500:]
    toks = [int(x) for x in re.findall(r"-?\d+", m.group(1))]
    return dc.parse_model_tokens(toks)


def go_sets(out):
    """(naive, semi): sorted printed fact sets, None where the engine did not finish."""
    def one(side):
        if side["err"] != "":
            return None
        return dc.canon(dc.facts_from_go(side["facts"]))
    return one(out["naive"]), one(out["semi"])


# ------------------------------------------------------------------ exhaustive block
def exhaustive_programs():
    """Every program of two free rules over the schema: p0/2 and p1/1 extensional (fixed
    facts), p2/1 and p3/1 derived, seed rule p2(X) :- p1(X); each free rule has head
    p2(X) or p3(X) and a body of one or two literals; first literal a positive atom
    p1(V) p2(V) p3(V) p0(V,W), second literal a positive atom, a negated atom !p1(V)
    !p2(V) !p3(V), V != W, V = W or V < W over the variables X, Y. Kept: safe rules
    (head variable bound; negated / compared variables bound by the first literal) and
    stratifiable programs. No function symbols: every least model is finite."""
    X, Y = dc.var(1), dc.var(2)
    vs = [X, Y]
    pos = [["atom", dc.atom(p, v)] for p in (1, 2, 3) for v in vs]
    pos += [["atom", dc.atom(0, v, w)] for v in vs for w in vs]
    neg = [["neg", dc.atom(p, v)] for p in (1, 2, 3) for v in vs]
    tests = [["ineq", X, Y], ["eq", X, Y], ["cmp", "lt", X, Y], ["cmp", "lt", Y, X]]

    def vars_of(l):
        if l[0] in ("atom", "neg"):
            return set(t[1] for t in l[1]["args"])
        return {1, 2}
    bodies = [[l] for l in pos]
    bodies += [[a, b] for a in pos for b in pos + neg + tests]
    rules = []
    for h in (2, 3):
        for b in bodies:
            bound = set()
            ok = True
            for l in b:
                if l[0] == "atom":
                    bound |= vars_of(l)
                else:
                    ok = ok and vars_of(l) <= bound
            if ok and 1 in bound:
                rules.append(dc.clause(dc.atom(h, X), b))
    seed = dc.clause(dc.atom(2, X), [["atom", dc.atom(1, X)]])
    init = [dc.fact(0, dc.num(1), dc.num(2)), dc.fact(0, dc.num(2), dc.num(3)), dc.fact(0, dc.num(3), dc.num(3)),
            dc.fact(1, dc.num(1)), dc.fact(3, dc.num(2))]
    for r1, r2 in itertools.combinations_with_replacement(rules, 2):
        cl = [seed, r1, r2]
        layers = dc.stratify(cl)
        if layers is None:
            continue
        yield {"clauses": cl, "layers": layers, "init": init, "pre": [], "features": ["exhaustive"]}


# ------------------------------------------------------------------ the check
def corpus_programs():
    here = os.path.dirname(os.path.abspath(__file__))
    out = []
    for path in sorted(glob.glob(os.path.join(here, "..", "corpus", "C20", "*.json"))):
        out.append((os.path.basename(path), json.load(open(path))["program"]))
    return out


def run(ck):
    ck.obligations()
    ck.build_harness()
    rng = ck.rng
    progs, origin = [], []
    for nm, p in corpus_programs():
        progs.append(p)
        origin.append("corpus:" + nm)
    ncorpus = len(progs)
    filled = 0
    for _ in range(ck.n(240, 2500)):
        p = transform_free(dc.gen_program(rng, big=(not ck.quick) and rng.random() < 0.5))
        one_home_per_predicate(p, rng)
        filled += 1 if give_facts(p, rng) else 0
        progs.append(p)
        origin.append("random")
    nrandom = len(progs) - ncorpus
    nexh = 0
    if not ck.quick:
        ex = list(exhaustive_programs())
        nexh = len(ex)
        progs += ex
        origin += ["exhaustive"] * nexh
    go_cases = [go_case(p, shuffle_rng=rng if origin[i] == "random" and rng.random() < 0.5 else None)
                for i, p in enumerate(progs)]
    outs = ck.run_go("c20", go_cases, timeout=3000)
    ck.log("go side done: %d programs" % len(progs))

    terms, where = [], []
    rejected, stage_counts = [], {}
    semi_out, naive_out = {}, {}
    evaluations = 0
    go_differ = {}
    go_compared = 0
    exh_idx = [i for i in range(len(progs)) if origin[i] == "exhaustive"]
    exh_sample = set(rng.sample(exh_idx, min(len(exh_idx), 1500)))
    for i, o in enumerate(outs):
        if "out" not in o:
            ck.violation({"property": "C20", "kind": "harness error/panic", "program": progs[i],
                          "src": go_cases[i]["src"], "impl": o})
            continue
        st = o["out"]["stage"]
        stage_counts[st] = stage_counts.get(st, 0) + 1
        if st != "ok":
            rejected.append((i, st, o["out"].get("msg", "")))
            continue
        out = o["out"]
        se, ne = out["semi"]["err"] or "ok", out["naive"]["err"] or "ok"
        semi_out[se] = semi_out.get(se, 0) + 1
        naive_out[ne] = naive_out.get(ne, 0) + 1
        evaluations += 1 + (0 if ne == "skipped" else 1)
        if ne in ("analysis", "stratification", "eval"):
            # cannot happen: the harness made the same analysis call before; the naive
            # engine has no evaluation-error path
            ck.violation({"property": "C20", "kind": "EvalProgramNaive returned an error on a program the same analysis "
                                                     "accepted and the semi-naive engine evaluated",
                          "program": progs[i], "src": go_cases[i]["src"], "pre": go_cases[i]["pre"],
                          "naive": out["naive"], "semi_err": out["semi"]["err"]})
            continue
        try:
            gn, gs = go_sets(out)
        except ValueError as e:
            ck.violation({"property": "C20", "kind": "Go produced a value outside the modelled fragment: %s" % e,
                          "program": progs[i], "src": go_cases[i]["src"], "go": out})
            continue
        # ---- the property, decided on Go's own two outputs
        if gs is not None:
            go_compared += 1
            if gn is None and out["naive"]["err"] == "panic" or gn is not None and gn != gs:
                go_differ[i] = True
        # ---- the models: every corpus and random case; of the exhaustive block (where the
        # Go-vs-Go comparison above is the exhaustive part) a sample and every disagreement
        if origin[i] == "exhaustive" and not go_differ.get(i) and i not in exh_sample:
            continue
        terms.append(cq_case(progs[i], out))
        where.append((i, out))
    rej_random = [r for r in rejected if origin[r[0]] != "exhaustive"]
    verdicts = ck.run_coq("C20", "judge", terms, shard=max(20, len(terms) // 32 + 1))
    ck.log("model side done: %d comparisons" % len(terms))
    vc = {}
    both_finished = 0
    f8_skipped = 0
    for (i, out), v in zip(where, verdicts):
        vc[v] = vc.get(v, 0) + 1
        gn, gs = go_sets(out)
        if gn is not None and gs is not None:
            both_finished += 1
        differ = go_differ.get(i, False)
        if v in (0, 5) and not differ:
            continue
        if len(ck.violations) >= 5:
            continue
        prog = progs[i]
        term = cq_case(prog, out)
        kn, mn = model_facts(ck, "naive", term)
        ks, ms = model_facts(ck, "semi", term)
        rep = {"property": "C20", "verdict": v, "kind": VERDICT.get(v, "?"), "origin": origin[i], "program": prog,
               "src": go_cases[i]["src"], "pre": go_cases[i]["pre"],
               "go_naive": {"err": out["naive"]["err"], "msg": out["naive"].get("msg"), "facts": gn},
               "go_semi": {"err": out["semi"]["err"], "msg": out["semi"].get("msg"), "facts": gs},
               "model_naive": {"outcome": kn, "facts": dc.canon(mn) if kn == "ok" else mn},
               "model_semi": {"outcome": ks, "facts": dc.canon(ms) if ks == "ok" else ms},
               "go_engines_differ": differ}
        allf = []
        for side in ("naive", "semi"):
            if out[side]["err"] == "":
                allf += dc.facts_from_go(out[side]["facts"])
        coll = dc.f8_collisions(allf + (mn if kn == "ok" else []) + (ms if ks == "ok" else []))
        if coll:
            # the input contains the trigger of known finding F8 (hash-keyed stores)
            f8_skipped += 1
            ck.known("F8 a generated program produced two facts with equal Atom.Hash(): %s / %s" % coll[0])
            continue
        if differ:
            if gn is not None:
                sn, ss = set(gn), set(gs)
                rep["only_naive"] = sorted(sn - ss)
                rep["only_semi"] = sorted(ss - sn)
            rep["why_violation"] = ("engine.EvalProgramNaive and engine.EvalProgram, started from equal stores on a "
                                    "transform-free program both accept, did not finish with equal stores")
            ck.violation(rep)
        else:
            # the engines agree with each other on this input: the property holds here,
            # the tie between code and model is broken
            rep["no_longer_checks"] = ("correspondence Run.C20.judge: Go result differs from the model that "
                                       "Props/C20.v (naive_exact / naive_eq_seminaive) is about")
            ck.violation(rep, "no-failing-input-found")
    feats = {}
    for p in progs:
        for f in p.get("features", ["corpus"]):
            feats[f] = feats.get(f, 0) + 1
    nontrivial = set()
    for i, p in enumerate(progs):
        fs = set(p.get("features", []))
        if fs & {"recursive", "neg", "cmp", "same-round", "arith", "head-fn", "exhaustive"} or origin[i].startswith("corpus"):
            nontrivial.add(go_cases[i]["src"] + "#" + go_cases[i]["pre"])
    sizes = [len(out["semi"]["facts"]) for (_, out) in where if out["semi"]["err"] == ""]
    cov = {"evaluations": evaluations, "programs": len(progs), "comparisons": len(terms),
           "both_engines_finished": both_finished, "go_vs_go_compared": go_compared,
           "distinct_nontrivial": len(nontrivial),
           "rule": "programs through parse -> AnalyzeOneUnit (as EvalProgramNaive calls it) -> EvalProgram and "
                   "EvalProgramNaive on two copies of one SimpleInMemoryStore (corpus %d, random %d, exhaustive %d); "
                   "evaluations = engine runs; non-trivial = recursion, negation, comparison, arithmetic, head function "
                   "or same-round join present; distinct by program text" % (ncorpus, nrandom, nexh),
           "exhaustive": nexh > 0,
           "exhaustive_scope": ("all %d stratifiable safe programs of 2 free rules (+1 seed rule) with bodies of <=2 literals "
                                "(positive/negated atoms, =, !=, <) over 2 extensional and 2 derived predicates, 2 variables: "
                                "EvalProgramNaive vs EvalProgram fact sets compared on every one; the Coq models replayed on "
                                "a sample of %d of them" % (nexh, len(exh_sample))
                                if nexh else ""),
           "features": feats, "analysis_stage": stage_counts,
           "rejected_by_analysis_random": len(rej_random),
           "extensional_predicates_given_a_fact": filled,
           "semi_outcomes": semi_out, "naive_outcomes": naive_out,
           "verdicts": {str(k): n for k, n in sorted(vc.items())},
           "go_engines_differ": len(go_differ),
           "inconclusive": vc.get(5, 0), "f8_trigger_skipped": f8_skipped,
           "facts_per_result": {"max": max(sizes or [0]), "mean": round(sum(sizes) / max(1, len(sizes)), 1)},
           "samples": [go_cases[ncorpus]["src"], go_cases[min(len(go_cases) - 1, ncorpus + 1)]["src"]]}
    if rej_random:
        cov["rejected_samples"] = [(go_cases[i]["src"], m) for i, _, m in rej_random[:3]]
    if len(rej_random) > 0.1 * max(1, ncorpus + nrandom):
        ck.violation({"property": "C20", "kind": "generator: more than 10% of the generated programs rejected by analysis",
                      "no_longer_checks": "correspondence Run.C20.judge (input distribution broken)",
                      "samples": cov["rejected_samples"]}, "no-failing-input-found")
    if both_finished < 0.6 * max(1, len(terms)):
        ck.violation({"property": "C20", "kind": "fewer than 60% of the programs were finished by both engines",
                      "no_longer_checks": "correspondence Run.C20.judge (input distribution broken)",
                      "semi_outcomes": semi_out, "naive_outcomes": naive_out}, "no-failing-input-found")
    return ck.finish(cov, assumptions=[
        "models hand-written (coq/Datalog/Naive.v over the shared coq/Datalog/*.v); tied to engine/naivebottomup.go, "
        "seminaivebottomup.go, premise.go, functional.go by differential evaluation only",
        "the property verdict of a run is decided on the two Go outputs themselves; the models only localise a disagreement",
        "transform-free programs (let-transforms of the shared generator are rewritten to body equalities); "
        "fragment: names, strings, int64 numbers, pairs, lists; fn:plus/minus/mult/div/pair/cons/list/len; = != < <= > >=",
        "programs accepted by both = the analysis call of EvalProgramNaive succeeds and EvalProgram returns no error; on "
        "semi-naive evaluation errors (the naive engine drops the substitution instead) only naive Go vs naive model is compared",
        "programs are safe by construction (!=, comparisons, negation after their binders: N19, F3 belong to C04); typed "
        "columns so that no two facts of a predicate have equal Atom.Hash() (F8)",
        "both Go engines call analysis.Stratify themselves; the theorem naive_eq_seminaive is stated for one common valid "
        "stratification (independence of the choice is tested here, not proved)"])


def replay(ck, path):
    ck.build_harness()
    rep = json.load(open(path))
    prog = rep["program"]
    gc = go_case(prog)
    if "src" in rep:
        gc["src"] = rep["src"]
    o = ck.run_go("c20", [gc])[0]
    if "out" not in o or o["out"]["stage"] != "ok":
        print("replay: program not evaluated: %s" % json.dumps(o)[:300])
        print("VIOLATION property=C20 replay=%s" % path)
        return 1
    out = o["out"]
    gn, gs = go_sets(out)
    v = ck.run_coq("C20", "judge", [cq_case(prog, out)])[0]
    print("replay: naive %s (%s facts), semi-naive %s (%s facts): verdict %d %s"
          % (out["naive"]["err"] or "ok", len(gn) if gn is not None else "-",
             out["semi"]["err"] or "ok", len(gs) if gs is not None else "-", v, VERDICT.get(v, "?")))
    differ = gs is not None and (gn != gs)
    if differ:
        if gn is not None:
            print("replay: only naive: %s; only semi-naive: %s" % (sorted(set(gn) - set(gs)), sorted(set(gs) - set(gn))))
        print("VIOLATION property=C20 replay=%s" % path)
        return 1
    if v not in (0, 5):
        print("VIOLATION property=C20 replay=%s no-failing-input-found" % path)
        return 1
    return 0


META = {
    "text": "Machine-checked theorems (coq/Props/C20.v) about a Gallina model of the naive evaluator (its own clause loop with "
            "Gauss-Seidel fact insertion, premise evaluation after fix F11, errors dropped, strata in program order) over the "
            "shared Datalog model: for every transform-free program in which no layer negates a predicate it derives, every "
            "base-fact set, rule order and fuel, a finished naive evaluation holds exactly the facts of the stratified least "
            "model, hence the same set as a finished semi-naive evaluation (C01); the pre-fix negation is refuted. The models "
            "are tied to the code on every run by evaluating generated stratifiable programs (same-round joins, mutual and "
            "non-linear recursion, negation, comparisons, arithmetic, pairs/lists, head functions) with "
            "engine.EvalProgramNaive and engine.EvalProgram on copies of one store; the two Go fact sets must be equal "
            "(the property itself, decided on the implementation's outputs) and each equal to its model evaluated inside Coq; "
            "thorough adds an exhaustive block over a small rule schema.",
    "note": "Trusted: Coq kernel + vm_compute; hand-written models tied to the Go code by differential evaluation only. "
            "Programs with transforms, evaluation errors of the semi-naive engine (not accepted by both), hash collisions in "
            "stores (F8) are outside. Both engines stratify themselves; the theorem uses one common valid stratification.",
}
