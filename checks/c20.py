"""C20 - the naive and semi-naive evaluators compute the same facts.

Theorems: coq/Props/C20.v (the naive model's result IS the stratified least model, for
every transform-free program, base-fact set and fuel; hence equal to the semi-naive
model's result whenever that one finishes). Correspondence: generated transform-free
stratifiable programs are evaluated by engine.EvalProgramNaive and engine.EvalProgram on
two copies of one store (Go harness `c20`). The property verdict is decided on Go's own
two outputs (sorted printed fact sets differ => VIOLATION); both outputs are also
compared with the two models evaluated inside Coq (Run/C20.v judge) to say which engine
left its model.
"""
import copy
import glob
import itertools
import json
import os
import random
import re

from vlib.core import C, Raw, coq
from checks import datalog_common as dc

FUEL = 80
LIMIT = 3000

VERDICT = {
    0: "agree",
    1: "the Go engines agree with each other, but one of them differs from its model",
    2: "the Go engines differ; the naive engine left its model",
    3: "the Go engines differ; the semi-naive engine left its model",
    4: "the Go engines differ; both or neither left the models",
    5: "inconclusive (model out of fuel / Go limit or guard)",
    6: "error status of semi-naive Go and semi-naive model differ",
    7: "the two models finished with different sets (excluded by naive_eq_seminaive)",
    8: "the naive engine panicked on a program the semi-naive engine finished",
    9: "semi-naive error (not accepted by both); the naive Go result differs from the naive model",
}


# ------------------------------------------------------------------ program shaping
def transform_free(prog):
    """The C01 generator emits let-transforms; the naive engine is specified for
    transform-free programs only. `head :- body |> let V = e.` is rewritten to
    `head :- body, V = e.` (same solutions, no transform)."""
    p = copy.deepcopy(prog)
    for c in p["clauses"]:
        for v, t in c.get("let", []):
            c["body"].append(["eq", dc.var(v), t])
        c["let"] = []
    p["features"] = sorted(set(p.get("features", [])) - {"let"})
    return p


def body_only_preds(prog):
    """predicates that occur in a body but have no rule and no fact: EvalProgramNaive takes
    its declarations from the store and the program text only, the analysis rejects them."""
    heads = set(c["head"]["p"] for c in prog["clauses"])
    have = set(f["p"] for f in prog.get("init", []) + prog.get("pre", []))
    used = {}
    for c in prog["clauses"]:
        for pr in c["body"]:
            if pr[0] in ("atom", "neg"):
                used.setdefault(pr[1]["p"], len(pr[1]["args"]))
    return {p: n for p, n in used.items() if p not in heads and p not in have}


def give_facts(prog, rng):
    """Every extensional predicate gets at least one fact (a row of small numbers, or
    of names when a clause uses the column with a name constant), so that the naive
    entry point knows the predicate. Returns the number of predicates filled."""
    missing = body_only_preds(prog)
    for p, n in sorted(missing.items()):
        cols = ["N"] * n
        for c in prog["clauses"]:
            for pr in c["body"]:
                if pr[0] in ("atom", "neg") and pr[1]["p"] == p:
                    for i, t in enumerate(pr[1]["args"]):
                        if t[0] == "c" and t[1][0] != "n":
                            cols[i] = t[1][0]
        row = []
        for ty in cols:
            if ty == "N":
                row.append(dc.num(rng.randint(0, 3)))
            elif ty == "name":
                row.append(dc.name(rng.choice(dc.NAMES)))
            elif ty == "s":
                row.append(dc.string(rng.choice(dc.STRS)))
            elif ty == "pair":
                row.append(dc.pair(dc.num(1), dc.num(2)))
            else:
                row.append(dc.lst([dc.num(1)]))
        prog.setdefault("init", []).append(dc.fact(p, *row))
    return len(missing)


def one_home_per_predicate(prog, rng):
    """EvalProgramNaive declares the predicates of the caller's store to the analysis
    (naivebottomup.go:38-42); a predicate that has facts in the store AND a fact or rule
    in the program text is rejected ("defined previously"). So the facts of one predicate
    all live in one place: the store only for predicates without any rule, and then with
    probability 1/2 when the generator used the store at all."""
    heads = set(c["head"]["p"] for c in prog["clauses"])
    facts = prog.get("init", []) + prog.get("pre", [])
    use_store = bool(prog.get("pre"))
    home = {}
    for f in facts:
        if f["p"] not in home:
            home[f["p"]] = "pre" if (use_store and f["p"] not in heads and rng.random() < 0.5) else "init"
    prog["init"] = [f for f in facts if home[f["p"]] == "init"]
    prog["pre"] = [f for f in facts if home[f["p"]] == "pre"]


def gen(rng, big=False):
    p = transform_free(dc.gen_program(rng, big))
    one_home_per_predicate(p, rng)
    give_facts(p, rng)
    return p



# ------------------------------------------------------------------ non-linear recursion templates
# A rule with two or more positive premises over predicates of its own stratum needs one
# delta version PER OCCURRENCE (makeDeltaRules): a derivation whose newest fact matches a
# later occurrence, while the earlier occurrences are matched by older facts, is found only
# through the delta rule of that later occurrence. The data of these templates is a random
# derivation order, so that the facts joined by one rule instance are first derived in
# different rounds, in both orders. All models are finite (numbers below a bound, or a fixed
# universe of elements). Added after seeded change C20-1 (one delta rule per body predicate).
def _finish_template(rng, clauses, facts, feature):
    """Program dict from clauses + facts: stratified layers, a home for every predicate's facts."""
    rng.shuffle(clauses)
    layers = dc.stratify(clauses)
    assert layers is not None
    prog = {"clauses": clauses, "layers": layers, "init": [], "pre": [],
            "features": sorted({"recursive", "nonlinear", "template", feature})}
    seen, uniq = set(), []
    for f in facts:
        t = dc.fact_text(f)
        if t not in seen:
            seen.add(t)
            uniq.append(f)
    rng.shuffle(uniq)
    if rng.random() < 0.3:
        prog["pre"] = uniq           # one_home_per_predicate then re-homes predicate by predicate
    else:
        prog["init"] = uniq
    one_home_per_predicate(prog, rng)
    give_facts(prog, rng)
    return prog


def _upper_layer(rng, clauses, facts, derived, cand_pred, out_pred, universe):
    """Optionally a layer above the recursion that reads it under negation, so that a fact the
    recursion misses shows up as an extra fact of the upper predicate."""
    if rng.random() < 0.3:
        X = dc.var(1)
        clauses.append(dc.clause(dc.atom(out_pred, X), [["atom", dc.atom(cand_pred, X)], ["neg", dc.atom(derived, X)]]))
        facts += [dc.fact(cand_pred, dc.num(v)) for v in rng.sample(universe, min(len(universe), rng.randint(2, 5)))]


def tmpl_asym_join(rng, occurrences=2):
    """reach(Y) :- reach(X1), .., reach(Xk), link(X1,..,Xk,Y)  (k = 2 or 3) in a random premise
    order (the recursive predicate first / in the middle / last), a linear rule
    reach(Y) :- reach(X), step(X,Y), seeds through start/1 or as facts of reach. The elements
    1..n are derivable in a random order: element m from one earlier element (step) or from k
    earlier elements in a random role assignment (link), so the newest premise fact of a link
    instance sits at a random occurrence."""
    START, STEP, LINK, REACH, CAND, OUT = 0, 1, 2, 3, 4, 5
    k = occurrences
    xs = [dc.var(i + 1) for i in range(k)]
    Y = dc.var(k + 1)
    body = [["atom", dc.atom(REACH, x)] for x in xs] + [["atom", dc.atom(LINK, *(xs + [Y]))]]
    rng.shuffle(body)
    step_body = [["atom", dc.atom(REACH, xs[0])], ["atom", dc.atom(STEP, xs[0], Y)]]
    rng.shuffle(step_body)
    clauses = [dc.clause(dc.atom(REACH, Y), body), dc.clause(dc.atom(REACH, Y), step_body)]
    n = rng.randint(5, 9)
    nseed = rng.randint(1, 2)
    facts = []
    if rng.random() < 0.6:
        clauses.append(dc.clause(dc.atom(REACH, xs[0]), [["atom", dc.atom(START, xs[0])]]))
        facts += [dc.fact(START, dc.num(v)) for v in range(1, nseed + 1)]
    else:
        facts += [dc.fact(REACH, dc.num(v)) for v in range(1, nseed + 1)]
    have_step = have_link = False
    for m in range(nseed + 1, n + 1):
        earlier = list(range(1, m))
        if len(earlier) >= k and (rng.random() < 0.65 or m == n and not have_link):
            roles = rng.sample(earlier, k)                   # random order: no role is "the older one"
            facts.append(dc.fact(LINK, *[dc.num(v) for v in roles + [m]]))
            have_link = True
        else:
            facts.append(dc.fact(STEP, dc.num(rng.choice(earlier)), dc.num(m)))
            have_step = True
    # noise: links and steps that need an underivable element, or lead back into the set
    for _ in range(rng.randint(0, 3)):
        roles = [rng.randint(1, n + 2) for _ in range(k)]
        facts.append(dc.fact(LINK, *[dc.num(v) for v in roles + [rng.randint(1, n + 3)]]))
    if not have_step or rng.random() < 0.5:
        facts.append(dc.fact(STEP, dc.num(n + 5), dc.num(rng.randint(1, n))))
    if not have_link:
        facts.append(dc.fact(LINK, *[dc.num(n + 5)] * (k + 1)))
    _upper_layer(rng, clauses, facts, REACH, CAND, OUT, list(range(1, n + 4)))
    return _finish_template(rng, clauses, facts, "asym-join-%d" % k)


def tmpl_mutual_twice(rng):
    """Mutual recursion in which each rule mentions the other predicate twice:
    a(Y) :- b(X), b(Z), la(X,Z,Y).   b(Y) :- a(X), a(Z), lb(X,Z,Y).   plus linear crossings
    a(Y) :- b(X), ea(X,Y).  b(Y) :- a(X), eb(X,Y).  and seeds; random derivation order."""
    SA, SB, LA, LB, EA, EB, PA, PB = 0, 1, 2, 3, 4, 5, 6, 7
    X, Z, Y = dc.var(1), dc.var(2), dc.var(3)

    def shuffled(b):
        rng.shuffle(b)
        return b
    clauses = [dc.clause(dc.atom(PA, Y), shuffled([["atom", dc.atom(PB, X)], ["atom", dc.atom(PB, Z)], ["atom", dc.atom(LA, X, Z, Y)]])),
               dc.clause(dc.atom(PB, Y), shuffled([["atom", dc.atom(PA, X)], ["atom", dc.atom(PA, Z)], ["atom", dc.atom(LB, X, Z, Y)]])),
               dc.clause(dc.atom(PA, Y), shuffled([["atom", dc.atom(PB, X)], ["atom", dc.atom(EA, X, Y)]])),
               dc.clause(dc.atom(PB, Y), shuffled([["atom", dc.atom(PA, X)], ["atom", dc.atom(EB, X, Y)]])),
               dc.clause(dc.atom(PA, X), [["atom", dc.atom(SA, X)]]),
               dc.clause(dc.atom(PB, X), [["atom", dc.atom(SB, X)]])]
    ina, inb = [1], [1, 2] if rng.random() < 0.5 else [2]
    facts = [dc.fact(SA, dc.num(v)) for v in ina] + [dc.fact(SB, dc.num(v)) for v in inb]
    # keep every extensional predicate inhabited (the naive entry point needs a fact of each)
    facts += [dc.fact(LA, dc.num(90), dc.num(91), dc.num(92)), dc.fact(LB, dc.num(90), dc.num(91), dc.num(92)),
              dc.fact(EA, dc.num(90), dc.num(91)), dc.fact(EB, dc.num(90), dc.num(91))]
    for m in range(3, rng.randint(8, 12)):
        to_a = rng.random() < 0.5
        src = inb if to_a else ina
        if len(src) >= 2 and rng.random() < 0.7:
            x, z = rng.sample(src, 2)
            facts.append(dc.fact(LA if to_a else LB, dc.num(x), dc.num(z), dc.num(m)))
        else:
            facts.append(dc.fact(EA if to_a else EB, dc.num(rng.choice(src)), dc.num(m)))
        (ina if to_a else inb).append(m)
    return _finish_template(rng, clauses, facts, "mutual-twice")


def tmpl_arith_pairs(rng):
    """Recursion through arithmetic over two occurrences of the recursive predicate with
    asymmetric roles:  n(Z) :- n(X), n(Y), X < Y, Z = fn:plus(X,Y), Z < B.  (also <=, !=,
    fn:mult, the comparison after the equality, the premises in either order, a third occurrence)."""
    SEED, NUM, CAND, OUT = 0, 1, 2, 3
    X, Y, Z, W = dc.var(1), dc.var(2), dc.var(3), dc.var(4)
    mult = rng.random() < 0.25
    three = rng.random() < 0.25
    bound = rng.randint(30, 60) if mult else rng.randint(18, 30) if three else rng.randint(10, 24)
    test = rng.choice([["cmp", "lt", X, Y], ["cmp", "lt", X, Y], ["cmp", "lt", X, Y], ["cmp", "le", X, Y],
                       ["cmp", "le", X, Y], ["cmp", "gt", X, Y], ["cmp", "gt", X, Y], ["ineq", X, Y]])
    atoms = [["atom", dc.atom(NUM, X)], ["atom", dc.atom(NUM, Y)]]
    if three:
        atoms.append(["atom", dc.atom(NUM, W)])
        e = dc.app("plus", dc.app("mult" if mult else "plus", X, Y), W)
        tail = [test, ["cmp", "lt", Y, W], ["eq", Z, e], ["cmp", "lt", Z, dc.cst(dc.num(bound))]]
    else:
        e = dc.app("mult" if mult else "plus", X, Y)
        tail = [test, ["eq", Z, e], ["cmp", "lt", Z, dc.cst(dc.num(bound))]]
        if rng.random() < 0.3:
            tail = [["eq", Z, e], ["cmp", "lt", Z, dc.cst(dc.num(bound))], test]
    # new numbers are sums / products, i.e. larger than the facts they come from: the newest
    # fact of an instance usually is the LARGER of the two. Mostly the smaller one comes first,
    # so that the larger, newer one is matched by a later occurrence.
    smaller_first = rng.random() < 0.75
    if (test[1] == "gt") == smaller_first and not three:
        atoms.reverse()
    clauses = [dc.clause(dc.atom(NUM, Z), atoms + tail)]
    seeds = sorted(rng.sample(range(2, 6) if mult else range(1, 6), 2 if rng.random() < 0.7 else 3))
    facts = []
    if rng.random() < 0.5:
        clauses.append(dc.clause(dc.atom(NUM, X), [["atom", dc.atom(SEED, X)]]))
        facts += [dc.fact(SEED, dc.num(v)) for v in seeds]
    else:
        facts += [dc.fact(NUM, dc.num(v)) for v in seeds]
    _upper_layer(rng, clauses, facts, NUM, CAND, OUT, list(range(1, bound + 2)))
    return _finish_template(rng, clauses, facts, "arith-pairs")


def tmpl_binary_asym(rng):
    """A binary recursive predicate joined with itself in asymmetric roles:
    r(X,W) :- r(X,Y), e(X,Y), g(Y,Z), r(Z,W).  with  r(X,Y) :- e(X,Y).  The first occurrence
    can only be matched by a base pair (a linear recursion in disguise): every new fact
    enters through the occurrence r(Z,W). Premises in a random order; chains of 3-6 pairs
    connected by gates g in a random order, sometimes cyclic."""
    E, G, R = 0, 1, 2
    X, Y, Z, W = dc.var(1), dc.var(2), dc.var(3), dc.var(4)
    body = [["atom", dc.atom(R, X, Y)], ["atom", dc.atom(E, X, Y)], ["atom", dc.atom(G, Y, Z)], ["atom", dc.atom(R, Z, W)]]
    rng.shuffle(body)
    clauses = [dc.clause(dc.atom(R, X, W), body), dc.clause(dc.atom(R, X, Y), [["atom", dc.atom(E, X, Y)]])]
    n = rng.randint(3, 6)
    facts = [dc.fact(E, dc.num(10 * i), dc.num(10 * i + 1)) for i in range(1, n + 1)]
    order = list(range(1, n + 1))
    rng.shuffle(order)
    for a, b in zip(order, order[1:]):
        if rng.random() < 0.9:
            facts.append(dc.fact(G, dc.num(10 * a + 1), dc.num(10 * b)))
    facts.append(dc.fact(G, dc.num(10 * order[-1] + 1), dc.num(10 * order[0] if rng.random() < 0.3 else 999)))
    return _finish_template(rng, clauses, facts, "binary-asym")


TEMPLATES = [("asym-join-2", lambda r: tmpl_asym_join(r, 2)), ("asym-join-3", lambda r: tmpl_asym_join(r, 3)),
             ("mutual-twice", tmpl_mutual_twice), ("arith-pairs", tmpl_arith_pairs), ("binary-asym", tmpl_binary_asym)]


def template_programs(rng, per_template):
    return [f(rng) for _, f in TEMPLATES for _ in range(per_template)]


def _tval(t, env):
    if t[0] == "var":
        return env.get(t[1])
    if t[0] == "c":
        return t[1][1]
    if t[0] == "app":
        vs = [_tval(x, env) for x in t[2]]
        if any(v is None for v in vs):
            return None
        out = vs[0]
        for v in vs[1:]:
            out = out + v if t[1] == "plus" else out * v
        return out
    raise ValueError(t)


def _solve(body, k, env, store, delta, dpos):
    """all environments satisfying body[k:]; premise dpos reads `delta`, the others `store`"""
    if k == len(body):
        yield env
        return
    pr = body[k]
    if pr[0] == "atom":
        for row in (delta if k == dpos else store).get(pr[1]["p"], ()):
            e2 = dict(env)
            ok = True
            for t, v in zip(pr[1]["args"], row):
                if t[0] == "var" and t[1] not in e2:
                    e2[t[1]] = v
                elif _tval(t, e2) != v:
                    ok = False
                    break
            if ok:
                yield from _solve(body, k + 1, e2, store, delta, dpos)
        return
    if pr[0] == "neg":
        row = tuple(_tval(t, env) for t in pr[1]["args"])
        if row not in store.get(pr[1]["p"], ()):
            yield from _solve(body, k + 1, env, store, delta, dpos)
        return
    if pr[0] == "eq" and pr[1][0] == "var" and pr[1][1] not in env:
        e2 = dict(env)
        e2[pr[1][1]] = _tval(pr[2], env)
        yield from _solve(body, k + 1, e2, store, delta, dpos)
        return
    l, r = (_tval(pr[2], env), _tval(pr[3], env)) if pr[0] == "cmp" else (_tval(pr[1], env), _tval(pr[2], env))
    ok = {"eq": l == r, "ineq": l != r}.get(pr[0])
    if pr[0] == "cmp":
        ok = {"lt": l < r, "le": l <= r, "gt": l > r, "ge": l >= r}[pr[1]]
    if ok:
        yield from _solve(body, k + 1, env, store, delta, dpos)


def template_model(prog, per_occurrence):
    """Generator health only (no engine, no verdict): semi-naive evaluation of a TEMPLATE
    program (numbers, atoms, negation of lower layers, = with fn:plus/fn:mult, != and
    comparisons) in Python, with one delta version per occurrence of a stratum predicate
    (per_occurrence) or only for the first occurrence of each predicate. A program on which
    the two differ exercises the delta rule of a later occurrence."""
    store = {}
    for f in prog.get("init", []) + prog.get("pre", []):
        store.setdefault(f["p"], set()).add(tuple(c[1] for c in f["args"]))
    for layer in prog["layers"]:
        rules = [c for c in prog["clauses"] if c["head"]["p"] in layer]
        delta = None
        for _ in range(200):
            new = {}
            for c in rules:
                if delta is None:
                    positions = [-1]
                else:
                    positions, seen = [], set()
                    for i, pr in enumerate(c["body"]):
                        if pr[0] == "atom" and pr[1]["p"] in layer and (per_occurrence or pr[1]["p"] not in seen):
                            seen.add(pr[1]["p"])
                            positions.append(i)
                for dpos in positions:
                    for env in _solve(c["body"], 0, {}, store, delta or {}, dpos):
                        row = tuple(_tval(t, env) for t in c["head"]["args"])
                        if row not in store.get(c["head"]["p"], ()):
                            new.setdefault(c["head"]["p"], set()).add(row)
            if not new:
                break
            for q, rows in new.items():
                store.setdefault(q, set()).update(rows)
            delta = new
    return store


def later_occurrence_matters(prog):
    return template_model(prog, True) != template_model(prog, False)


# ------------------------------------------------------------------ wildcard-negation stream (round 3, seed C20-5)
# A negated atom that still contains `_` after substitution holds iff NO stored fact UNIFIES with
# it (engine/premise.go premiseNegAtom); an engine that looks the evaluated atom up by membership
# never finds `path(1, _)` and lets the negation succeed. dc.Gen never writes a wildcard into a
# negated atom; dc.add_wild_neg (C01's template, reused by import) does. The programs are ordinary
# members of the main pipeline: Go naive vs Go semi-naive is the verdict, both are compared with
# the Coq models (the encoders give every `_` a fresh variable of its own; Solve.v `step` and
# Naive.v `nstep` on PNeg fail iff some stored fact unifies, i.e. the existential reading).
def wildneg_programs(wrng, want, big=False):
    progs, gstats, tries = [], {}, 0
    while len(progs) < want and tries < 4 * want:
        tries += 1
        p, sig = dc.gen_program_sig(wrng, big and wrng.random() < 0.3)
        st = dc.add_wild_neg(wrng, p, sig, prob=0.6)
        if not st:
            continue
        p = transform_free(p)
        one_home_per_predicate(p, wrng)
        give_facts(p, wrng)
        for k, n in st.items():
            gstats[k] = gstats.get(k, 0) + n
        progs.append(p)
    return progs, gstats


def wildneg_strip(prog):
    """The program without its negated atoms that contain a wildcard: what an engine computes
    that lets every such negation succeed. Used to count the programs sensitive to the reading."""
    q = copy.deepcopy(prog)
    for c in q["clauses"]:
        c["body"] = [p for p in c["body"] if not (p[0] == "neg" and ["wild"] in p[1]["args"])]
    return q


# ------------------------------------------------------------------ built-in predicate stream (round 3, seed C20-4)
# Rules whose bodies contain built-in PREDICATE atoms with output places - :match_pair(P, A, B),
# :match_cons(L, H, T), :list:member(X, L) - and tests (:lt, :le, :gt, :ge, :match_nil, negated
# ground tests), over pair / list valued columns. The built-in stands BEFORE the atoms (the
# recursive atom in particular) that share its output variables: the analysis accepts an output
# place only while the variable is still free, so those atoms become look-ups with bound arguments
# and any engine that evaluates them earlier (join re-ordering, delta premise first) hands the
# built-in a constant at an output place. Premises are put in a random order among the orders the
# mode discipline accepts. C01's Solve.v has no built-in predicate atoms, so this stream is judged
# on Go's own outputs only (Go-side oracle: the property itself - equal fact sets, equal error
# class; an error in one engine and a result in the other is a violation). Kept away from the known
# C04 findings: no negated built-in with a wildcard or with an output place (N105, N106), no
# repeated output variable (N107), no constant / function application at an output or input place
# sharing an output variable (N108); column types are fixed so that no built-in sees a value of the
# wrong type (the semi-naive engine aborts on a built-in error, the naive one drops the solution).
def _bt(c):
    if isinstance(c, tuple):
        return "fn:pair(%s, %s)" % (_bt(c[0]), _bt(c[1]))
    if isinstance(c, list):
        return "[%s]" % ", ".join(_bt(x) for x in c)
    return str(c)


def _pm(text, need=(), free=(), bind=(), rec=False, builtin=False):
    return {"t": text, "need": set(need), "free": set(free), "bind": set(bind) | set(free), "rec": rec, "bi": builtin}


def _at(pred, *vs, rec=False):
    return _pm("%s(%s)" % (pred, ", ".join(vs)), bind=[v for v in vs if v[:1].isupper()], rec=rec)


def _order_ok(body):
    bound = set()
    for p in body:
        if not p["need"] <= bound or p["free"] & bound:
            return False
        bound |= p["bind"]
    return True


def _valid_orders(body):
    return [list(o) for o in itertools.permutations(body) if _order_ok(o)] if len(body) <= 6 else [body]


def _rule(rng, head, body, stats):
    """head :- body in a uniformly random premise order among those the modes accept."""
    assert _order_ok(body), (head, [p["t"] for p in body])
    orders = _valid_orders(body)
    body = rng.choice(orders)
    stats["rules"] = stats.get("rules", 0) + 1
    stats["valid_orders_total"] = stats.get("valid_orders_total", 0) + len(orders)
    seen_out, hazard = set(), False
    for i, p in enumerate(body):
        if p["rec"] and i > 0 and (set(p["bind"]) & seen_out):
            hazard = True
        if p["bi"]:
            seen_out |= p["free"]
            stats["builtin:" + p["t"].split("(")[0].lstrip("!")] = stats.get("builtin:" + p["t"].split("(")[0].lstrip("!"), 0) + 1
    if any(p["rec"] for p in body):
        stats["recursive_rules"] = stats.get("recursive_rules", 0) + 1
    if hazard:
        stats["recursive_atom_after_builtin_sharing_an_output_variable"] = \
            stats.get("recursive_atom_after_builtin_sharing_an_output_variable", 0) + 1
    return ("%s :- %s." % (head, ", ".join(p["t"] for p in body))), hazard


def _bi_finish(rng, rules, facts, derived, feature, hazard):
    """facts: [(pred, [consts])]. Extensional predicates live in the text or (whole predicate) in
    the caller's store; derived predicates' seed facts in the text."""
    text, pre, seen = [], [], set()
    home = {}
    use_store = rng.random() < 0.35
    for pred, row in facts:
        line = "%s(%s)." % (pred, ", ".join(_bt(c) for c in row))
        if line in seen:
            continue
        seen.add(line)
        if pred not in home:
            home[pred] = "pre" if (use_store and pred not in derived and rng.random() < 0.5) else "text"
        (pre if home[pred] == "pre" else text).append(line)
    lines = text + rules
    rng.shuffle(lines)
    return {"src": "\n".join(lines) + "\n", "pre": "\n".join(pre), "template": feature, "hazard": hazard}


def _elems(rng, n):
    if rng.random() < 0.3:
        return ["/e%d" % i for i in range(1, n + 1)], True
    return list(range(1, n + 1)), False


def bi_pair_reach(rng, stats):
    """reach(Z) :- link(P), :match_pair(P, Y, Z), reach(Y).  (forward / backward, link with a key
    column and a guard atom, extra tests, a second recursive atom, mutual recursion, an upper layer)."""
    n = rng.randint(4, 8)
    el, names = _elems(rng, n)
    edges = set()
    for i in range(n - 1):
        if rng.random() < 0.8:
            edges.add((el[i], el[i + 1]))
    for _ in range(rng.randint(1, 4)):
        edges.add((rng.choice(el), rng.choice(el)))
    edges = sorted(edges, key=str)
    fwd = rng.random() < 0.6
    keyed = rng.random() < 0.4
    mutual = rng.random() < 0.25
    rules, facts, hz = [], [], False

    def rec_rule(head_pred, link_pred, body_pred):
        body = []
        if keyed:
            body += [_at(link_pred, "K", "P"), _at("ok", "K")]
        else:
            body.append(_at(link_pred, "P"))
        body.append(_pm(":match_pair(P, Y, Z)", need=["P"], free=["Y", "Z"], builtin=True))
        src, dst = ("Y", "Z") if fwd else ("Z", "Y")
        body.append(_at(body_pred, src, rec=True))
        x = rng.random()
        if x < 0.2:
            body.append(_pm("Y != Z", need=["Y", "Z"]))
        elif x < 0.35 and not names:
            body.append(_pm(":le(%s, %d)" % (dst, n), need=[dst], builtin=True))
        elif x < 0.5:
            body += [_at("gate", dst, "W"), _at(body_pred, "W", rec=True)]
        r, h = _rule(rng, "%s(%s)" % (head_pred, dst), body, stats)
        rules.append(r)
        return h
    if mutual:
        hz = rec_rule("ra", "la", "rb") | rec_rule("rb", "lb", "ra")
        derived = {"ra", "rb"}
        for k, (a, b) in enumerate(edges):
            lp = rng.choice(["la", "lb"])
            facts.append((lp, ([k % 3] if keyed else []) + [(a, b)]))
        facts += [("la", ([0] if keyed else []) + [(el[0], el[0])]), ("lb", ([0] if keyed else []) + [(el[-1], el[-1])])]
        facts += [("ra", [el[0] if fwd else el[-1]]), ("rb", [el[0] if fwd else el[-1]])]
        target = "ra"
    else:
        hz = rec_rule("reach", "link", "reach")
        derived = {"reach"}
        for k, (a, b) in enumerate(edges):
            facts.append(("link", ([k % 3] if keyed else []) + [(a, b)]))
        seed = el[0] if fwd else el[-1]
        if rng.random() < 0.5:
            rules.append("reach(X) :- start(X).")
            facts.append(("start", [seed]))
        else:
            facts.append(("reach", [seed]))
        if rng.random() < 0.3:
            facts.append(("reach", [rng.choice(el)]))
        target = "reach"
    if keyed:
        facts += [("ok", [0]), ("ok", [rng.choice([1, 2])])]
    if any("gate(" in r for r in rules):
        facts += [("gate", [rng.choice(el), rng.choice(el)]) for _ in range(rng.randint(2, 5))]
        facts += [("gate", [e, e]) for e in rng.sample(el, 2)]
    if rng.random() < 0.35:
        rules.append("out(X) :- cand(X), !%s(X)." % target)
        derived.add("out")
        facts += [("cand", [e]) for e in rng.sample(el, min(n, 4))]
    return _bi_finish(rng, rules, facts, derived, "pair-reach", hz)


def bi_member_reach(rng, stats):
    """r(Y) :- e(X, L), :list:member(Y, L), r(X).  and backward  r(X) :- e(X, L), :list:member(Y, L), r(Y)."""
    n = rng.randint(4, 8)
    el, names = _elems(rng, n)
    facts = []
    for i, x in enumerate(el):
        if rng.random() < 0.8:
            succ = rng.sample(el, rng.randint(1, 3))
            if i + 1 < n and rng.random() < 0.6:
                succ.append(el[i + 1])
            facts.append(("e", [x, succ]))
    if not facts:
        facts.append(("e", [el[0], [el[1]]]))
    fwd = rng.random() < 0.5
    body = [_at("e", "X", "L"), _pm(":list:member(Y, L)", need=["L"], free=["Y"], builtin=True),
            _at("r", "X" if fwd else "Y", rec=True)]
    x = rng.random()
    if x < 0.25:
        body.append(_pm("X != Y", need=["X", "Y"]))
    elif x < 0.45:
        body.append(_at("keep", "Y"))
        facts += [("keep", [e]) for e in rng.sample(el, max(2, n - 2))]
    elif x < 0.6:
        body.append(_pm("!block(Y)", need=["Y"]))
        facts += [("block", [e]) for e in rng.sample(el, 1)]
    rule, hz = _rule(rng, "r(%s)" % ("Y" if fwd else "X"), body, stats)
    rules = [rule]
    seed = rng.choice(el)
    if rng.random() < 0.5:
        rules.append("r(X) :- start(X).")
        facts.append(("start", [seed]))
    else:
        facts.append(("r", [seed]))
    derived = {"r"}
    if rng.random() < 0.4:
        # a non-recursive reader of the result, again through a built-in
        r2, _ = _rule(rng, "both(X, Y)", [_at("r", "X"), _at("e", "X", "L"),
                                          _pm(":list:member(Y, L)", need=["L"], free=["Y"], builtin=True),
                                          _pm("!r(Y)", need=["Y"])], stats)
        rules.append(r2)
        derived.add("both")
    return _bi_finish(rng, rules, facts, derived, "member-reach", hz)


def bi_cons(rng, stats):
    """Lists taken apart by :match_cons: suffix(T) :- suffix(L), :match_cons(L, H, T).
    good(L) :- suffix(L), :match_cons(L, H, T), good(T), ok(H).  (recursive atom over the output T)
    on(B) :- suffix(L), :match_cons(L, A, T), :match_cons(T, B, T2), on(A).  (over the output A)"""
    n = rng.randint(4, 7)
    el = list(range(1, n + 1))
    facts = []
    for _ in range(rng.randint(2, 4)):
        facts.append(("path", [[rng.choice(el) for _ in range(rng.randint(1, 4))]]))
    rules = ["suffix(L) :- path(L)."]
    r, _ = _rule(rng, "suffix(T)", [_at("suffix", "L", rec=True), _pm(":match_cons(L, H, T)", need=["L"], free=["H", "T"], builtin=True)], stats)
    rules.append(r)
    derived = {"suffix"}
    hz = False
    kind = rng.choice(["good", "on", "both"])
    if kind in ("good", "both"):
        body = [_at("suffix", "L"), _pm(":match_cons(L, H, T)", need=["L"], free=["H", "T"], builtin=True),
                _at("good", "T", rec=True)]
        if rng.random() < 0.7:
            body.append(_at("ok", "H"))
            facts += [("ok", [e]) for e in rng.sample(el, max(2, n - 1))]
        else:
            body.append(_pm(":lt(H, %d)" % n, need=["H"], builtin=True))
        r, h = _rule(rng, "good(L)", body, stats)
        hz |= h
        rules.append(r)
        if rng.random() < 0.5:
            facts.append(("good", [[]]))
        else:
            rules.append("good(L) :- suffix(L), :match_nil(L).")
            stats["builtin::match_nil"] = stats.get("builtin::match_nil", 0) + 1
        derived.add("good")
    if kind in ("on", "both"):
        body = [_at("suffix", "L"), _pm(":match_cons(L, A, T)", need=["L"], free=["A", "T"], builtin=True),
                _pm(":match_cons(T, B, T2)", need=["T"], free=["B", "T2"], builtin=True), _at("on", "A", rec=True)]
        r, h = _rule(rng, "on(B)", body, stats)
        hz |= h
        rules.append(r)
        facts.append(("on", [rng.choice(el)]))
        first = facts[0][1][0][0]
        facts.append(("on", [first]))
        derived.add("on")
    return _bi_finish(rng, rules, facts, derived, "cons-lists", hz)


def bi_nonrec(rng, stats):
    """Non-recursive rules: the atom that shares the built-in's output variable comes after it."""
    n = rng.randint(4, 7)
    el = list(range(1, n + 1))
    facts = [("num", [e]) for e in rng.sample(el, n - 1)]
    facts += [("lst", [[rng.choice(el) for _ in range(rng.randint(0, 3))]]) for _ in range(rng.randint(2, 4))]
    facts += [("pr", [(rng.choice(el), rng.choice(el))]) for _ in range(rng.randint(2, 5))]
    rules = []
    mk = [
        lambda: _rule(rng, "m(X)", [_at("lst", "L"), _pm(":list:member(X, L)", need=["L"], free=["X"], builtin=True), _at("num", "X")], stats),
        lambda: _rule(rng, "ab(A, B)", [_at("pr", "P"), _pm(":match_pair(P, A, B)", need=["P"], free=["A", "B"], builtin=True),
                                        _at("num", "A"), _pm(":%s(A, B)" % rng.choice(["lt", "le", "gt", "ge"]), need=["A", "B"], builtin=True)], stats),
        lambda: _rule(rng, "hd(H)", [_at("lst", "L"), _pm(":match_cons(L, H, T)", need=["L"], free=["H", "T"], builtin=True),
                                     _pm("!num(H)", need=["H"])], stats),
        lambda: _rule(rng, "sw(B, A)", [_at("pr", "P"), _pm(":match_pair(P, A, B)", need=["P"], free=["A", "B"], builtin=True),
                                        _at("num", "B"), _pm("A != B", need=["A", "B"])], stats),
        lambda: _rule(rng, "small(X)", [_at("num", "X"), _pm(":lt(X, %d)" % rng.randint(2, n), need=["X"], builtin=True),
                                        _pm("!:gt(X, %d)" % rng.randint(1, n), need=["X"], builtin=True)], stats),
        lambda: _rule(rng, "emp(L)", [_at("lst", "L"), _pm(":match_nil(L)", need=["L"], builtin=True)], stats),
        lambda: _rule(rng, "tl2(T, X)", [_at("lst", "L"), _pm(":match_cons(L, H, T)", need=["L"], free=["H", "T"], builtin=True),
                                         _pm(":list:member(X, T)", need=["T"], free=["X"], builtin=True), _at("num", "X")], stats),
    ]
    derived = set()
    for f in rng.sample(mk, rng.randint(2, 4)):
        r, _ = f()
        rules.append(r)
        derived.add(r.split("(")[0])
    return _bi_finish(rng, rules, facts, derived, "non-recursive", False)


BI_TEMPLATES = [bi_pair_reach, bi_pair_reach, bi_member_reach, bi_cons, bi_nonrec]


def builtin_corpus():
    here = os.path.dirname(os.path.abspath(__file__))
    out = []
    for path in sorted(glob.glob(os.path.join(here, "..", "corpus", "C20", "builtin", "*.json"))):
        j = json.load(open(path))
        out.append({"src": j["src"], "pre": j.get("pre", ""), "template": "corpus:builtin/" + os.path.basename(path), "hazard": True})
    return out


def bi_go_case(c):
    return {"src": c["src"], "pre": c["pre"], "limit": LIMIT, "timeout_ms": 20000}


def bi_side(side):
    if side["err"] != "":
        return side["err"], None
    return "ok", sorted(json.dumps(f, sort_keys=True) for f in side["facts"])


def bi_judge(out):
    """Go-side oracle of the built-in stream: ('agree'|'violation'|'inconclusive', why)."""
    (se, sf), (ne, nf) = bi_side(out["semi"]), bi_side(out["naive"])
    if se in ("limit", "timeout") or ne in ("skipped", "timeout"):
        return "inconclusive", "semi-naive %s, naive %s" % (se, ne)
    if se != "ok" or ne != "ok":
        return "violation", ("one engine finished, the other did not: semi-naive %s (%s), naive %s (%s)"
                             % (se, out["semi"].get("msg", ""), ne, out["naive"].get("msg", "")))
    if sf != nf:
        return "violation", "the two engines finished with different fact sets"
    return "agree", ""


def builtin_stream(ck):
    """Runs the built-in predicate stream, reports violations, returns its coverage dict."""
    brng = random.Random("%s/builtin/%d" % (ck.pid, ck.seed))
    stats = {}
    cases = builtin_corpus()
    ncorpus = len(cases)
    for i in range(ck.n(80, 1500)):
        cases.append(BI_TEMPLATES[i % len(BI_TEMPLATES)](brng, stats))
    outs = ck.run_go("c20", [bi_go_case(c) for c in cases], timeout=3000)
    res, tm, rejected = {}, {}, []
    facts_derived = 0
    for c, o in zip(cases, outs):
        tm[c["template"]] = tm.get(c["template"], 0) + 1
        if "out" not in o:
            ck.violation({"property": "C20", "stream": "builtin", "kind": "harness error/panic", "src": c["src"], "pre": c["pre"], "impl": o})
            continue
        if o["out"]["stage"] != "ok":
            rejected.append((c["src"], o["out"].get("msg", "")))
            continue
        v, why = bi_judge(o["out"])
        res[v] = res.get(v, 0) + 1
        if v == "violation" and len(ck.violations) < 8:
            (se, sf), (ne, nf) = bi_side(o["out"]["semi"]), bi_side(o["out"]["naive"])
            rep = {"property": "C20", "stream": "builtin", "kind": why, "origin": c["template"], "src": c["src"], "pre": c["pre"],
                   "oracle": "Go-side oracle (the property itself on the implementation's two outputs; no Coq model of built-in "
                             "predicate atoms): engine.EvalProgramNaive and engine.EvalProgram on copies of one store must end in "
                             "the same error class and with equal fact sets",
                   "go_naive": {"err": o["out"]["naive"]["err"], "msg": o["out"]["naive"].get("msg")},
                   "go_semi": {"err": o["out"]["semi"]["err"], "msg": o["out"]["semi"].get("msg")},
                   "why_violation": "engine.EvalProgramNaive and engine.EvalProgram, started from equal stores on a transform-free "
                                    "program the analysis accepts, did not both finish with equal stores"}
            if sf is not None and nf is not None:
                rep["only_naive"] = sorted(set(nf) - set(sf))
                rep["only_semi"] = sorted(set(sf) - set(nf))
            elif nf is not None:
                rep["naive_facts"] = nf
            ck.violation(rep)
        if v == "agree":
            facts_derived += len(o["out"]["semi"]["facts"])
    ngen = len(cases) - ncorpus
    if len(rejected) > 0.05 * max(1, len(cases)):
        ck.violation({"property": "C20", "stream": "builtin", "kind": "generator: more than 5% of the built-in stream rejected by analysis",
                      "no_longer_checks": "built-in predicate stream of C20 (input distribution broken)",
                      "samples": rejected[:3]}, "no-failing-input-found")
    hz = sum(1 for c in cases if c["hazard"])
    if hz < 0.3 * max(1, len(cases)):
        ck.violation({"property": "C20", "stream": "builtin", "kind": "generator: fewer than 30% of the built-in programs put a recursive "
                                                                      "atom after a built-in whose output variable it shares",
                      "no_longer_checks": "built-in predicate stream of C20 (input distribution broken)"}, "no-failing-input-found")
    ck.log("built-in stream: %d programs, %s, rejected %d" % (len(cases), res, len(rejected)))
    return {"oracle": "Go-side oracle: naive vs semi-naive outputs of the implementation (error class and sorted fact sets); "
                      "no Coq model (C01's Solve.v has no built-in predicate atoms)",
            "programs": len(cases), "corpus": ncorpus, "generated": ngen, "evaluations": 2 * (len(cases) - len(rejected)),
            "per_template": tm, "results": res, "rejected_by_analysis": len(rejected),
            "rejected_samples": rejected[:2],
            "programs_with_recursive_atom_after_builtin_sharing_an_output_variable": hz,
            "generator": stats, "facts_in_agreeing_results": facts_derived,
            "sample": cases[ncorpus]["src"] if ngen else ""}



# ------------------------------------------------------------------ case encoding
def go_case(prog, shuffle_rng=None):
    return {"src": dc.to_mangle(prog, shuffle_rng), "pre": dc.facts_text(prog.get("pre", [])),
            "limit": LIMIT, "timeout_ms": 20000}


def cq_obs(side):
    e = side["err"]
    if e == "":
        return C("OFacts", [dc.cq_fact(f) for f in dc.facts_from_go(side["facts"])])
    if e == "panic":
        return Raw("OPanic")
    if e == "eval":
        return Raw("OEvalErr")
    return Raw("OLimit")


def cq_case(prog, out, fuel=FUEL):
    return coq(C("mkCase", dc.cq_program(prog), dc.cq_layers(prog),
                 [dc.cq_fact(f) for f in prog.get("pre", [])],
                 [dc.cq_fact(f) for f in prog.get("init", [])], fuel,
                 cq_obs(out["naive"]), cq_obs(out["semi"])))


def model_facts(ck, which, term):
    """Model outcome for a replay: ("ok", facts) | ("error", None) | ("fuel", None)."""
    out = ck.coq_show("C20", "%s_tokens %s" % (which, term))
    m = re.search(r"=\s*\[(.*?)\]\s*:\s*list Z", out, re.S)
    if not m:
        return "unparsed", out[-500:]
    toks = [int(x) for x in re.findall(r"-?\d+", m.group(1))]
    return dc.parse_model_tokens(toks)


def go_sets(out):
    """(naive, semi): sorted printed fact sets, None where the engine did not finish."""
    def one(side):
        if side["err"] != "":
            return None
        return dc.canon(dc.facts_from_go(side["facts"]))
    return one(out["naive"]), one(out["semi"])


# ------------------------------------------------------------------ exhaustive block
def exhaustive_programs():
    """Every program of two free rules over the schema: p0/2 and p1/1 extensional (fixed
    facts), p2/1 and p3/1 derived, seed rule p2(X) :- p1(X); each free rule has head
    p2(X) or p3(X) and a body of one or two literals; first literal a positive atom
    p1(V) p2(V) p3(V) p0(V,W), second literal a positive atom, a negated atom !p1(V)
    !p2(V) !p3(V), V != W, V = W or V < W over the variables X, Y. Kept: safe rules
    (head variable bound; negated / compared variables bound by the first literal) and
    stratifiable programs. No function symbols: every least model is finite."""
    X, Y = dc.var(1), dc.var(2)
    vs = [X, Y]
    pos = [["atom", dc.atom(p, v)] for p in (1, 2, 3) for v in vs]
    pos += [["atom", dc.atom(0, v, w)] for v in vs for w in vs]
    neg = [["neg", dc.atom(p, v)] for p in (1, 2, 3) for v in vs]
    tests = [["ineq", X, Y], ["eq", X, Y], ["cmp", "lt", X, Y], ["cmp", "lt", Y, X]]

    def vars_of(l):
        if l[0] in ("atom", "neg"):
            return set(t[1] for t in l[1]["args"])
        return {1, 2}
    bodies = [[l] for l in pos]
    bodies += [[a, b] for a in pos for b in pos + neg + tests]
    rules = []
    for h in (2, 3):
        for b in bodies:
            bound = set()
            ok = True
            for l in b:
                if l[0] == "atom":
                    bound |= vars_of(l)
                else:
                    ok = ok and vars_of(l) <= bound
            if ok and 1 in bound:
                rules.append(dc.clause(dc.atom(h, X), b))
    seed = dc.clause(dc.atom(2, X), [["atom", dc.atom(1, X)]])
    init = [dc.fact(0, dc.num(1), dc.num(2)), dc.fact(0, dc.num(2), dc.num(3)), dc.fact(0, dc.num(3), dc.num(3)),
            dc.fact(1, dc.num(1)), dc.fact(3, dc.num(2))]
    for r1, r2 in itertools.combinations_with_replacement(rules, 2):
        cl = [seed, r1, r2]
        layers = dc.stratify(cl)
        if layers is None:
            continue
        yield {"clauses": cl, "layers": layers, "init": init, "pre": [], "features": ["exhaustive"]}


# ------------------------------------------------------------------ the check
def corpus_programs():
    here = os.path.dirname(os.path.abspath(__file__))
    out = []
    for path in sorted(glob.glob(os.path.join(here, "..", "corpus", "C20", "*.json"))):
        out.append((os.path.basename(path), json.load(open(path))["program"]))
    return out


def run(ck):
    ck.obligations()
    ck.build_harness()
    rng = ck.rng
    progs, origin = [], []
    for nm, p in corpus_programs():
        progs.append(p)
        origin.append("corpus:" + nm)
    ncorpus = len(progs)
    filled = 0
    for _ in range(ck.n(196, 2400)):
        p = transform_free(dc.gen_program(rng, big=(not ck.quick) and rng.random() < 0.5))
        one_home_per_predicate(p, rng)
        filled += 1 if give_facts(p, rng) else 0
        progs.append(p)
        origin.append("random")
    nrandom = len(progs) - ncorpus
    # non-linear recursion with asymmetric roles (every delta occurrence matters): every run
    tmpl_counts, tmpl_sensitive = {}, {}
    for nm, f in TEMPLATES:
        for _ in range(ck.n(8, 40)):
            p = f(rng)
            progs.append(p)
            origin.append("template:" + nm)
            tmpl_counts[nm] = tmpl_counts.get(nm, 0) + 1
            tmpl_sensitive[nm] = tmpl_sensitive.get(nm, 0) + (1 if later_occurrence_matters(p) else 0)
    ntemplate = len(progs) - ncorpus - nrandom
    # wildcards inside negated atoms (own PRNG: the main stream of a seed stays as it is)
    wrng = random.Random("%s/wildneg/%d" % (ck.pid, ck.seed))
    wn_progs, wn_stats = wildneg_programs(wrng, ck.n(40, 500), big=not ck.quick)
    wn_first = len(progs)
    progs += wn_progs
    origin += ["wildneg"] * len(wn_progs)
    nwild = len(wn_progs)
    nexh = 0
    if not ck.quick:
        ex = list(exhaustive_programs())
        nexh = len(ex)
        progs += ex
        origin += ["exhaustive"] * nexh
    go_cases = [go_case(p, shuffle_rng=rng if origin[i].startswith(("random", "template")) and rng.random() < 0.5 else None)
                for i, p in enumerate(progs)]
    outs = ck.run_go("c20", go_cases, timeout=3000)
    # generator health of the wildcard-negation stream: the same programs without the negated atoms
    # that contain a wildcard (= an engine that lets each of them succeed); how many results change
    wn_sensitive = 0
    strip_outs = ck.run_go("c20", [go_case(wildneg_strip(p)) for p in wn_progs], timeout=3000) if wn_progs else []
    for k, so in enumerate(strip_outs):
        a, b = outs[wn_first + k].get("out"), so.get("out")
        if a and b and a["stage"] == "ok" and b["stage"] == "ok" and a["semi"]["err"] == "" and b["semi"]["err"] == "" \
                and a["semi"]["facts"] != b["semi"]["facts"]:
            wn_sensitive += 1
    bi_cov = builtin_stream(ck)
    ck.log("go side done: %d programs" % len(progs))

    terms, where = [], []
    rejected, stage_counts = [], {}
    semi_out, naive_out = {}, {}
    evaluations = 0
    go_differ = {}
    go_compared = 0
    exh_idx = [i for i in range(len(progs)) if origin[i] == "exhaustive"]
    exh_sample = set(rng.sample(exh_idx, min(len(exh_idx), 1500)))
    for i, o in enumerate(outs):
        if "out" not in o:
            ck.violation({"property": "C20", "kind": "harness error/panic", "program": progs[i],
                          "src": go_cases[i]["src"], "impl": o})
            continue
        st = o["out"]["stage"]
        stage_counts[st] = stage_counts.get(st, 0) + 1
        if st != "ok":
            rejected.append((i, st, o["out"].get("msg", "")))
            continue
        out = o["out"]
        se, ne = out["semi"]["err"] or "ok", out["naive"]["err"] or "ok"
        semi_out[se] = semi_out.get(se, 0) + 1
        naive_out[ne] = naive_out.get(ne, 0) + 1
        evaluations += 1 + (0 if ne == "skipped" else 1)
        if ne in ("analysis", "stratification", "eval"):
            # cannot happen: the harness made the same analysis call before; the naive
            # engine has no evaluation-error path
            ck.violation({"property": "C20", "kind": "EvalProgramNaive returned an error on a program the same analysis "
                                                     "accepted and the semi-naive engine evaluated",
                          "program": progs[i], "src": go_cases[i]["src"], "pre": go_cases[i]["pre"],
                          "naive": out["naive"], "semi_err": out["semi"]["err"]})
            continue
        try:
            gn, gs = go_sets(out)
        except ValueError as e:
            ck.violation({"property": "C20", "kind": "Go produced a value outside the modelled fragment: %s" % e,
                          "program": progs[i], "src": go_cases[i]["src"], "go": out})
            continue
        # ---- the property, decided on Go's own two outputs
        if gs is not None:
            go_compared += 1
            if gn is None and out["naive"]["err"] == "panic" or gn is not None and gn != gs:
                go_differ[i] = True
        # ---- the models: every corpus and random case; of the exhaustive block (where the
        # Go-vs-Go comparison above is the exhaustive part) a sample and every disagreement
        if origin[i] == "exhaustive" and not go_differ.get(i) and i not in exh_sample:
            continue
        terms.append(cq_case(progs[i], out))
        where.append((i, out))
    rej_random = [r for r in rejected if origin[r[0]] != "exhaustive"]
    verdicts = ck.run_coq("C20", "judge", terms, shard=max(20, len(terms) // 32 + 1))
    ck.log("model side done: %d comparisons" % len(terms))
    vc = {}
    both_finished = 0
    f8_skipped = 0
    for (i, out), v in zip(where, verdicts):
        vc[v] = vc.get(v, 0) + 1
        gn, gs = go_sets(out)
        if gn is not None and gs is not None:
            both_finished += 1
        differ = go_differ.get(i, False)
        if v in (0, 5) and not differ:
            continue
        if len(ck.violations) >= 5:
            continue
        prog = progs[i]
        term = cq_case(prog, out)
        kn, mn = model_facts(ck, "naive", term)
        ks, ms = model_facts(ck, "semi", term)
        rep = {"property": "C20", "verdict": v, "kind": VERDICT.get(v, "?"), "origin": origin[i], "program": prog,
               "src": go_cases[i]["src"], "pre": go_cases[i]["pre"],
               "go_naive": {"err": out["naive"]["err"], "msg": out["naive"].get("msg"), "facts": gn},
               "go_semi": {"err": out["semi"]["err"], "msg": out["semi"].get("msg"), "facts": gs},
               "model_naive": {"outcome": kn, "facts": dc.canon(mn) if kn == "ok" else mn},
               "model_semi": {"outcome": ks, "facts": dc.canon(ms) if ks == "ok" else ms},
               "go_engines_differ": differ}
        allf = []
        for side in ("naive", "semi"):
            if out[side]["err"] == "":
                allf += dc.facts_from_go(out[side]["facts"])
        coll = dc.f8_collisions(allf + (mn if kn == "ok" else []) + (ms if ks == "ok" else []))
        if coll:
            # the input contains the trigger of known finding F8 (hash-keyed stores)
            f8_skipped += 1
            ck.known("F8 a generated program produced two facts with equal Atom.Hash(): %s / %s" % coll[0])
            continue
        if differ:
            if gn is not None:
                sn, ss = set(gn), set(gs)
                rep["only_naive"] = sorted(sn - ss)
                rep["only_semi"] = sorted(ss - sn)
            rep["why_violation"] = ("engine.EvalProgramNaive and engine.EvalProgram, started from equal stores on a "
                                    "transform-free program both accept, did not finish with equal stores")
            ck.violation(rep)
        else:
            # the engines agree with each other on this input: the property holds here,
            # the tie between code and model is broken
            rep["no_longer_checks"] = ("correspondence Run.C20.judge: Go result differs from the model that "
                                       "Props/C20.v (naive_exact / naive_eq_seminaive) is about")
            ck.violation(rep, "no-failing-input-found")
    feats = {}
    for p in progs:
        for f in p.get("features", ["corpus"]):
            feats[f] = feats.get(f, 0) + 1
    nontrivial = set()
    for i, p in enumerate(progs):
        fs = set(p.get("features", []))
        if fs & {"recursive", "neg", "cmp", "same-round", "arith", "head-fn", "exhaustive", "template", "neg-wild"} or origin[i].startswith("corpus"):
            nontrivial.add(go_cases[i]["src"] + "#" + go_cases[i]["pre"])
    sizes = [len(out["semi"]["facts"]) for (_, out) in where if out["semi"]["err"] == ""]
    cov = {"evaluations": evaluations, "programs": len(progs), "comparisons": len(terms),
           "both_engines_finished": both_finished, "go_vs_go_compared": go_compared,
           "distinct_nontrivial": len(nontrivial),
           "rule": "programs through parse -> AnalyzeOneUnit (as EvalProgramNaive calls it) -> EvalProgram and "
                   "EvalProgramNaive on two copies of one SimpleInMemoryStore (corpus %d, random %d, non-linear templates %d, "
                   "wildcard negation %d, exhaustive %d; the built-in predicate stream is counted in builtin_stream); "
                   "evaluations = engine runs; non-trivial = recursion, negation, comparison, arithmetic, head function "
                   "or same-round join present; distinct by program text" % (ncorpus, nrandom, ntemplate, nwild, nexh),
           "nonlinear_templates": {"programs": tmpl_counts,
                                   "programs_where_a_later_occurrence_delta_rule_matters": tmpl_sensitive,
                                   "how_counted": "Python semi-naive evaluation of the template program with a delta "
                                                  "version per occurrence vs. only per distinct stratum predicate of a "
                                                  "body (generator health, no engine, no verdict)"},
           "wildneg_stream": {"programs": nwild, "sensitive_programs": wn_sensitive, "generator": wn_stats,
                              "rule": "generated programs whose clauses got wildcards inside negated atoms by dc.add_wild_neg "
                                      "(C01's template): members of the main pipeline (Go naive vs Go semi-naive, both vs the Coq "
                                      "models, which read an unbound variable of a negated atom existentially); sensitive = the "
                                      "semi-naive Go result changes when every negated atom containing `_` is deleted"},
           "builtin_stream": bi_cov,
           "exhaustive": nexh > 0,
           "exhaustive_scope": ("all %d stratifiable safe programs of 2 free rules (+1 seed rule) with bodies of <=2 literals "
                                "(positive/negated atoms, =, !=, <) over 2 extensional and 2 derived predicates, 2 variables: "
                                "EvalProgramNaive vs EvalProgram fact sets compared on every one; the Coq models replayed on "
                                "a sample of %d of them" % (nexh, len(exh_sample))
                                if nexh else ""),
           "features": feats, "analysis_stage": stage_counts,
           "rejected_by_analysis_random": len(rej_random),
           "extensional_predicates_given_a_fact": filled,
           "semi_outcomes": semi_out, "naive_outcomes": naive_out,
           "verdicts": {str(k): n for k, n in sorted(vc.items())},
           "go_engines_differ": len(go_differ),
           "inconclusive": vc.get(5, 0), "f8_trigger_skipped": f8_skipped,
           "facts_per_result": {"max": max(sizes or [0]), "mean": round(sum(sizes) / max(1, len(sizes)), 1)},
           "samples": [go_cases[ncorpus]["src"], go_cases[min(len(go_cases) - 1, ncorpus + 1)]["src"]]}
    if rej_random:
        cov["rejected_samples"] = [(go_cases[i]["src"], m) for i, _, m in rej_random[:3]]
    if len(rej_random) > 0.1 * max(1, ncorpus + nrandom):
        ck.violation({"property": "C20", "kind": "generator: more than 10% of the generated programs rejected by analysis",
                      "no_longer_checks": "correspondence Run.C20.judge (input distribution broken)",
                      "samples": cov["rejected_samples"]}, "no-failing-input-found")
    rej_tmpl = [r for r in rejected if origin[r[0]].startswith("template")]
    if rej_tmpl:
        ck.violation({"property": "C20", "kind": "generator: a non-linear template program was rejected by analysis",
                      "no_longer_checks": "correspondence Run.C20.judge (input distribution broken)",
                      "samples": [(go_cases[i]["src"], m) for i, _, m in rej_tmpl[:3]]}, "no-failing-input-found")
    if sum(tmpl_sensitive.values()) < 0.25 * max(1, ntemplate):
        ck.violation({"property": "C20", "kind": "generator: fewer than 25% of the non-linear template programs need the "
                                                 "delta rule of a later occurrence",
                      "no_longer_checks": "correspondence Run.C20.judge (input distribution broken)",
                      "counts": tmpl_sensitive}, "no-failing-input-found")
    if nwild and wn_sensitive < 0.15 * nwild:
        ck.violation({"property": "C20", "kind": "generator: fewer than 15% of the wildcard-negation programs are sensitive to the "
                                                 "reading of `_` in a negated atom",
                      "no_longer_checks": "correspondence Run.C20.judge (input distribution broken)",
                      "sensitive": wn_sensitive, "programs": nwild}, "no-failing-input-found")
    rej_wn = [r for r in rejected if origin[r[0]] == "wildneg"]
    if len(rej_wn) > 0.1 * max(1, nwild):
        ck.violation({"property": "C20", "kind": "generator: more than 10% of the wildcard-negation programs rejected by analysis",
                      "no_longer_checks": "correspondence Run.C20.judge (input distribution broken)",
                      "samples": [(go_cases[i]["src"], m) for i, _, m in rej_wn[:3]]}, "no-failing-input-found")
    if both_finished < 0.6 * max(1, len(terms)):
        ck.violation({"property": "C20", "kind": "fewer than 60% of the programs were finished by both engines",
                      "no_longer_checks": "correspondence Run.C20.judge (input distribution broken)",
                      "semi_outcomes": semi_out, "naive_outcomes": naive_out}, "no-failing-input-found")
    return ck.finish(cov, assumptions=[
        "models hand-written (coq/Datalog/Naive.v over the shared coq/Datalog/*.v); tied to engine/naivebottomup.go, "
        "seminaivebottomup.go, premise.go, functional.go by differential evaluation only",
        "the property verdict of a run is decided on the two Go outputs themselves; the models only localise a disagreement",
        "transform-free programs (let-transforms of the shared generator are rewritten to body equalities); "
        "fragment: names, strings, int64 numbers, pairs, lists; fn:plus/minus/mult/div/pair/cons/list/len; = != < <= > >=",
        "programs accepted by both = the analysis call of EvalProgramNaive succeeds and EvalProgram returns no error; on "
        "semi-naive evaluation errors (the naive engine drops the substitution instead) only naive Go vs naive model is compared",
        "programs are safe by construction (!=, comparisons, negation after their binders: N19, F3 belong to C04); typed "
        "columns so that no two facts of a predicate have equal Atom.Hash() (F8)",
        "built-in predicate atoms are not in the Coq models (Solve.v / Naive.v): the built-in stream is judged by a Go-side oracle "
        "(equal error class and equal fact sets of the two engines); typed columns, no trigger of N105-N108 (C04)",
        "wildcards inside negated atoms are encoded as fresh variables (Syntax.v has no wildcard term); both models read them "
        "existentially (step / nstep on PNeg fail iff some stored fact unifies)",
        "both Go engines call analysis.Stratify themselves; the theorem naive_eq_seminaive is stated for one common valid "
        "stratification (independence of the choice is tested here, not proved)"])


def replay(ck, path):
    ck.build_harness()
    rep = json.load(open(path))
    if rep.get("stream") == "builtin" or "program" not in rep:
        # built-in predicate stream: Go-side oracle only
        o = ck.run_go("c20", [bi_go_case({"src": rep["src"], "pre": rep.get("pre", "")})])[0]
        if "out" not in o or o["out"]["stage"] != "ok":
            print("replay: program not evaluated: %s" % json.dumps(o)[:300])
            print("VIOLATION property=C20 replay=%s" % path)
            return 1
        v, why = bi_judge(o["out"])
        print("replay (built-in stream, Go-side oracle): naive %s, semi-naive %s: %s %s"
              % (o["out"]["naive"]["err"] or "ok", o["out"]["semi"]["err"] or "ok", v, why))
        if v == "violation":
            print("VIOLATION property=C20 replay=%s" % path)
            return 1
        return 0
    prog = rep["program"]
    gc = go_case(prog)
    if "src" in rep:
        gc["src"] = rep["src"]
    o = ck.run_go("c20", [gc])[0]
    if "out" not in o or o["out"]["stage"] != "ok":
        print("replay: program not evaluated: %s" % json.dumps(o)[:300])
        print("VIOLATION property=C20 replay=%s" % path)
        return 1
    out = o["out"]
    gn, gs = go_sets(out)
    v = ck.run_coq("C20", "judge", [cq_case(prog, out)])[0]
    print("replay: naive %s (%s facts), semi-naive %s (%s facts): verdict %d %s"
          % (out["naive"]["err"] or "ok", len(gn) if gn is not None else "-",
             out["semi"]["err"] or "ok", len(gs) if gs is not None else "-", v, VERDICT.get(v, "?")))
    differ = gs is not None and (gn != gs)
    if differ:
        if gn is not None:
            print("replay: only naive: %s; only semi-naive: %s" % (sorted(set(gn) - set(gs)), sorted(set(gs) - set(gn))))
        print("VIOLATION property=C20 replay=%s" % path)
        return 1
    if v not in (0, 5):
        print("VIOLATION property=C20 replay=%s no-failing-input-found" % path)
        return 1
    return 0


META = {
    "text": "Machine-checked theorems (coq/Props/C20.v) about a Gallina model of the naive evaluator (its own clause loop with "
            "Gauss-Seidel fact insertion, premise evaluation after fix F11, errors dropped, strata in program order) over the "
            "shared Datalog model: for every transform-free program in which no layer negates a predicate it derives, every "
            "base-fact set, rule order and fuel, a finished naive evaluation holds exactly the facts of the stratified least "
            "model, hence the same set as a finished semi-naive evaluation (C01); the pre-fix negation is refuted. The models "
            "are tied to the code on every run by evaluating generated stratifiable programs (same-round joins, mutual and "
            "non-linear recursion, negation, comparisons, arithmetic, pairs/lists, head functions) and, on every run, "
            "templates of non-linear recursion with asymmetric roles (two and three occurrences of the recursive predicate "
            "in any premise position, mutual recursion mentioning the other predicate twice, recursion through arithmetic "
            "over pairs of derived numbers; data in a random derivation order, so that the newest fact of a rule instance "
            "sits at a later occurrence), programs with wildcards inside negated atoms (`!path(X, _)`, read existentially by "
            "both models) with "
            "engine.EvalProgramNaive and engine.EvalProgram on copies of one store; the two Go fact sets must be equal "
            "(the property itself, decided on the implementation's outputs) and each equal to its model evaluated inside Coq; "
            "thorough adds an exhaustive block over a small rule schema. Built-in predicate atoms (:match_pair, :match_cons, "
            ":list:member with output places before the recursive atom that shares their output variables, :lt/:le/:gt/:ge, "
            ":match_nil, negated ground tests; every premise order the modes accept) are outside the Coq models: that stream is "
            "judged by a Go-side oracle only - the two engines' error classes and fact sets must be equal.",
    "note": "Trusted: Coq kernel + vm_compute; hand-written models tied to the Go code by differential evaluation only. "
            "The built-in predicate stream has no model behind it (Go naive vs Go semi-naive only). "
            "Programs with transforms, evaluation errors of the semi-naive engine (not accepted by both), hash collisions in "
            "stores (F8) are outside. Both engines stratify themselves; the theorem uses one common valid stratification.",
}
